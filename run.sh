#!/bin/bash
# Runs the static checker against /repo's current working tree. Usage: run.sh check <Cxx> [--tier quick|thorough]
set -u
HERE="$(cd "$(dirname "$0")" && pwd)"
export PATH=/opt/veriftools/go1.26.8/bin:$PATH
export GOFLAGS=-mod=mod GOPROXY=off GOSUMDB=off GOTOOLCHAIN=local CGO_ENABLED=0 GOWORK=off
unset GOWORK_FILE 2>/dev/null
export VERIF_DIR="$HERE"
BIN="$HERE/bin/canvascheck"
# rebuild the checker when missing or older than its sources
if [ ! -x "$BIN" ] || [ -n "$(find "$HERE/checker" -name '*.go' -newer "$BIN" -print -quit 2>/dev/null)" ]; then
  "$HERE/setup.sh" >&2 || { echo "VIOLATION property=${2:-?} replay=$HERE/replay/build-failed"; exit 1; }
fi
exec "$BIN" "$@"
