#!/bin/bash
# Builds the checker from files on disk only (offline).
set -eu
HERE="$(cd "$(dirname "$0")" && pwd)"
export PATH=/opt/veriftools/go1.26.8/bin:$PATH
export GOFLAGS=-mod=mod GOPROXY=off GOSUMDB=off GOTOOLCHAIN=local CGO_ENABLED=0 GOWORK=off
mkdir -p "$HERE/bin" "$HERE/evidence" "$HERE/replay"
cd "$HERE/checker"
go build -o "$HERE/bin/canvascheck.new" ./cmd/canvascheck
mv "$HERE/bin/canvascheck.new" "$HERE/bin/canvascheck"
echo "built $HERE/bin/canvascheck"
