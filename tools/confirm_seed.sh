#!/bin/bash
# usage: confirm_seed.sh <seed-dir> <worktree> <demo-pkg-dir-relative> <pkgs...>
# Confirms a seeded change: (1) patched tree passes the existing tests of <pkgs> (TestRichText excepted), (2) demo fails on the patched tree, (3) demo passes on the clean tree.
set -u
SEED=$1; WT=$2; DEMODIR=$3; shift 3; PKGS="$@"
export GOFLAGS=-mod=mod GOPROXY=off
cd "$WT" || exit 2
git checkout -q -- . ; find . -name 'zz_seed_demo_test.go' -delete
git apply "$SEED/patch.diff" || { echo "PATCH DOES NOT APPLY"; exit 3; }
go build ./ ./text ./renderers/pdf ./renderers/ps ./renderers/svg ./renderers/rasterizer || { echo "DOES NOT COMPILE"; exit 4; }
echo "== existing tests on patched tree"
go test -vet=off -count=1 $PKGS 2>&1 | grep -E "^(--- FAIL|FAIL|ok|panic)" | grep -v "TestRichText" | sed 's/^/   /'
FAILS=$(go test -vet=off -count=1 $PKGS 2>&1 | grep -E "^--- FAIL" | grep -v TestRichText | wc -l)
echo "   unexpected failing tests: $FAILS"
cp "$SEED/demo_test.go" "$DEMODIR/zz_seed_demo_test.go"
TESTS=$(grep -o '^func Test[A-Za-z0-9_]*' "$SEED/demo_test.go" | sed 's/func //' | paste -sd'|')
echo "== demo ($TESTS) on patched tree (must FAIL)"
go test -vet=off -count=1 -run "^($TESTS)\$" ./$DEMODIR 2>&1 | grep -E "^(--- FAIL|FAIL|ok|panic)" | head -5 | sed 's/^/   /'
git checkout -q -- .
echo "== demo on clean tree (must PASS)"
go test -vet=off -count=1 -run "^($TESTS)\$" ./$DEMODIR 2>&1 | grep -E "^(--- FAIL|FAIL|ok|panic)" | head -5 | sed 's/^/   /'
rm -f "$DEMODIR/zz_seed_demo_test.go"
