#!/usr/bin/env python3
"""store_seed.py <name> <property> <seed-dir> <demo-pkg-dir> <needs> <caught-by|MISSED> — copies a confirmed seeded change into /verif/seeded/<name>/"""
import sys, os, json, shutil
name, prop, src, demodir, needs, caught = sys.argv[1:7]
dst = f"/verif/seeded/{name}"
os.makedirs(dst, exist_ok=True)
shutil.copy(f"{src}/patch.diff", f"{dst}/patch.diff")
shutil.copy(f"{src}/demo_test.go", f"{dst}/demo_test.go")
if os.path.exists(f"{src}/NOTES.md"):
    shutil.copy(f"{src}/NOTES.md", f"{dst}/NOTES.md")
meta = {
    "property": prop,
    "breaks": open(f"{src}/NOTES.md").read().split("\n\n")[0][:600] if os.path.exists(f"{src}/NOTES.md") else "",
    "needs_to_manifest": needs,
    "demo_package_dir": demodir,
    "confirmed": "tools/confirm_seed.sh: patched tree compiles and passes the existing tests of the affected packages (TestRichText excepted, baseline failure); demo fails on the patched tree; demo passes on the clean tree",
    "check_result": caught,
    "how_to_apply": "git -C /repo apply /verif/seeded/%s/patch.diff ; ./run.sh check %s ; git -C /repo checkout -- ." % (name, prop),
}
json.dump(meta, open(f"{dst}/meta.json", "w"), indent=1)
print("stored", dst)
