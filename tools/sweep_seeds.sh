#!/bin/bash
# usage: sweep_seeds.sh [jobs] — applies every stored seeded change to a scratch copy of /repo and runs the quick check of its
# property on it; prints one line per seed (CAUGHT / MISSED / SKIPPED when the patch no longer applies because the code was repaired since).
# Scratch copies live under /tmp and are removed; nothing is written to /verif/evidence or /repo.
J=${1:-6}
cd /verif/seeded
ls | xargs -P "$J" -I{} bash -c '
  S={}; P=$(python3 -c "import json;print(json.load(open(\"/verif/seeded/$S/meta.json\"))[\"property\"])")
  D=$(mktemp -d /tmp/sweep.XXXXXX); V=$(mktemp -d /tmp/sweepv.XXXXXX)
  rsync -a --exclude .git /repo/ "$D/"; cp /verif/known_findings.json "$V/"
  if (cd "$D" && patch -p1 -s --no-backup-if-mismatch < /verif/seeded/$S/patch.diff >/dev/null 2>&1); then
    out=$(CANVAS_REPO="$D" VERIF_DIR="$V" /verif/bin/canvascheck check "$P" 2>&1 | tail -1)
    if echo "$out" | grep -q "violations=0"; then echo "MISSED  $S  $out"; else echo "CAUGHT  $S"; fi
  else echo "SKIPPED $S (patch does not apply any more)"; fi
  rm -rf "$D" "$V"'
