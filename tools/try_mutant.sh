#!/bin/bash
# usage: try_mutant.sh <property> <file> <python-regex-from> <to>   — applies one textual edit to a scratch copy of /repo and runs the check on it
set -eu
PROP=$1; FILE=$2; FROM=$3; TO=$4
D=$(mktemp -d /tmp/mut.XXXXXX)
trap 'rm -rf "$D"' EXIT
rsync -a --exclude .git /repo/ "$D/"
python3 - "$D/$FILE" "$FROM" "$TO" <<'PY'
import sys,re
p,fr,to=sys.argv[1:4]
s=open(p).read()
n=len(re.findall(fr,s))
if n!=1:
    print("pattern matches",n,"times"); sys.exit(3)
to=to.encode().decode('unicode_escape'); open(p,'w').write(re.sub(fr,lambda m: to,s,count=1))
PY
(cd "$D" && PATH=/opt/veriftools/go1.26.8/bin:$PATH GOFLAGS=-mod=mod GOPROXY=off GOTOOLCHAIN=local CGO_ENABLED=0 go build ./ ./text ./renderers/pdf ./renderers/ps ./renderers/svg ./renderers/rasterizer) || { echo "MUTANT DOES NOT COMPILE"; exit 4; }
VERIF_DIR=$(mktemp -d /tmp/mutverif.XXXXXX)
cp /verif/known_findings.json "$VERIF_DIR/"
CANVAS_REPO="$D" VERIF_DIR="$VERIF_DIR" /verif/bin/canvascheck check "$PROP" | grep -v "^    " | cut -c1-300 | tail -6
rm -rf "$VERIF_DIR"
