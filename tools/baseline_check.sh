#!/bin/bash
# Runs the repository's own suite (guard off; there are no hooks) and compares with BASELINE.json's stable_pass list.
cd /repo && GOFLAGS=-mod=mod GOPROXY=off go test -json -vet=off -count=1 -timeout 25m ./... > /tmp/baseline_run.json 2>/tmp/baseline_run.err
python3 - <<'PY'
import json
res={}
for l in open('/tmp/baseline_run.json'):
    try: e=json.loads(l)
    except: continue
    if e.get('Action') in('pass','fail','skip') and e.get('Test'):
        res[e['Package']+'::'+e['Test']]=e['Action']
sp=json.load(open('/root/.vp/BASELINE.json'))['stable_pass']
bad=[t for t in sp if res.get(t)!='pass']
print(len(sp),'stable; not passing now:',len(bad)); print(bad[:20])
PY
rm -f /tmp/baseline_run.json
