#!/usr/bin/env python3
"""Regenerates the 'Rules registered per property' block of DESIGN.md §3 from the evidence files."""
import json
lines=[]
for i in range(1,21):
    pid="C%02d"%i
    ev=json.load(open(f"/verif/evidence/{pid}.json"))
    rules=ev.get("coverage",{}).get("rules",{})
    names=sorted(rules.keys()) if isinstance(rules,dict) else sorted(set(str(r) for r in rules))
    lines.append(f"- **{pid}** ({len(names)} rules): "+", ".join(f"`{n}`" for n in names))
block="\n**Rules registered per property (generated from the evidence files of the current tree by tools/gen_rules_list.py; the table above names the round-one rules only, the later ones are described in the ▲ notes of §2):**\n\n"+"\n".join(lines)+"\n"
p='/verif/DESIGN.md'
s=open(p).read()
marker="\n**Rules registered per property (generated"
i=s.index(marker); j=s.index("\n**C16 — narrow claim.**",i)
open(p,'w').write(s[:i]+block+s[j:])
