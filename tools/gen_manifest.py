#!/usr/bin/env python3
"""Generates /verif/MANIFEST.json from the claims table below (kept next to the checker so the
manifest is always valid and in step with what `canvascheck list` claims)."""
import json, os, sys
HERE = os.path.dirname(os.path.dirname(os.path.abspath(__file__)))
claims = json.load(open(os.path.join(HERE, "tools", "claims.json")))
props = [json.loads(l) for l in open(os.path.join(HERE, "properties.jsonl")) if l.strip()]
ids = [p["id"] for p in props]
checks, na = [], []
for pid in ids:
    c = claims["claimed"].get(pid)
    if c is None:
        na.append({"property_id": pid, "reason": claims["not_applicable"][pid]})
        continue
    checks.append({
        "property_id": pid,
        "quick_cmd": f"./run.sh check {pid} --tier quick",
        "thorough_cmd": f"./run.sh check {pid} --tier thorough",
        "evidence_file": f"/verif/evidence/{pid}.json",
        "replay_cmd_template": "./run.sh replay {path}",
        "engine": "canvascheck",
        "level_claimed": {"category": "other", "text": c["text"], "design_ref": c["design_ref"]},
        "level_note": c["note"],
        "technique": c["technique"],
    })
m = {
    "version": 1,
    "setup_cmd": "./setup.sh",
    "hooks": {
        "guard": "verif",
        "enable": "none needed: the checks are static and read /repo's source; no hook commits exist (go build -tags verif is identical to the default build)",
        "baseline_off_cmd": "cd /repo && GOFLAGS=-mod=mod GOPROXY=off go test -json -vet=off -count=1 -timeout 25m ./...",
        "source_commits": [],
        "add_only": True,
    },
    "engines": [{
        "name": "canvascheck",
        "path": "/verif/checker",
        "serves_properties": [c["property_id"] for c in checks],
        "kind_free_text": "repository-specific static analyser (go/packages, go/types, go/ast, go/ssa, VTA call graph); one rule engine per clause family, see DESIGN.md",
    }],
    "checks": checks,
    "not_applicable": na,
    "notes": claims.get("notes", ""),
}
json.dump(m, open(os.path.join(HERE, "MANIFEST.json"), "w"), indent=1)
print("claimed", len(checks), "not_applicable", len(na))
