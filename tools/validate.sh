#!/bin/bash
# validates MANIFEST.json and every evidence file against the harness schemas
cd "$(dirname "$0")/.."
python3-vt - <<'PY'
import json,jsonschema,glob
jsonschema.validate(json.load(open('MANIFEST.json')),json.load(open('/root/.vp/MANIFEST.schema.json')))
s=json.load(open('/root/.vp/EVIDENCE.schema.json'))
for f in sorted(glob.glob('evidence/*.json')):
    jsonschema.validate(json.load(open(f)),s)
print('manifest+evidence valid')
PY
