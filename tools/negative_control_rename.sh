#!/bin/bash
# Negative control: behaviour-preserving renamings of locals in a scratch copy must leave every check silent.
set -u
D=$(mktemp -d /tmp/negctl.XXXXXX); V=$(mktemp -d /tmp/negverif.XXXXXX)
trap 'rm -rf "$D" "$V"' EXIT
rsync -a --exclude .git /repo/ "$D/"
export PATH=/opt/veriftools/go1.26.8/bin:$PATH GOFLAGS=-mod=mod GOPROXY=off GOTOOLCHAIN=local CGO_ENABLED=0
cd "$D"
for r in 'coord -> cpt' 'subsetGlyphID -> sid' 'dpmm -> pxPerMm' 'xmin -> lox' 'ymax -> hiy' 'strokeUnsupported -> noNative' 'sinphi -> sphi' 'cosphi -> cphi' 'zindices -> zs' 'copied -> didCopy' 'startTheta -> thetaFrom' 'i0 -> idx0' 'pos0 -> phase0' 'states -> segs' 'rhsJoinIndex -> rji' 'lineCap -> capCode' 'lineJoin -> joinCode' 'curSeg -> segNo' 'objOffset -> off' 'dashOffset -> dOff' 'tsub -> trel' 'pOverlaps -> pTouch' 'qOverlaps -> qTouch' 'belowFills -> fillsBelow' 'aboveFills -> fillsAbove' 'lowerWindings -> wLo' 'upperOtherWindings -> woHi' 'thetaTop -> angY' 'thetaRight -> angX' 'dashArray -> dashArr' 'totalLength -> period' 'widths -> advs' 'first -> subStart' 'open -> pending' 'fun -> fnName' 'hw -> halfW' 'prevCmd -> lastCmd' 'repeat -> again' 'keepPath -> keep' 'sfntSubset -> sub' 'glyphIDs -> gids'; do
  gofmt -l -r "$r" -w *.go text/*.go renderers/pdf/*.go renderers/ps/*.go renderers/svg/*.go renderers/rasterizer/*.go >/dev/null 2>&1
done
go build ./ ./text ./renderers/pdf ./renderers/ps ./renderers/svg ./renderers/rasterizer || { echo "RENAMED COPY DOES NOT COMPILE"; exit 2; }
cp /verif/known_findings.json "$V/"
FAIL=0
for p in $(/verif/bin/canvascheck list | cut -d' ' -f1); do
  out=$(CANVAS_REPO="$D" VERIF_DIR="$V" /verif/bin/canvascheck check $p 2>&1)
  line=$(echo "$out" | tail -1)
  echo "$line"
  if echo "$out" | grep -q "^VIOLATION"; then FAIL=1; echo "$out" | grep -v "^    \|KNOWN" | cut -c1-260 | head -6; fi
done
exit $FAIL
