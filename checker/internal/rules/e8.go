package rules

import (
	"fmt"
	"go/ast"
	"go/constant"
	"go/token"
	"go/types"
	"math"
	"path/filepath"
	"sort"
	"strings"

	"canvascheck/internal/core"

	"golang.org/x/tools/go/ssa"
)

// E8 — angle-unit qualifier inference on SSA (DESIGN.md §2 E8).

type unit int

const (
	uNone unit = iota
	uRad
	uDeg
	uConflict
)

func (u unit) String() string { return [...]string{"-", "rad", "deg", "CONFLICT"}[u] }

type unode struct {
	parent *unode
	tag    unit
	why    []string
}

func (n *unode) find() *unode {
	for n.parent != nil {
		n = n.parent
	}
	return n
}

type e8Conflict struct {
	fn, pos, msg string
	witness      []string
}

type e8 struct {
	c         *core.Ctx
	sums      map[*ssa.Function]*e8sum
	fields    map[*types.Var]*unode
	arcSlot   *unode
	arcSites  map[token.Pos]bool // Lbrack positions of A.d[i+3] in arc-only contexts
	conflicts map[string]e8Conflict
	arcCmd    float64
}

type e8sum struct {
	params  []unit
	results []unit
}

var e8ScopeFiles = map[string]bool{"path.go": true, "path_util.go": true, "path_stroke.go": true, "path_intersection.go": true, "path_intersection_util.go": true,
	"path_scanner.go": true, "path_simplify.go": true, "path_tiling.go": true, "shapes.go": true, "util.go": true}

func isFloatT(t types.Type) bool {
	b, ok := t.Underlying().(*types.Basic)
	return ok && (b.Kind() == types.Float64 || b.Kind() == types.UntypedFloat)
}

func ssaConstFloat(v ssa.Value) (float64, bool) {
	c, ok := v.(*ssa.Const)
	if !ok || c.Value == nil {
		return 0, false
	}
	if c.Value.Kind() != constant.Float && c.Value.Kind() != constant.Int {
		return 0, false
	}
	f, _ := constant.Float64Val(c.Value)
	return f, true
}

func nearF(a, b float64) bool { return math.Abs(a-b) <= 1e-12*math.Max(1, math.Abs(b)) }

func isPiMultiple(f float64) bool {
	if f == 0 {
		return false
	}
	for _, k := range []float64{0.25, 0.5, 1, 1.5, 2, 3, 4} {
		if nearF(math.Abs(f), k*math.Pi) {
			return true
		}
	}
	return false
}

func (e *e8) conflict(fn, pos, msg string, witness ...string) {
	k := fn + "|" + msg
	if _, ok := e.conflicts[k]; !ok {
		e.conflicts[k] = e8Conflict{fn, pos, msg, witness}
	}
}

func (e *e8) setTag(n *unode, t unit, why, fn, pos string) bool {
	r := n.find()
	if r.tag == t {
		return false
	}
	if r.tag == uNone {
		r.tag = t
		r.why = append(r.why, why)
		return true
	}
	if r.tag != uConflict {
		e.conflict(fn, pos, fmt.Sprintf("a value that is %s (%s) is used as %s (%s)", r.tag, strings.Join(r.why, "; "), t, why), r.why...)
	}
	return false
}

func (e *e8) union(a, b *unode, pos, fn string) bool {
	ra, rb := a.find(), b.find()
	if ra == rb {
		return false
	}
	if ra.tag != uNone && rb.tag != uNone && ra.tag != rb.tag {
		e.conflict(fn, pos, fmt.Sprintf("%s value (%s) meets %s value (%s)", ra.tag, strings.Join(ra.why, "; "), rb.tag, strings.Join(rb.why, "; ")), append(append([]string{}, ra.why...), rb.why...)...)
		return false
	}
	rb.parent = ra
	if ra.tag == uNone {
		ra.tag = rb.tag
		ra.why = rb.why
	}
	return true
}

func (e *e8) fieldNode(v *types.Var) *unode {
	if n, ok := e.fields[v]; ok {
		return n
	}
	n := &unode{}
	e.fields[v] = n
	return n
}

// isConv recognises x*180/π, x/π*180, x*(180/π) and the inverse shapes.
func isConv(v ssa.Value) (ssa.Value, unit, unit, bool) {
	b, ok := v.(*ssa.BinOp)
	if !ok {
		return nil, 0, 0, false
	}
	r2d := 180 / math.Pi
	d2r := math.Pi / 180
	cx, okx := ssaConstFloat(b.X)
	cy, oky := ssaConstFloat(b.Y)
	switch b.Op {
	case token.MUL:
		if oky && nearF(cy, r2d) {
			return b.X, uRad, uDeg, true
		}
		if okx && nearF(cx, r2d) {
			return b.Y, uRad, uDeg, true
		}
		if oky && nearF(cy, d2r) {
			return b.X, uDeg, uRad, true
		}
		if okx && nearF(cx, d2r) {
			return b.Y, uDeg, uRad, true
		}
		if inner, ok := b.X.(*ssa.BinOp); ok && inner.Op == token.QUO && oky {
			if ic, ok2 := ssaConstFloat(inner.Y); ok2 {
				if nearF(ic, math.Pi) && nearF(cy, 180) {
					return inner.X, uRad, uDeg, true
				}
				if nearF(ic, 180) && nearF(cy, math.Pi) {
					return inner.X, uDeg, uRad, true
				}
			}
		}
	case token.QUO:
		if oky && nearF(cy, d2r) {
			return b.X, uRad, uDeg, true
		}
		if oky && nearF(cy, r2d) {
			return b.X, uDeg, uRad, true
		}
		if inner, ok := b.X.(*ssa.BinOp); ok && inner.Op == token.MUL && oky {
			var ic float64
			var ix ssa.Value
			if c, ok2 := ssaConstFloat(inner.Y); ok2 {
				ic, ix = c, inner.X
			} else if c, ok2 := ssaConstFloat(inner.X); ok2 {
				ic, ix = c, inner.Y
			} else {
				return nil, 0, 0, false
			}
			if nearF(ic, 180) && nearF(cy, math.Pi) {
				return ix, uRad, uDeg, true
			}
			if nearF(ic, math.Pi) && nearF(cy, 180) {
				return ix, uDeg, uRad, true
			}
		}
	}
	return nil, 0, 0, false
}

func (e *e8) analyze(fn *ssa.Function) bool {
	changed := false
	nodes := map[ssa.Value]*unode{}
	get := func(v ssa.Value) *unode {
		if n, ok := nodes[v]; ok {
			return n
		}
		n := &unode{}
		nodes[v] = n
		if f, ok := ssaConstFloat(v); ok && isPiMultiple(f) {
			n.tag = uRad
			n.why = []string{"π-multiple constant"}
		}
		return n
	}
	name := core.ShortFunc(fn)
	s := e.sums[fn]
	if s == nil {
		s = &e8sum{params: make([]unit, len(fn.Params)), results: make([]unit, fn.Signature.Results().Len())}
		e.sums[fn] = s
	}
	pos := func(p token.Pos) string { return e.c.Pos(p) }
	for i, p := range fn.Params {
		if isFloatT(p.Type()) && (s.params[i] == uRad || s.params[i] == uDeg) {
			e.setTag(get(p), s.params[i], "parameter "+p.Name()+" of "+name, name, pos(p.Pos()))
		}
	}
	convInner := map[ssa.Value]bool{}
	for _, b := range fn.Blocks {
		for _, ins := range b.Instrs {
			if v, ok := ins.(ssa.Value); ok {
				if _, _, _, ok := isConv(v); ok {
					bo := v.(*ssa.BinOp)
					if inner, ok := bo.X.(*ssa.BinOp); ok {
						if _, okc := ssaConstFloat(bo.Y); okc {
							if _, _, _, isinner := isConv(inner); !isinner {
								convInner[inner] = true
							}
						}
					}
				}
			}
		}
	}
	// arc records built with append(X.d, ArcToCmd, rx, ry, phi, …): the varargs array
	arcArrays := map[ssa.Value]bool{}
	for _, b := range fn.Blocks {
		for _, ins := range b.Instrs {
			st, ok := ins.(*ssa.Store)
			if !ok {
				continue
			}
			ia, ok := st.Addr.(*ssa.IndexAddr)
			if !ok {
				continue
			}
			if idx, ok := ia.Index.(*ssa.Const); ok && idx.Value != nil && idx.Int64() == 0 {
				if f, ok := ssaConstFloat(st.Val); ok && f == e.arcCmd {
					if al, ok := ia.X.(*ssa.Alloc); ok {
						if at, ok := al.Type().Underlying().(*types.Pointer).Elem().Underlying().(*types.Array); ok && at.Len() == 8 {
							arcArrays[al] = true
						}
					}
				}
			}
		}
	}
	for _, b := range fn.Blocks {
		for _, ins := range b.Instrs {
			switch v := ins.(type) {
			case *ssa.BinOp:
				if !isFloatT(v.X.Type()) {
					continue
				}
				if op, from, to, ok := isConv(v); ok {
					w := pos(v.Pos())
					if e.setTag(get(op), from, "operand of the "+from.String()+"→"+to.String()+" conversion at "+w, name, w) {
						changed = true
					}
					if e.setTag(get(v), to, "result of the "+from.String()+"→"+to.String()+" conversion at "+w, name, w) {
						changed = true
					}
					continue
				}
				if convInner[v] {
					continue
				}
				w := pos(v.Pos())
				switch v.Op {
				case token.ADD, token.SUB:
					fx, cx := ssaConstFloat(v.X)
					fy, cy := ssaConstFloat(v.Y)
					if cx && !isPiMultiple(fx) {
						if e.union(get(v), get(v.Y), w, name) {
							changed = true
						}
					} else if cy && !isPiMultiple(fy) {
						if e.union(get(v), get(v.X), w, name) {
							changed = true
						}
					} else {
						if e.union(get(v.X), get(v.Y), w, name) {
							changed = true
						}
						if e.union(get(v), get(v.X), w, name) {
							changed = true
						}
					}
				case token.MUL, token.QUO:
					if _, ok := ssaConstFloat(v.Y); ok {
						if e.union(get(v), get(v.X), w, name) {
							changed = true
						}
					} else if _, ok := ssaConstFloat(v.X); ok && v.Op == token.MUL {
						if e.union(get(v), get(v.Y), w, name) {
							changed = true
						}
					}
				case token.LSS, token.LEQ, token.GTR, token.GEQ, token.EQL, token.NEQ:
					fx, cx := ssaConstFloat(v.X)
					fy, cy := ssaConstFloat(v.Y)
					if (cx && !isPiMultiple(fx)) || (cy && !isPiMultiple(fy)) {
						continue
					}
					if e.union(get(v.X), get(v.Y), w, name) {
						changed = true
					}
				}
			case *ssa.UnOp:
				if v.Op == token.SUB && isFloatT(v.Type()) {
					if e.union(get(v), get(v.X), pos(v.Pos()), name) {
						changed = true
					}
				}
				if v.Op == token.MUL && isFloatT(v.Type()) {
					switch a := v.X.(type) {
					case *ssa.FieldAddr:
						st := a.X.Type().Underlying().(*types.Pointer).Elem().Underlying().(*types.Struct)
						if e.union(get(v), e.fieldNode(st.Field(a.Field)), pos(v.Pos()), name) {
							changed = true
						}
					case *ssa.IndexAddr:
						if e.arcSites[a.Pos()] {
							if e.union(get(v), e.arcSlot, pos(v.Pos()), name) {
								changed = true
							}
						}
					}
				}
			case *ssa.Field:
				if isFloatT(v.Type()) {
					st := v.X.Type().Underlying().(*types.Struct)
					if e.union(get(v), e.fieldNode(st.Field(v.Field)), pos(v.Pos()), name) {
						changed = true
					}
				}
			case *ssa.Store:
				if !isFloatT(v.Val.Type()) {
					continue
				}
				if f, ok := ssaConstFloat(v.Val); ok && !isPiMultiple(f) {
					continue
				}
				switch a := v.Addr.(type) {
				case *ssa.FieldAddr:
					st := a.X.Type().Underlying().(*types.Pointer).Elem().Underlying().(*types.Struct)
					if e.union(get(v.Val), e.fieldNode(st.Field(a.Field)), pos(v.Pos()), name) {
						changed = true
					}
				case *ssa.IndexAddr:
					if e.arcSites[a.Pos()] {
						if e.union(get(v.Val), e.arcSlot, pos(v.Pos()), name) {
							changed = true
						}
					}
					if arcArrays[a.X] {
						if idx, ok := a.Index.(*ssa.Const); ok && idx.Value != nil && idx.Int64() == 3 {
							if e.union(get(v.Val), e.arcSlot, pos(v.Pos()), name) {
								changed = true
							}
						}
					}
				}
			case *ssa.Phi:
				if isFloatT(v.Type()) {
					for _, ed := range v.Edges {
						if f, ok := ssaConstFloat(ed); ok && !isPiMultiple(f) {
							continue
						}
						if e.union(get(v), get(ed), pos(v.Pos()), name) {
							changed = true
						}
					}
				}
			case *ssa.Call:
				cc := v.Common()
				callee := cc.StaticCallee()
				if callee == nil {
					continue
				}
				cn := callee.String()
				args := cc.Args
				w := pos(v.Pos())
				switch cn {
				case "math.Sin", "math.Cos", "math.Tan", "math.Sincos":
					if e.setTag(get(args[0]), uRad, "argument of "+cn+" at "+w, name, w) {
						changed = true
					}
				case "math.Atan2", "math.Acos", "math.Asin", "math.Atan":
					if e.setTag(get(v), uRad, "result of "+cn+" at "+w, name, w) {
						changed = true
					}
				case "math.Mod", "math.Min", "math.Max":
					if e.union(get(args[0]), get(args[1]), w, name) {
						changed = true
					}
					if e.union(get(v), get(args[0]), w, name) {
						changed = true
					}
				case "math.Abs", "math.Copysign":
					if e.union(get(v), get(args[0]), w, name) {
						changed = true
					}
				default:
					if !core.InModule(callee) {
						continue
					}
					cs := e.sums[callee]
					if cs == nil {
						continue
					}
					for i, a := range args {
						if i < len(cs.params) && isFloatT(a.Type()) && (cs.params[i] == uRad || cs.params[i] == uDeg) {
							if f, ok := ssaConstFloat(a); ok && !isPiMultiple(f) {
								continue
							}
							pn := "?"
							if i < len(callee.Params) {
								pn = callee.Params[i].Name()
							}
							if e.setTag(get(a), cs.params[i], fmt.Sprintf("argument %s of %s at %s", pn, core.ShortFunc(callee), w), name, w) {
								changed = true
							}
						}
					}
					if len(cs.results) == 1 && isFloatT(v.Type()) && (cs.results[0] == uRad || cs.results[0] == uDeg) {
						if e.setTag(get(v), cs.results[0], "result of "+core.ShortFunc(callee)+" at "+w, name, w) {
							changed = true
						}
					}
				}
			case *ssa.Extract:
				if call, ok := v.Tuple.(*ssa.Call); ok && isFloatT(v.Type()) {
					if callee := call.Common().StaticCallee(); callee != nil {
						if cs := e.sums[callee]; cs != nil && v.Index < len(cs.results) && (cs.results[v.Index] == uRad || cs.results[v.Index] == uDeg) {
							w := pos(call.Pos())
							if e.setTag(get(v), cs.results[v.Index], fmt.Sprintf("result %d of %s at %s", v.Index, core.ShortFunc(callee), w), name, w) {
								changed = true
							}
						}
					}
				}
			case *ssa.Return:
				for i, rv := range v.Results {
					if isFloatT(rv.Type()) {
						t := get(rv).find().tag
						if (t == uRad || t == uDeg) && s.results[i] == uNone {
							s.results[i] = t
							changed = true
						} else if (t == uRad || t == uDeg) && s.results[i] != t && s.results[i] != uConflict {
							e.conflict(name, pos(v.Pos()), fmt.Sprintf("result %d is returned both in rad and in deg", i))
							s.results[i] = uConflict
						}
					}
				}
			}
		}
	}
	for i, p := range fn.Params {
		if isFloatT(p.Type()) {
			t := get(p).find().tag
			if (t == uRad || t == uDeg) && s.params[i] == uNone {
				s.params[i] = t
				changed = true
			}
		}
	}
	return changed
}

// e8Expected: units the documented API fixes; the inference must reproduce them (anchors).
var e8Expected = []struct {
	fn    string
	param string // "" = result 0
	want  unit
	why   string
}{
	{"Path.ArcTo", "rot", uDeg, "ArcTo's doc: rotation in degrees"},
	{"Path.Arc", "theta0", uDeg, "Arc's doc: angles in degrees"},
	{"Matrix.Rotate", "rot", uDeg, "Matrix.Rotate's doc: degrees"},
	{"ellipseToCenter", "phi", uRad, "internal arc parametrisation in radians"},
	{"ellipseDeriv", "phi", uRad, "internal arc parametrisation in radians"},
}

// E8Units runs the unit inference over the scoped files of package canvas.
func E8Units(c *core.Ctx, r *core.Report) {
	r.Rule("E8.units", "angle units are inferred for every float64 SSA value of the path/shape/util files (seeds: math.Sin/Cos/Tan arguments and π-multiples are radians, Atan2/Acos/Asin results are radians, x*180/π and x*π/180 shapes convert; + - < == Mod Min Max Abs and scalar multiplication preserve the unit; the rotation slot of arc records is one shared unit variable; struct fields are unit variables; only rad/deg tags of parameters, results and fields cross function boundaries): no value is both radians and degrees")
	r.Rule("E8.anchor", "the inference reproduces the units the API documents (ArcTo/Arc/Matrix.Rotate take degrees, the arc record stores radians)")
	prog := c.SSA()
	pkg := c.SSAPkg("")
	root := c.MustPkg("")
	e := &e8{c: c, sums: map[*ssa.Function]*e8sum{}, fields: map[*types.Var]*unode{}, arcSlot: &unode{}, arcSites: map[token.Pos]bool{}, conflicts: map[string]e8Conflict{}}
	if v, ok := cmdConstValue(root, "ArcToCmd"); ok {
		e.arcCmd = v
	} else {
		panic(core.Infra("ArcToCmd constant not found"))
	}
	// decoder facts: A.d[i+3] in arc-only contexts
	for _, fd := range core.AllFuncDecls(root) {
		decoderSites(root, fd, func() {}, func(s decoderSite) {
			if !s.unknown && s.k == 3 && len(s.set) == 1 && s.set[0] == "ArcToCmd" {
				e.arcSites[s.ie.Lbrack] = true
			}
		})
	}
	// … and through local slices of path data: `d := q.d[k:]; cmd := d[0]; switch cmd { case ArcToCmd: … d[3] … }`
	for _, fd := range core.AllFuncDecls(root) {
		info := root.TypesInfo
		local := map[types.Object]bool{}
		ast.Inspect(fd.Body, func(n ast.Node) bool {
			if as, ok := n.(*ast.AssignStmt); ok && len(as.Lhs) == 1 && len(as.Rhs) == 1 {
				if se, ok := core.Unparen(as.Rhs[0]).(*ast.SliceExpr); ok && core.IsPathDataSel(info, se.X) {
					if id, ok := as.Lhs[0].(*ast.Ident); ok {
						local[core.ObjOf(info, id)] = true
					}
				}
			}
			return true
		})
		if len(local) == 0 {
			continue
		}
		cmdOf := map[types.Object]types.Object{} // cmd variable -> local slice it was read from at index 0
		ast.Inspect(fd.Body, func(n ast.Node) bool {
			if as, ok := n.(*ast.AssignStmt); ok && len(as.Lhs) == 1 && len(as.Rhs) == 1 {
				if ie, ok := core.Unparen(as.Rhs[0]).(*ast.IndexExpr); ok {
					if sid, ok := core.Unparen(ie.X).(*ast.Ident); ok && local[core.ObjOf(info, sid)] {
						if k, ok := core.ConstInt(info, ie.Index); ok && k == 0 {
							if id, ok := as.Lhs[0].(*ast.Ident); ok {
								cmdOf[core.ObjOf(info, id)] = core.ObjOf(info, sid)
							}
						}
					}
				}
			}
			return true
		})
		ast.Inspect(fd.Body, func(n ast.Node) bool {
			sw, ok := n.(*ast.SwitchStmt)
			if !ok || sw.Tag == nil {
				return true
			}
			tid, ok := core.Unparen(sw.Tag).(*ast.Ident)
			if !ok {
				return true
			}
			sl := cmdOf[core.ObjOf(info, tid)]
			if sl == nil {
				return true
			}
			for _, st := range sw.Body.List {
				cc := st.(*ast.CaseClause)
				ks := core.CaseConsts(info, cc)
				if len(ks) != 1 || ks[0] != "ArcToCmd" {
					continue
				}
				ast.Inspect(cc, func(m ast.Node) bool {
					if ie, ok := m.(*ast.IndexExpr); ok {
						if sid, ok := core.Unparen(ie.X).(*ast.Ident); ok && core.ObjOf(info, sid) == sl {
							if k, ok := core.ConstInt(info, ie.Index); ok && k == 3 {
								e.arcSites[ie.Lbrack] = true
							}
						}
					}
					return true
				})
			}
			return true
		})
	}
	r.Count("E8.arc-slot-sites", len(e.arcSites))
	var fns []*ssa.Function
	seen := map[*ssa.Function]bool{}
	var add func(f *ssa.Function)
	add = func(f *ssa.Function) {
		if f == nil || seen[f] || f.Blocks == nil {
			return
		}
		seen[f] = true
		file := filepath.Base(prog.Fset.Position(f.Pos()).Filename)
		if e8ScopeFiles[file] {
			fns = append(fns, f)
		}
		for _, a := range f.AnonFuncs {
			add(a)
		}
	}
	for _, f := range moduleFunctions(c) {
		if core.FuncPkgPath(f) == pkg.Pkg.Path() {
			add(f)
		}
	}
	sort.Slice(fns, func(i, j int) bool { return fns[i].String() < fns[j].String() })
	r.Count("E8.functions", len(fns))
	for round := 0; round < 12; round++ {
		ch := false
		for _, f := range fns {
			if e.analyze(f) {
				ch = true
			}
		}
		if !ch {
			break
		}
	}
	tagged := 0
	for _, f := range fns {
		s := e.sums[f]
		var parts []string
		for i, u := range s.params {
			if u != uNone {
				parts = append(parts, fmt.Sprintf("%s:%v", f.Params[i].Name(), u))
			}
		}
		for i, u := range s.results {
			if u != uNone {
				parts = append(parts, fmt.Sprintf("ret%d:%v", i, u))
			}
		}
		r.Func(core.ShortFunc(f))
		if len(parts) > 0 {
			tagged++
			r.OK("E8.units", core.ShortFunc(f)+"|signature", c.Pos(f.Pos()), strings.Join(parts, " "))
		}
	}
	r.Count("E8.tagged-functions", tagged)
	// struct fields
	var fvs []*types.Var
	for v := range e.fields {
		fvs = append(fvs, v)
	}
	sort.Slice(fvs, func(i, j int) bool { return fvs[i].Pos() < fvs[j].Pos() })
	for _, v := range fvs {
		if t := e.fields[v].find().tag; t != uNone {
			r.OK("E8.units", "field "+v.Pkg().Name()+"."+v.Name()+fmt.Sprintf("@%s", c.Pos(v.Pos())), c.Pos(v.Pos()), t.String())
		}
	}
	// arc slot
	if t := e.arcSlot.find().tag; t == uRad {
		r.OK("E8.anchor", "canvas|arc record rotation slot", "", "rad ("+strings.Join(e.arcSlot.find().why, "; ")+")")
	} else {
		r.Fail("E8.anchor", "canvas|arc record rotation slot", "", fmt.Sprintf("the rotation slot of arc records is inferred as %s, the encoding stores radians", t))
	}
	for _, x := range e8Expected {
		f := c.SSAFunc("", x.fn)
		s := e.sums[f]
		got := uNone
		if s != nil {
			if x.param == "" {
				if len(s.results) > 0 {
					got = s.results[0]
				}
			} else {
				for i, p := range f.Params {
					if p.Name() == x.param {
						got = s.params[i]
					}
				}
			}
		}
		key := "canvas." + x.fn + "|" + x.param
		if got == x.want {
			r.OK("E8.anchor", key, c.Pos(f.Pos()), got.String())
		} else {
			r.Fail("E8.anchor", key, c.Pos(f.Pos()), fmt.Sprintf("inferred %s for %s of %s; %s", got, x.param, x.fn, x.why))
		}
	}
	var keys []string
	for k := range e.conflicts {
		keys = append(keys, k)
	}
	sort.Strings(keys)
	for _, k := range keys {
		cf := e.conflicts[k]
		r.Fail("E8.units", cf.fn+"|"+cf.msg, cf.pos, "degrees/radians conflict: "+cf.msg, cf.witness...)
	}
	r.Floor("E8.functions", 150)
	r.Floor("E8.tagged-functions", 30)
	r.Floor("E8.arc-slot-sites", 12)
	var _ ast.Node
}
