package rules

import (
	"fmt"
	"go/ast"
	"go/constant"
	"go/parser"
	"go/token"
	"go/types"
	"sort"
	"strings"

	"canvascheck/internal/core"

	"golang.org/x/tools/go/packages"
)

// E6 — back-end sibling agreement (DESIGN.md §2 E6).

type backend struct {
	rel, recv string
}

var backends = []backend{
	{"renderers/svg", "SVG"}, {"renderers/pdf", "PDF"}, {"renderers/ps", "PS"}, {"renderers/rasterizer", "Rasterizer"},
}

var styleFields = []string{"Fill", "Stroke", "StrokeWidth", "StrokeCapper", "StrokeJoiner", "DashOffset", "Dashes", "FillRule"}

// styleMethodReads computes, for each method of canvas.Style, the Style fields its body reads.
func styleMethodReads(c *core.Ctx) map[string]map[string]bool {
	p := c.MustPkg("")
	out := map[string]map[string]bool{}
	for _, fd := range core.AllFuncDecls(p) {
		if core.RecvName(fd) != "Style" {
			continue
		}
		ro := recvObj(p.TypesInfo, fd)
		reads := map[string]bool{}
		ast.Inspect(fd.Body, func(n ast.Node) bool {
			if se, ok := n.(*ast.SelectorExpr); ok {
				if id, ok := core.Unparen(se.X).(*ast.Ident); ok && core.ObjOf(p.TypesInfo, id) == ro && ro != nil {
					reads[se.Sel.Name] = true
				}
			}
			return true
		})
		out[fd.Name.Name] = reads
	}
	// one level of method-calls-method (HasStroke etc. are leaf methods today)
	return out
}

// E6StyleCoverage: each back-end's RenderPath reads every Style field.
func E6StyleCoverage(c *core.Ctx, r *core.Report, only map[string]bool) {
	r.Rule("E6.style-field", "each back-end's RenderPath reads every canvas.Style field (directly or through a Style method that reads it) from its style parameter; a back-end that never reads a field cannot honour it")
	methods := styleMethodReads(c)
	for _, b := range backends {
		if only != nil && !only[b.recv] {
			continue
		}
		p := c.MustPkg(b.rel)
		info := p.TypesInfo
		fd := core.MustFuncDecl(p, b.recv+".RenderPath")
		r.Func(b.rel + "." + b.recv + ".RenderPath")
		style := paramObj(info, fd, 1)
		if style == nil {
			panic(core.Infra(b.recv + ".RenderPath: style parameter not found"))
		}
		reads := map[string]bool{}
		ast.Inspect(fd.Body, func(n ast.Node) bool {
			se, ok := n.(*ast.SelectorExpr)
			if !ok {
				return true
			}
			id, ok := core.Unparen(se.X).(*ast.Ident)
			if !ok || core.ObjOf(info, id) != style {
				return true
			}
			if s := info.Selections[se]; s != nil {
				switch s.Kind() {
				case types.FieldVal:
					reads[se.Sel.Name] = true
				case types.MethodVal:
					for f := range methods[se.Sel.Name] {
						reads[f] = true
					}
				}
			}
			return true
		})
		for _, f := range styleFields {
			key := fmt.Sprintf("%s.%s.RenderPath|style.%s", b.rel, b.recv, f)
			r.Count("E6.style-field-checks", 1)
			if reads[f] {
				r.OK("E6.style-field", key, c.Pos(fd.Pos()), "")
			} else {
				r.Fail("E6.style-field", key, c.Pos(fd.Pos()), fmt.Sprintf("%s.RenderPath never reads style.%s, so drawings that differ only in %s render identically in this back-end but not in the others", b.recv, f, f))
			}
		}
	}
}

// E6DashScaling: every Path.Dash call in a back-end takes the result of canvas.ScaleDash(style.StrokeWidth, style.DashOffset, style.Dashes).
func E6DashScaling(c *core.Ctx, r *core.Report) {
	r.Rule("E6.dash-scale", "every (*Path).Dash call in a back-end's RenderPath receives the offset and array returned by canvas.ScaleDash(style.StrokeWidth, style.DashOffset, style.Dashes) (as the reference rasterizer does); dashes are specified in units the stroke width scales")
	for _, b := range backends {
		p := c.MustPkg(b.rel)
		info := p.TypesInfo
		fd := core.MustFuncDecl(p, b.recv+".RenderPath")
		style := paramObj(info, fd, 1)
		// local definitions from ScaleDash
		scaled := map[types.Object]int{} // ident -> result index
		ast.Inspect(fd.Body, func(n ast.Node) bool {
			as, ok := n.(*ast.AssignStmt)
			if !ok || len(as.Lhs) != 2 || len(as.Rhs) != 1 {
				return true
			}
			call, ok := core.Unparen(as.Rhs[0]).(*ast.CallExpr)
			if !ok || len(call.Args) != 3 {
				return true
			}
			if f := core.CalleeOf(info, call); f == nil || core.QualifiedCallee(f) != core.Module+".ScaleDash" {
				return true
			}
			isStyleField := func(e ast.Expr, field string) bool {
				se, ok := core.Unparen(e).(*ast.SelectorExpr)
				if !ok || se.Sel.Name != field {
					return false
				}
				id, ok := core.Unparen(se.X).(*ast.Ident)
				return ok && core.ObjOf(info, id) == style
			}
			if !isStyleField(call.Args[0], "StrokeWidth") || !isStyleField(call.Args[1], "DashOffset") || !isStyleField(call.Args[2], "Dashes") {
				return true
			}
			for i, l := range as.Lhs {
				if id, ok := l.(*ast.Ident); ok && as.Tok == token.DEFINE {
					scaled[info.Defs[id]] = i
				}
			}
			return true
		})
		ord := 0
		ast.Inspect(fd.Body, func(n ast.Node) bool {
			call, ok := n.(*ast.CallExpr)
			if !ok {
				return true
			}
			f := core.CalleeOf(info, call)
			if f == nil || core.QualifiedCallee(f) != core.Module+".Path.Dash" {
				return true
			}
			ord++
			r.Count("E6.dash-calls", 1)
			key := fmt.Sprintf("%s.%s.RenderPath|Dash call #%d", b.rel, b.recv, ord)
			okArgs := len(call.Args) == 2
			if okArgs {
				for i, a := range call.Args {
					id, isId := core.Unparen(a).(*ast.Ident)
					if !isId {
						okArgs = false
						break
					}
					if idx, found := scaled[core.ObjOf(info, id)]; !found || idx != i {
						okArgs = false
					}
				}
			}
			if okArgs {
				r.OK("E6.dash-scale", key, c.Pos(call.Pos()), "arguments come from canvas.ScaleDash(style.StrokeWidth, …)")
			} else {
				var as []string
				for _, a := range call.Args {
					as = append(as, types.ExprString(a))
				}
				r.Fail("E6.dash-scale", key, c.Pos(call.Pos()), fmt.Sprintf("Dash(%s) is not given the stroke-width-scaled pattern (canvas.ScaleDash(style.StrokeWidth, style.DashOffset, style.Dashes)) that the rasterizer and the native dash operators of this back-end use; for StrokeWidth != 1 the explicit outline has a different dash pattern", strings.Join(as, ", ")))
			}
			return true
		})
	}
	r.Floor("E6.dash-calls", 4)
}

// E6TransformBeforeSerialise: every serialised path has been transformed by the view (and y-flipped for SVG).
func E6TransformBeforeSerialise(c *core.Ctx, r *core.Report) {
	r.Rule("E6.transform", "every path given to ToSVG/ToPDF/ToPS/ToScanxScanner in a back-end derives, on every path through RenderPath, from X.Transform(M) with M built from the matrix parameter m (SVG: ReflectYAbout(height/2).Mul(m)); deriving operations are Copy/Dash/Stroke/Tile of an already transformed value")
	serial := map[string]bool{"ToSVG": true, "ToPDF": true, "ToPS": true, "ToScanxScanner": true}
	for _, b := range backends {
		p := c.MustPkg(b.rel)
		info := p.TypesInfo
		fd := core.MustFuncDecl(p, b.recv+".RenderPath")
		mObj := paramObj(info, fd, 2)
		isPathT := func(t types.Type) bool {
			n, ok := derefNamed(t)
			return ok && n == "Path"
		}
		mentions := func(e ast.Expr, o types.Object) bool {
			found := false
			ast.Inspect(e, func(n ast.Node) bool {
				if id, ok := n.(*ast.Ident); ok && core.ObjOf(info, id) == o {
					found = true
				}
				return !found
			})
			return found
		}
		hasCall := func(e ast.Expr, name string) bool {
			found := false
			ast.Inspect(e, func(n ast.Node) bool {
				if call, ok := n.(*ast.CallExpr); ok {
					if se, ok := call.Fun.(*ast.SelectorExpr); ok && se.Sel.Name == name {
						found = true
					}
				}
				return !found
			})
			return found
		}
		type S map[types.Object]int // 1 = view-transformed, 2 = nil (declared, never assigned)
		// classify: is the value of e a view-transformed path, given the transformed idents?
		var transformed func(e ast.Expr, st S) bool
		transformed = func(e ast.Expr, st S) bool {
			e = core.Unparen(e)
			switch x := e.(type) {
			case *ast.Ident:
				return st[core.ObjOf(info, x)] >= 1
			case *ast.CallExpr:
				se, ok := x.Fun.(*ast.SelectorExpr)
				if !ok {
					return false
				}
				if se.Sel.Name == "Transform" && len(x.Args) == 1 && isPathT(info.TypeOf(se.X)) {
					M := x.Args[0]
					if !mentions(M, mObj) {
						return false
					}
					if b.recv == "SVG" && !(hasCall(M, "ReflectYAbout") && hasCall(M, "Mul")) {
						return false
					}
					return true
				}
				// derived from transformed values: receiver or single path argument
				if isPathT(info.TypeOf(se.X)) {
					return transformed(se.X, st)
				}
				for _, a := range x.Args {
					if isPathT(info.TypeOf(a)) {
						return transformed(a, st)
					}
				}
			}
			return false
		}
		ord := map[string]int{}
		var checkSites func(e ast.Expr, st S)
		checkSites = func(e ast.Expr, st S) {
			ast.Inspect(e, func(n ast.Node) bool {
				call, ok := n.(*ast.CallExpr)
				if !ok {
					return true
				}
				se, ok := call.Fun.(*ast.SelectorExpr)
				if !ok || !serial[se.Sel.Name] || !isPathT(info.TypeOf(se.X)) {
					return true
				}
				ord[se.Sel.Name]++
				r.Count("E6.serialise-sites", 1)
				key := fmt.Sprintf("%s.%s.RenderPath|%s(%s)", b.rel, b.recv, se.Sel.Name, types.ExprString(se.X))
				if transformed(se.X, st) {
					r.OK("E6.transform", key, c.Pos(call.Pos()), "")
				} else {
					r.Fail("E6.transform", key, c.Pos(call.Pos()), fmt.Sprintf("`%s` is serialised without having been transformed by the view matrix on every path (SVG additionally needs the y-flip); the output geometry is in the wrong coordinate frame", types.ExprString(se.X)))
				}
				return true
			})
		}
		fl := &core.Flow[S]{
			Join: func(a, b S) S {
				out := S{}
				for k, va := range a {
					if vb := b[k]; vb >= 1 {
						out[k] = min(va, vb) // transformed wins over nil
					}
				}
				return out
			},
			Equal: func(a, b S) bool {
				if len(a) != len(b) {
					return false
				}
				for k, v := range a {
					if b[k] != v {
						return false
					}
				}
				return true
			},
			Dead:   func() S { return nil },
			IsDead: func(s S) bool { return s == nil },
			Exit:   func(ast.Node, S) {},
			Expr: func(e ast.Expr, s S) S {
				checkSites(e, s)
				return s
			},
			Stmt: func(st ast.Stmt, s S) (S, bool) {
				if ds, ok := st.(*ast.DeclStmt); ok {
					// `var fill, stroke *canvas.Path` declares nil paths
					out := S{}
					for k, v := range s {
						out[k] = v
					}
					if gd, ok := ds.Decl.(*ast.GenDecl); ok {
						for _, sp := range gd.Specs {
							if vs, ok := sp.(*ast.ValueSpec); ok && len(vs.Values) == 0 {
								for _, n := range vs.Names {
									if o := info.Defs[n]; o != nil && isPathT(o.Type()) {
										out[o] = 2
									}
								}
							}
						}
					}
					return out, true
				}
				as, ok := st.(*ast.AssignStmt)
				if !ok || len(as.Lhs) != len(as.Rhs) {
					return s, false
				}
				out := S{}
				for k, v := range s {
					out[k] = v
				}
				for _, rhs := range as.Rhs {
					checkSites(rhs, s)
				}
				for i, l := range as.Lhs {
					id, ok := l.(*ast.Ident)
					if !ok || !isPathT(info.TypeOf(as.Rhs[i])) {
						continue
					}
					o := core.ObjOf(info, id)
					if transformed(as.Rhs[i], s) {
						out[o] = 1
					} else {
						delete(out, o)
					}
				}
				return out, true
			},
		}
		fl.Run(fd.Body, S{})
	}
	r.Floor("E6.serialise-sites", 10)
}

// enumBranches extracts (asserted type name -> what the branch emits/assigns) from the
// `if _, ok := X.(T); ok {…} else if …` chains of a function.
func enumBranches(p *packages.Package, fd *ast.FuncDecl, subjectIsParamOrField func(e ast.Expr) bool) map[string][]string {
	info := p.TypesInfo
	out := map[string][]string{}
	ast.Inspect(fd.Body, func(n ast.Node) bool {
		is, ok := n.(*ast.IfStmt)
		if !ok || is.Init == nil {
			return true
		}
		as, ok := is.Init.(*ast.AssignStmt)
		if !ok || len(as.Rhs) != 1 {
			return true
		}
		ta, ok := core.Unparen(as.Rhs[0]).(*ast.TypeAssertExpr)
		if !ok || ta.Type == nil || !subjectIsParamOrField(ta.X) {
			return true
		}
		tn, ok := derefNamed(info.TypeOf(ta.Type))
		if !ok {
			return true
		}
		// the condition must be the ok flag, possibly with extra conjuncts
		var emitted []string
		for _, bs := range is.Body.List {
			ast.Inspect(bs, func(m ast.Node) bool {
				switch x := m.(type) {
				case *ast.IfStmt:
					return false // nested decisions are not part of this branch's unconditional effect
				case *ast.AssignStmt:
					if len(x.Lhs) == 1 && len(x.Rhs) == 1 {
						if v, ok := core.ConstInt(info, x.Rhs[0]); ok {
							if id, isId := x.Lhs[0].(*ast.Ident); isId {
								if b, isB := info.TypeOf(id).Underlying().(*types.Basic); isB && b.Info()&types.IsInteger != 0 {
									emitted = append(emitted, fmt.Sprintf("code=%d", v))
								}
							}
						}
					}
				case *ast.CallExpr:
					if f := core.CalleeOf(info, x); f != nil && f.Pkg() != nil && f.Pkg().Path() == "fmt" && f.Name() == "Fprintf" && len(x.Args) >= 2 {
						if s, ok := constString(info, x.Args[1]); ok {
							emitted = append(emitted, s)
						}
					}
				}
				return true
			})
		}
		out[tn] = append(out[tn], emitted...)
		return true
	})
	return out
}

// E6EnumTables: cap/join/fill-rule codes agree with the formats' tables.
func E6EnumTables(c *core.Ctx, r *core.Report) {
	r.Rule("E6.enum", "in each back-end the branch taken for a concrete Capper/Joiner type emits the code the format assigns to it (PDF/PS: butt 0, round 1, square 2; miter 0, round 1, bevel 2; SVG keywords round/square/bevel/round/arcs); the even-odd suffix/operator is emitted only under `FillRule == EvenOdd`")
	type exp struct {
		rel, fn string
		want    map[string]string // type -> substring that must be emitted in its branch
	}
	exps := []exp{
		{"renderers/pdf", "pdfPageWriter.SetLineCap", map[string]string{"ButtCapper": "code=0", "RoundCapper": "code=1", "SquareCapper": "code=2"}},
		{"renderers/pdf", "pdfPageWriter.SetLineJoin", map[string]string{"MiterJoiner": "code=0", "RoundJoiner": "code=1", "BevelJoiner": "code=2"}},
		{"renderers/ps", "PS.setLineCap", map[string]string{"ButtCapper": " 0 setlinecap", "RoundCapper": " 1 setlinecap", "SquareCapper": " 2 setlinecap"}},
		{"renderers/ps", "PS.setLineJoin", map[string]string{"MiterJoiner": " 0 setlinejoin", "RoundJoiner": " 1 setlinejoin", "BevelJoiner": " 2 setlinejoin"}},
		{"renderers/svg", "SVG.RenderPath", map[string]string{"RoundCapper": ";stroke-linecap:round", "SquareCapper": ";stroke-linecap:square", "BevelJoiner": ";stroke-linejoin:bevel", "RoundJoiner": ";stroke-linejoin:round", "ArcsJoiner": ";stroke-linejoin:arcs"}},
	}
	for _, e := range exps {
		p := c.MustPkg(e.rel)
		fd := core.MustFuncDecl(p, e.fn)
		r.Func(e.rel + "." + e.fn)
		br := enumBranches(p, fd, func(ast.Expr) bool { return true })
		var names []string
		for k := range e.want {
			names = append(names, k)
		}
		sort.Strings(names)
		for _, tn := range names {
			want := e.want[tn]
			key := fmt.Sprintf("%s.%s|%s", e.rel, e.fn, tn)
			r.Count("E6.enum-entries", 1)
			got := br[tn]
			found := false
			var codes []string
			for _, g := range got {
				if g == want || (strings.HasPrefix(want, ";") && g == want) || (strings.HasPrefix(want, " ") && g == want) {
					found = true
				}
				// other code-like emissions in this branch
				if strings.Contains(g, "=") || strings.Contains(g, "setline") || strings.Contains(g, "stroke-line") {
					codes = append(codes, g)
				}
			}
			switch {
			case len(got) == 0 && br[tn] == nil:
				r.Fail("E6.enum", key, c.Pos(fd.Pos()), "no branch for "+tn+" found")
			case !found:
				r.Fail("E6.enum", key, c.Pos(fd.Pos()), fmt.Sprintf("the %s branch emits %q; the format's code for it is %q", tn, codes, want))
			default:
				// and no second, conflicting code of the same family
				conflict := ""
				for _, g := range codes {
					if g != want && familyOf(g) == familyOf(want) {
						conflict = g
					}
				}
				if conflict != "" {
					r.Fail("E6.enum", key, c.Pos(fd.Pos()), fmt.Sprintf("the %s branch emits both %q and %q", tn, want, conflict))
				} else {
					r.OK("E6.enum", key, c.Pos(fd.Pos()), want)
				}
			}
		}
	}
	// PDF: the variables are emitted with the right operator
	{
		p := c.MustPkg("renderers/pdf")
		info := p.TypesInfo
		for fn, want := range map[string]string{"pdfPageWriter.SetLineCap": " %d J", "pdfPageWriter.SetLineJoin": " %d j"} {
			fd := core.MustFuncDecl(p, fn)
			// the integer local that the type-switch branches assign
			var codeObj types.Object
			ast.Inspect(fd.Body, func(n ast.Node) bool {
				if as, isAs := n.(*ast.AssignStmt); isAs && as.Tok == token.ASSIGN && len(as.Lhs) == 1 && len(as.Rhs) == 1 {
					if id, isId := as.Lhs[0].(*ast.Ident); isId {
						if _, isC := core.ConstInt(info, as.Rhs[0]); isC && codeObj == nil {
							codeObj = core.ObjOf(info, id)
						}
					}
				}
				return true
			})
			ok := false
			ast.Inspect(fd.Body, func(n ast.Node) bool {
				if call, isCall := n.(*ast.CallExpr); isCall && len(call.Args) == 3 {
					if s, isConst := constString(info, call.Args[1]); isConst && s == want {
						if id, isId := core.Unparen(call.Args[2]).(*ast.Ident); isId && codeObj != nil && core.ObjOf(info, id) == codeObj {
							ok = true
						}
					}
				}
				return true
			})
			key := "renderers/pdf." + fn + "|operator"
			r.Count("E6.enum-entries", 1)
			if ok {
				r.OK("E6.enum", key, c.Pos(fd.Pos()), want)
			} else {
				r.Fail("E6.enum", key, c.Pos(fd.Pos()), fmt.Sprintf("the code chosen by the type switch is not emitted as %q", want))
			}
		}
	}
	// fill rule: even-odd markers only under FillRule == EvenOdd
	markers := map[string][]string{"renderers/pdf": {"*"}, "renderers/ps": {" eofill"}, "renderers/svg": {"evenodd"}}
	for _, b := range backends[:3] {
		p := c.MustPkg(b.rel)
		info := p.TypesInfo
		fd := core.MustFuncDecl(p, b.recv+".RenderPath")
		guarded, unguarded := 0, 0
		var walk func(n ast.Node, under bool)
		isEO := func(cond ast.Expr) bool {
			be, ok := core.Unparen(cond).(*ast.BinaryExpr)
			if !ok || be.Op != token.EQL {
				return false
			}
			se, ok := core.Unparen(be.X).(*ast.SelectorExpr)
			return ok && se.Sel.Name == "FillRule" && core.ConstName(info, be.Y) == "EvenOdd"
		}
		walk = func(n ast.Node, under bool) {
			ast.Inspect(n, func(m ast.Node) bool {
				switch x := m.(type) {
				case *ast.IfStmt:
					if isEO(x.Cond) {
						walk(x.Body, true)
						if x.Else != nil {
							walk(x.Else, false)
						}
						return false
					}
				case *ast.BasicLit:
					if x.Kind == token.STRING {
						s, _ := constString(info, x)
						for _, mk := range markers[b.rel] {
							if (mk == "*" && s == "*") || (mk != "*" && strings.Contains(s, mk)) {
								if under {
									guarded++
								} else {
									unguarded++
								}
							}
						}
					}
				}
				return true
			})
		}
		walk(fd.Body, false)
		key := fmt.Sprintf("%s.%s.RenderPath|even-odd marker", b.rel, b.recv)
		r.Count("E6.enum-entries", 1)
		if guarded > 0 && unguarded == 0 {
			r.OK("E6.enum", key, c.Pos(fd.Pos()), fmt.Sprintf("%d guarded emissions", guarded))
		} else {
			r.Fail("E6.enum", key, c.Pos(fd.Pos()), fmt.Sprintf("even-odd marker emitted %d times under `style.FillRule == canvas.EvenOdd` and %d times outside it", guarded, unguarded))
		}
	}
	r.Floor("E6.enum-entries", 20)
}

func familyOf(s string) string {
	switch {
	case strings.HasPrefix(s, "code="):
		return "code"
	case strings.Contains(s, "lineCap") || strings.Contains(s, "linecap"):
		return "cap"
	case strings.Contains(s, "lineJoin") || strings.Contains(s, "linejoin"):
		return "join"
	}
	return s
}

var psOperators = func() map[string]bool {
	m := map[string]bool{}
	for _, op := range strings.Fields("gsave grestore fill eofill stroke setgray setrgbcolor setlinewidth setmiterlimit setlinecap setlinejoin setdash moveto lineto curveto closepath newpath ellipse ellipsen concat image setcolorspace currentfile filter") {
		m[op] = true
	}
	return m
}()

var psGrammar = &gramSpec{
	name:   "PostScript",
	pkgRel: "renderers/ps",
	isStream: func(info *types.Info, e ast.Expr) bool {
		return fieldSel(info, e, "PS", "w")
	},
	ops:       psOperators,
	saveOp:    "gsave",
	restoreOp: "grestore",
}

// E6PSGrammar: PostScript fragments of PS.RenderPath form only known operators with balanced gsave/grestore.
func E6PSGrammar(c *core.Ctx, r *core.Report) {
	r.Rule("E6.ps-grammar", "abstract interpretation of the literal fragments PS.RenderPath (and the set* helpers it calls) writes: every completed token is a PostScript operator used by this back-end (or defined in its prolog), a number, a name or a placeholder, and gsave/grestore are balanced on every path; no method that memoises an emitted graphics-state parameter in a receiver field (compares the field, emits, stores it) is called while a save (q / gsave) is open, because the restore reverts the parameter in the interpreter but not the memo")
	runGrammar(c, r, psGrammar, "E6.ps-grammar", []string{"PS.RenderPath"})
	r.Floor("E6.ps-grammar:writes", 15)
	r.Floor("E6.ps-grammar:distinct-operators", 8)
	// procedure names used by Path.ToPS that are not PostScript built-ins must be defined in the prolog
	p := c.MustPkg("renderers/ps")
	prolog := ""
	for _, f := range p.Syntax {
		ast.Inspect(f, func(n ast.Node) bool {
			if vs, ok := n.(*ast.ValueSpec); ok && len(vs.Names) == 1 && vs.Names[0].Name == "psEllipseDef" && len(vs.Values) == 1 {
				prolog, _ = constString(p.TypesInfo, vs.Values[0])
			}
			return true
		})
	}
	root := c.MustPkg("")
	fd := core.MustFuncDecl(root, "Path.ToPS")
	builtins := map[string]bool{"moveto": true, "lineto": true, "curveto": true, "closepath": true}
	ast.Inspect(fd.Body, func(n ast.Node) bool {
		call, ok := n.(*ast.CallExpr)
		if !ok || len(call.Args) < 2 {
			return true
		}
		s, ok := constString(root.TypesInfo, call.Args[1])
		if !ok {
			return true
		}
		for _, tok := range strings.Fields(formatToText(s)) {
			if isOperand(tok) || builtins[tok] {
				continue
			}
			r.Count("E6.ps-procs", 1)
			key := "canvas.Path.ToPS|procedure " + tok
			// `ellipse` + optional suffix n: both must be defined
			defined := strings.Contains(prolog, "/"+tok+" ") || strings.Contains(prolog, "/"+tok+"{") || strings.Contains(prolog, "/"+tok+"\n")
			if tok == "n" {
				defined = strings.Contains(prolog, "/ellipsen")
				key = "canvas.Path.ToPS|procedure ellipsen"
			}
			if defined {
				r.OK("E6.ps-grammar", key, c.Pos(call.Pos()), "defined in the prolog")
			} else {
				r.Fail("E6.ps-grammar", key, c.Pos(call.Pos()), fmt.Sprintf("Path.ToPS emits %q, which is neither a PostScript path operator nor defined in the PS prolog", tok))
			}
		}
		return true
	})
	r.Floor("E6.ps-procs", 1)
}

// E6ScannerSites: all scanner emissions of ToScanxScanner have the same coordinate mapping; image sizes agree.
func E6ScannerSites(c *core.Ctx, r *core.Report) {
	r.Rule("E6.scanner-site", "every ras.Start/ras.Line call in Path.ToScanxScanner passes fixedPoint26_6(X*dpmm, dy-Y*dpmm) with X, Y consecutive data values of one record or the X and Y of one Point (sibling agreement: a deviating site flips or shifts part of the outline); the rendering is called with the image height in pixels")
	r.Rule("E6.image-size", "rasterizer.Draw and rasterizer.New compute the image size as int(W*DPMM+0.5) x int(H*DPMM+0.5) (sibling agreement)")
	p := c.MustPkg("")
	info := p.TypesInfo
	fd := core.MustFuncDecl(p, "Path.ToScanxScanner")
	r.Func("canvas.Path.ToScanxScanner")
	dyObj := paramObj(info, fd, 1)
	var dpmmObj types.Object
	ast.Inspect(fd.Body, func(nd ast.Node) bool {
		if as, ok := nd.(*ast.AssignStmt); ok && as.Tok == token.DEFINE && len(as.Lhs) == 1 && len(as.Rhs) == 1 {
			if call, ok := core.Unparen(as.Rhs[0]).(*ast.CallExpr); ok {
				if f := core.CalleeOf(info, call); f != nil && f.Name() == "DPMM" {
					dpmmObj = info.Defs[as.Lhs[0].(*ast.Ident)]
				}
			}
		}
		return true
	})
	if dpmmObj == nil {
		panic(core.Infra("ToScanxScanner: the local holding resolution.DPMM() was not found"))
	}
	isDpmm := func(e ast.Expr) bool {
		id, ok := core.Unparen(e).(*ast.Ident)
		return ok && core.ObjOf(info, id) == dpmmObj
	}
	n := 0
	rasObj := paramObj(info, fd, 0)
	// the argument of a scanner call is a conversion call, or a local all of whose assignments are
	// conversion calls (a remembered, already converted point); the conversions are the sites
	isConv := func(e ast.Expr) *ast.CallExpr {
		inner, ok := core.Unparen(e).(*ast.CallExpr)
		if !ok || len(inner.Args) != 2 {
			return nil
		}
		if f := core.CalleeOf(info, inner); f == nil || f.Name() != "fixedPoint26_6" {
			return nil
		}
		return inner
	}
	type site struct {
		name  string
		call  *ast.CallExpr
		inner *ast.CallExpr
	}
	var sites []site
	ast.Inspect(fd.Body, func(nd ast.Node) bool {
		call, ok := nd.(*ast.CallExpr)
		if !ok || len(call.Args) != 1 {
			return true
		}
		se, ok := call.Fun.(*ast.SelectorExpr)
		if !ok || (se.Sel.Name != "Start" && se.Sel.Name != "Line") {
			return true
		}
		if id, ok := core.Unparen(se.X).(*ast.Ident); !ok || core.ObjOf(info, id) != rasObj {
			return true
		}
		if inner := isConv(call.Args[0]); inner != nil {
			sites = append(sites, site{se.Sel.Name, call, inner})
			return true
		}
		if id, ok := core.Unparen(call.Args[0]).(*ast.Ident); ok {
			o := core.ObjOf(info, id)
			var defs []*ast.CallExpr
			allConv := true
			ast.Inspect(fd.Body, func(k ast.Node) bool {
				if as, ok := k.(*ast.AssignStmt); ok && len(as.Lhs) == len(as.Rhs) {
					for i, l := range as.Lhs {
						if lid, ok := l.(*ast.Ident); ok && core.ObjOf(info, lid) == o {
							if inner := isConv(as.Rhs[i]); inner != nil {
								defs = append(defs, inner)
							} else {
								allConv = false
							}
						}
					}
				}
				return true
			})
			if allConv && len(defs) > 0 {
				for _, d := range defs {
					sites = append(sites, site{se.Sel.Name + " (through `" + id.Name + "`)", call, d})
				}
				return true
			}
		}
		sites = append(sites, site{se.Sel.Name, call, nil})
		return true
	})
	for _, st := range sites {
		se := struct{ Sel struct{ Name string } }{}
		se.Sel.Name = st.name
		call, inner := st.call, st.inner
		if inner == nil {
			n++
			r.Fail("E6.scanner-site", fmt.Sprintf("canvas.Path.ToScanxScanner|%s site #%d", st.name, n), c.Pos(call.Pos()), fmt.Sprintf("the argument `%s` is neither fixedPoint26_6(X*dpmm, dy-Y*dpmm) nor a local that only ever holds such a conversion", c.Src(call.Args[0])))
			continue
		}
		n++
		key := fmt.Sprintf("canvas.Path.ToScanxScanner|%s site #%d", se.Sel.Name, n)
		// X*dpmm and dy - Y*dpmm, with (X, Y) either consecutive data values of one record or the
		// X and Y of one Point
		okX, okY := false, false
		var xi, yi *ast.IndexExpr
		var xp, yp *ast.SelectorExpr
		coord := func(e ast.Expr) (*ast.IndexExpr, *ast.SelectorExpr) {
			if ie, ok := core.Unparen(e).(*ast.IndexExpr); ok && core.IsPathDataSel(info, ie.X) {
				return ie, nil
			}
			if sel, ok := core.Unparen(e).(*ast.SelectorExpr); ok && (sel.Sel.Name == "X" || sel.Sel.Name == "Y") {
				if t := info.TypeOf(sel.X); t != nil && isNamed(t, "tdewolff/canvas", "Point") {
					return nil, sel
				}
			}
			return nil, nil
		}
		// the product of the resolution and a coordinate, in either operand order
		scaled := func(e ast.Expr) (*ast.IndexExpr, *ast.SelectorExpr) {
			mul, ok := core.Unparen(e).(*ast.BinaryExpr)
			if !ok || mul.Op != token.MUL {
				return nil, nil
			}
			switch {
			case isDpmm(mul.Y):
				return coord(mul.X)
			case isDpmm(mul.X):
				return coord(mul.Y)
			}
			return nil, nil
		}
		xi, xp = scaled(inner.Args[0])
		okX = xi != nil || xp != nil
		if sub, ok := core.Unparen(inner.Args[1]).(*ast.BinaryExpr); ok && sub.Op == token.SUB {
			if id, ok := core.Unparen(sub.X).(*ast.Ident); ok && core.ObjOf(info, id) == dyObj {
				yi, yp = scaled(sub.Y)
				okY = yi != nil || yp != nil
			}
		}
		consecutive := false
		if xi != nil && yi != nil {
			if d, ok := indexDistance(info, yi.Index, xi.Index); ok && d == 1 && types.ExprString(xi.X) == types.ExprString(yi.X) {
				consecutive = true
			}
		}
		if xp != nil && yp != nil && xp.Sel.Name == "X" && yp.Sel.Name == "Y" && types.ExprString(xp.X) == types.ExprString(yp.X) {
			consecutive = true
		}
		if okX && okY && consecutive {
			r.OK("E6.scanner-site", key, c.Pos(call.Pos()), types.ExprString(inner))
		} else {
			r.Fail("E6.scanner-site", key, c.Pos(call.Pos()), fmt.Sprintf("`%s` deviates from the sibling sites' shape fixedPoint26_6(d[k]*dpmm, dy-d[k+1]*dpmm): part of the outline is not y-flipped/scaled like the rest", types.ExprString(inner)))
		}
	}
	r.Count("E6.scanner-sites", n)
	r.Floor("E6.scanner-sites", 4)
	// callers pass the image height
	rp := c.MustPkg("renderers/rasterizer")
	rfd := core.MustFuncDecl(rp, "Rasterizer.RenderPath")
	calls, good := 0, 0
	ast.Inspect(rfd.Body, func(nd ast.Node) bool {
		call, ok := nd.(*ast.CallExpr)
		if !ok || len(call.Args) != 3 {
			return true
		}
		if f := core.CalleeOf(rp.TypesInfo, call); f == nil || f.Name() != "ToScanxScanner" {
			return true
		}
		calls++
		if core.AlphaContains(",float64($size.Y),$r.resolution)", c.Norm(rp, call)) && isRectHeight(rp.TypesInfo, rfd, call.Args[1]) {
			good++
		} else if !isRectHeight(rp.TypesInfo, rfd, call.Args[1]) {
			r.Fail("E6.scanner-site", fmt.Sprintf("renderers/rasterizer.Rasterizer.RenderPath|ToScanxScanner call #%d|height of the image rectangle", calls), c.Pos(call.Pos()), fmt.Sprintf("the flip height `%s` is not the height of the image's rectangle (Bounds().Size().Y or Bounds().Dy()): the scanner addresses pixels relative to the rectangle's Min, so with Bounds().Max.Y everything drawn on an image whose rectangle does not start at the origin (a SubImage) is shifted down by Min.Y", c.Src(call.Args[1])))
		}
		return true
	})
	if calls > 0 && calls == good {
		r.OK("E6.scanner-site", "renderers/rasterizer.Rasterizer.RenderPath|ToScanxScanner arguments", c.Pos(rfd.Pos()), fmt.Sprintf("%d calls pass float64(size.Y), r.resolution", calls))
	} else {
		r.Fail("E6.scanner-site", "renderers/rasterizer.Rasterizer.RenderPath|ToScanxScanner arguments", c.Pos(rfd.Pos()), fmt.Sprintf("%d of %d ToScanxScanner calls pass the image height and the renderer's resolution", good, calls))
	}
	// image sizes
	var shapes []string
	for _, fn := range []string{"Draw", "New"} {
		f := core.MustFuncDecl(rp, fn)
		ast.Inspect(f.Body, func(nd ast.Node) bool {
			call, ok := nd.(*ast.CallExpr)
			if !ok || len(call.Args) != 4 {
				return true
			}
			if cf := core.CalleeOf(rp.TypesInfo, call); cf == nil || cf.Name() != "Rect" {
				return true
			}
			s := c.Norm(rp, call.Args[2]) + " x " + c.Norm(rp, call.Args[3])
			shapes = append(shapes, s)
			return true
		})
	}
	// each size argument is round(extent × resolution): stripped of int(…), of the rounding (`+0.5`,
	// math.Round, math.Floor(…+0.5)) it is a product with a DPMM() factor; the rounding mode is the
	// same at both sites and for both axes (sibling agreement), and it is rounding, not truncation
	sizeMode := func(e ast.Expr) (mode string, ok bool) {
		e = core.Unparen(e)
		if call, isCall := e.(*ast.CallExpr); isCall && len(call.Args) == 1 {
			if id, isID := core.Unparen(call.Fun).(*ast.Ident); isID && id.Name == "int" {
				e = core.Unparen(call.Args[0])
			}
		}
		mode = "trunc"
		for changed := true; changed; {
			changed = false
			if name, call := core.MathFunc(rp.TypesInfo, e); call != nil && len(call.Args) == 1 {
				switch name {
				case "Round":
					mode, e, changed = "round", core.Unparen(call.Args[0]), true
				case "Ceil":
					mode, e, changed = "ceil", core.Unparen(call.Args[0]), true
				case "Floor":
					e, changed = core.Unparen(call.Args[0]), true
				}
			}
			if be, isBin := e.(*ast.BinaryExpr); isBin && be.Op == token.ADD {
				if v, isC := constantFloat(core.ConstVal(rp.TypesInfo, be.Y)); isC && v == 0.5 && rp.TypesInfo.Types[be.Y].Value != nil {
					mode, e, changed = "round", core.Unparen(be.X), true
				}
			}
		}
		be, isBin := e.(*ast.BinaryExpr)
		if !isBin || be.Op != token.MUL {
			return mode, false
		}
		hasRes := false
		for _, f := range []ast.Expr{be.X, be.Y} {
			if call, isCall := core.Unparen(f).(*ast.CallExpr); isCall {
				if cf := core.CalleeOf(rp.TypesInfo, call); cf != nil && cf.Name() == "DPMM" {
					hasRes = true
				}
			}
		}
		return mode, hasRes
	}
	var modes []string
	okSize := true
	nSizeSites := 0
	for _, fn := range []string{"Draw", "New"} {
		f := core.MustFuncDecl(rp, fn)
		ast.Inspect(f.Body, func(nd ast.Node) bool {
			call, ok := nd.(*ast.CallExpr)
			if !ok || len(call.Args) != 4 {
				return true
			}
			if cf := core.CalleeOf(rp.TypesInfo, call); cf == nil || cf.Name() != "Rect" {
				return true
			}
			nSizeSites++
			for _, a := range call.Args[2:] {
				m, ok := sizeMode(a)
				if !ok {
					okSize = false
				}
				modes = append(modes, m)
			}
			return true
		})
	}
	for _, m := range modes {
		if m != modes[0] || m == "trunc" {
			okSize = false
		}
	}
	if okSize && nSizeSites == 2 {
		r.OK("E6.image-size", "renderers/rasterizer|Draw~New", c.Pos(rfd.Pos()), "extent × DPMM, "+modes[0]+" at both sites and axes")
	} else {
		r.Fail("E6.image-size", "renderers/rasterizer|Draw~New", c.Pos(rfd.Pos()), fmt.Sprintf("the image size is not the rounded extent × resolution with one rounding mode at both sites and for both axes: modes %v (%v)", modes, shapes))
	}
}

// ---- stroke-width frame rule: native width is view-scaled, fall-back outline width is not ----

type wfCfg struct {
	scaled bool
	atoms  string // ";atom=T;atom=F" valuation of boolean atoms (locals and pure niladic predicates)
}

type wfState map[wfCfg]bool

func wfAtomVal(cfg wfCfg, atom string) tri {
	if strings.Contains(cfg.atoms, ";"+atom+"=T") {
		return tTrue
	}
	if strings.Contains(cfg.atoms, ";"+atom+"=F") {
		return tFalse
	}
	return tUnknown
}

func wfSetAtom(cfg wfCfg, atom string, v bool) wfCfg {
	cfg = wfDropAtom(cfg, func(a string) bool { return a == atom })
	if v {
		cfg.atoms += ";" + atom + "=T"
	} else {
		cfg.atoms += ";" + atom + "=F"
	}
	parts := strings.Split(cfg.atoms, ";")
	sort.Strings(parts)
	cfg.atoms = ""
	for _, p := range parts {
		if p != "" {
			cfg.atoms += ";" + p
		}
	}
	return cfg
}

func wfDropAtom(cfg wfCfg, drop func(atom string) bool) wfCfg {
	var keep []string
	for _, p := range strings.Split(cfg.atoms, ";") {
		if p == "" {
			continue
		}
		if !drop(p[:len(p)-2]) {
			keep = append(keep, p)
		}
	}
	cfg.atoms = ""
	for _, p := range keep {
		cfg.atoms += ";" + p
	}
	return cfg
}

// boolAtoms lists the atoms of a condition: bool identifiers and niladic method calls on identifiers/selectors.
func boolAtoms(info *types.Info, e ast.Expr, out map[string]bool) {
	e = core.Unparen(e)
	switch x := e.(type) {
	case *ast.Ident:
		if b, ok := info.TypeOf(x).Underlying().(*types.Basic); ok && b.Info()&types.IsBoolean != 0 && x.Name != "true" && x.Name != "false" {
			out[x.Name] = true
		}
	case *ast.CallExpr:
		if len(x.Args) == 0 {
			if _, ok := x.Fun.(*ast.SelectorExpr); ok && pureCond(x) {
				out[types.ExprString(x)] = true
			}
		}
	case *ast.UnaryExpr:
		boolAtoms(info, x.X, out)
	case *ast.BinaryExpr:
		if x.Op == token.LAND || x.Op == token.LOR {
			boolAtoms(info, x.X, out)
			boolAtoms(info, x.Y, out)
		}
	}
}

// E6WidthFrame: the stroke width is in the right coordinate frame at every use.
func E6WidthFrame(c *core.Ctx, r *core.Report) {
	r.Rule("E6.width-frame", "in the SVG/PDF/PS RenderPath the style's stroke width (and with it the width-relative dash pattern) is multiplied by the view scale on every path that reaches a native stroke-width emission, and on no path that reaches the explicit outline fall-back X.Stroke(style.StrokeWidth, …), whose result is transformed by the view afterwards (path-sensitive over the function's boolean locals and pure predicates); the rasterizer never scales it")
	for _, b := range backends {
		p := c.MustPkg(b.rel)
		info := p.TypesInfo
		fd := core.MustFuncDecl(p, b.recv+".RenderPath")
		style := paramObj(info, fd, 1)
		isStyleWidth := func(e ast.Expr) bool {
			se, ok := core.Unparen(e).(*ast.SelectorExpr)
			if !ok || se.Sel.Name != "StrokeWidth" {
				return false
			}
			id, ok := core.Unparen(se.X).(*ast.Ident)
			return ok && core.ObjOf(info, id) == style
		}
		mentionsWidth := func(e ast.Expr) bool {
			found := false
			ast.Inspect(e, func(n ast.Node) bool {
				if ex, ok := n.(ast.Expr); ok && isStyleWidth(ex) {
					found = true
				}
				return !found
			})
			return found
		}
		ord := map[string]int{}
		site := func(kind string, pos token.Pos, s wfState, wantScaled bool) {
			ord[kind]++
			key := fmt.Sprintf("%s.%s.RenderPath|%s #%d", b.rel, b.recv, kind, ord[kind])
			r.Count("E6.width-sites", 1)
			bad := false
			for cfg := range s {
				if cfg.scaled != wantScaled {
					bad = true
				}
			}
			if !bad {
				r.OK("E6.width-frame", key, c.Pos(pos), fmt.Sprintf("%d path configurations", len(s)))
			} else if wantScaled {
				r.Fail("E6.width-frame", key, c.Pos(pos), "the native stroke width can be emitted without having been multiplied by the view scale: under a scaling view the stroke is too thin/thick compared with the rasterizer")
			} else {
				r.Fail("E6.width-frame", key, c.Pos(pos), "the explicit outline is stroked with a width that was already multiplied by the view scale and is then transformed by the view again: under a scaling similarity view the outline is scale times too wide (and its dashes are scaled twice)")
			}
		}
		checkExpr := func(e ast.Expr, s wfState) {
			ast.Inspect(e, func(n ast.Node) bool {
				call, ok := n.(*ast.CallExpr)
				if !ok {
					return true
				}
				f := core.CalleeOf(info, call)
				if f == nil {
					return true
				}
				switch {
				case core.QualifiedCallee(f) == core.Module+".Path.Stroke" && len(call.Args) > 0 && isStyleWidth(call.Args[0]):
					site("fall-back Stroke", call.Pos(), s, false)
				case strings.EqualFold(f.Name(), "setlinewidth") && len(call.Args) == 1 && isStyleWidth(call.Args[0]):
					site("native width", call.Pos(), s, true)
				case f.Pkg() != nil && f.Pkg().Path() == "fmt" && f.Name() == "Fprintf" && len(call.Args) > 2:
					if format, ok := constString(info, call.Args[1]); ok && strings.Contains(format, "stroke-width") {
						for _, a := range call.Args[2:] {
							if mentionsWidth(a) {
								site("native width", call.Pos(), s, true)
							}
						}
					}
				}
				return true
			})
		}
		copyState := func(s wfState) wfState {
			out := wfState{}
			for k := range s {
				out[k] = true
			}
			return out
		}
		fl := &core.Flow[wfState]{
			Join: func(a, b wfState) wfState {
				out := copyState(a)
				for k := range b {
					out[k] = true
				}
				return out
			},
			Equal: func(a, b wfState) bool {
				if len(a) != len(b) {
					return false
				}
				for k := range a {
					if !b[k] {
						return false
					}
				}
				return true
			},
			Dead:   func() wfState { return nil },
			IsDead: func(s wfState) bool { return s == nil },
			Exit:   func(ast.Node, wfState) {},
			Expr: func(e ast.Expr, s wfState) wfState {
				checkExpr(e, s)
				return s
			},
			Stmt: func(st ast.Stmt, s wfState) (wfState, bool) {
				as, ok := st.(*ast.AssignStmt)
				if !ok {
					return s, false
				}
				for _, rhs := range as.Rhs {
					checkExpr(rhs, s)
				}
				out := wfState{}
				for cfg := range s {
					n := cfg
					for i, l := range as.Lhs {
						ls := types.ExprString(l)
						if isStyleWidth(l) {
							n.scaled = true
						}
						// a boolean local assigned a constant; anything else forgets it
						if id, ok := l.(*ast.Ident); ok {
							if b, ok := info.TypeOf(id).Underlying().(*types.Basic); ok && b.Info()&types.IsBoolean != 0 {
								if len(as.Lhs) == len(as.Rhs) {
									if cid, ok := core.Unparen(as.Rhs[i]).(*ast.Ident); ok && (cid.Name == "true" || cid.Name == "false") {
										n = wfSetAtom(n, id.Name, cid.Name == "true")
										continue
									}
								}
								n = wfDropAtom(n, func(a string) bool { return a == id.Name })
								continue
							}
						}
						// assignment to x.F invalidates predicates on x
						root := core.RootIdent(l)
						if root != nil {
							n = wfDropAtom(n, func(a string) bool { return strings.HasPrefix(a, root.Name+".") || a == ls })
						}
					}
					out[n] = true
				}
				return out, true
			},
			Split: func(cond ast.Expr, s wfState) (wfState, wfState, bool) {
				if !pureCond(cond) {
					return nil, nil, false
				}
				atoms := map[string]bool{}
				boolAtoms(info, cond, atoms)
				if len(atoms) == 0 || len(atoms) > 4 {
					return nil, nil, false
				}
				var names []string
				for a := range atoms {
					names = append(names, a)
				}
				sort.Strings(names)
				t, f := wfState{}, wfState{}
				for cfg := range s {
					// enumerate valuations of the atoms not yet fixed in this configuration
					var free []string
					for _, a := range names {
						if wfAtomVal(cfg, a) == tUnknown {
							free = append(free, a)
						}
					}
					for mask := 0; mask < 1<<len(free); mask++ {
						n := cfg
						for i, a := range free {
							n = wfSetAtom(n, a, mask&(1<<i) != 0)
						}
						env := func(e ast.Expr) tri {
							switch x := e.(type) {
							case *ast.Ident:
								return wfAtomVal(n, x.Name)
							case *ast.CallExpr:
								return wfAtomVal(n, types.ExprString(x))
							}
							return tUnknown
						}
						switch evalBool(info, cond, env) {
						case tTrue:
							t[n] = true
						case tFalse:
							f[n] = true
						default:
							t[n] = true
							f[n] = true
						}
					}
				}
				var tt, ff wfState = t, f
				if len(t) == 0 {
					tt = nil
				}
				if len(f) == 0 {
					ff = nil
				}
				if len(t)+len(f) > 512 {
					return nil, nil, false
				}
				return tt, ff, true
			},
		}
		fl.Run(fd.Body, wfState{wfCfg{}: true})
	}
	r.Floor("E6.width-sites", 7)
}

// E6WindingMode: the scanner's winding mode is selected for what is drawn next.
func E6WindingMode(c *core.Ctx, r *core.Report) {
	r.Rule("E6.winding-mode", "Rasterizer.RenderPath: the last scanner.SetWinding call before a fill outline is scanned derives from style.FillRule, and before a stroke outline (a path produced by Stroke(…)) it is SetWinding(true): stroke outlines overlap themselves and each other and are always non-zero. The tile of a hatch pattern (`v = hatch.Tile(…)`) is such an outline too — stroked hatch lines that overlap where they cross: on every path on which the scanned variable holds a tile the mode is non-zero (the winding mode and the set of tiled variables are tracked together, per path)")
	p := c.MustPkg("renderers/rasterizer")
	info := p.TypesInfo
	fd := core.MustFuncDecl(p, "Rasterizer.RenderPath")
	// variables holding stroke outlines
	strokeVar := map[types.Object]bool{}
	ast.Inspect(fd.Body, func(n ast.Node) bool {
		as, ok := n.(*ast.AssignStmt)
		if !ok || len(as.Lhs) != len(as.Rhs) {
			return true
		}
		for i, rhs := range as.Rhs {
			isStroke := false
			ast.Inspect(rhs, func(m ast.Node) bool {
				if call, ok := m.(*ast.CallExpr); ok {
					if f := core.CalleeOf(info, call); f != nil && core.QualifiedCallee(f) == core.Module+".Path.Stroke" {
						isStroke = true
					}
				}
				return true
			})
			if id, ok := as.Lhs[i].(*ast.Ident); ok && isStroke {
				strokeVar[core.ObjOf(info, id)] = true
			}
		}
		return true
	})
	// a configuration is "mode;tiled variables" — mode: unset, fillrule, nonzero, other
	type S map[string]bool
	cfg := func(mode string, tiled []string) string {
		sort.Strings(tiled)
		return mode + ";" + strings.Join(tiled, ",")
	}
	parse := func(k string) (string, []string) {
		parts := strings.SplitN(k, ";", 2)
		if parts[1] == "" {
			return parts[0], nil
		}
		return parts[0], strings.Split(parts[1], ",")
	}
	n := 0
	fl := &core.Flow[S]{
		Join: func(a, b S) S {
			out := S{}
			for k := range a {
				out[k] = true
			}
			for k := range b {
				out[k] = true
			}
			return out
		},
		Equal: func(a, b S) bool {
			if len(a) != len(b) {
				return false
			}
			for k := range a {
				if !b[k] {
					return false
				}
			}
			return true
		},
		Dead:   func() S { return nil },
		IsDead: func(s S) bool { return s == nil },
		Exit:   func(ast.Node, S) {},
		Stmt: func(st ast.Stmt, s S) (S, bool) {
			// v = hatch.Tile(…): from here on v holds the outline of stroked hatch lines
			as, ok := st.(*ast.AssignStmt)
			if !ok || len(as.Lhs) != 1 || len(as.Rhs) != 1 || s == nil {
				return s, false
			}
			call, ok := core.Unparen(as.Rhs[0]).(*ast.CallExpr)
			if !ok {
				return s, false
			}
			se, ok := call.Fun.(*ast.SelectorExpr)
			id, isID := as.Lhs[0].(*ast.Ident)
			if !ok || !isID || se.Sel.Name != "Tile" {
				return s, false
			}
			out := S{}
			for k := range s {
				mode, tiled := parse(k)
				has := false
				for _, t := range tiled {
					if t == id.Name {
						has = true
					}
				}
				if !has {
					tiled = append(append([]string{}, tiled...), id.Name)
				}
				out[cfg(mode, tiled)] = true
			}
			return out, true
		},
		Expr: func(e ast.Expr, s S) S {
			out := s
			ast.Inspect(e, func(m ast.Node) bool {
				call, ok := m.(*ast.CallExpr)
				if !ok {
					return true
				}
				se, ok := call.Fun.(*ast.SelectorExpr)
				if !ok {
					return true
				}
				switch se.Sel.Name {
				case "SetWinding":
					if len(call.Args) == 1 {
						mode := "other"
						if tv, ok := info.Types[call.Args[0]]; ok && tv.Value != nil && tv.Value.Kind() == constant.Bool {
							if constant.BoolVal(tv.Value) {
								mode = "nonzero"
							}
						} else if exprReadsFillRule(info, call.Args[0]) {
							mode = "fillrule" // which mode each rule gets is decided by E6.fill-rule-map
						}
						ns := S{}
						for k := range out {
							_, tiled := parse(k)
							ns[cfg(mode, tiled)] = true
						}
						out = ns
					}
				case "ToScanxScanner":
					id, ok := core.Unparen(se.X).(*ast.Ident)
					if !ok {
						return true
					}
					n++
					isStroke := strokeVar[core.ObjOf(info, id)]
					what := "fill outline"
					if isStroke {
						what = "stroke outline"
					}
					key := fmt.Sprintf("renderers/rasterizer.Rasterizer.RenderPath|%s scan #%d", what, n)
					bad := ""
					var cfgs []string
					for k := range out {
						cfgs = append(cfgs, k)
					}
					sort.Strings(cfgs)
					for _, k := range cfgs {
						mode, tiled := parse(k)
						isTile := false
						for _, t := range tiled {
							if t == id.Name {
								isTile = true
							}
						}
						switch {
						case isStroke && mode != "nonzero":
							bad = fmt.Sprintf("the stroke outline is scanned with winding mode %q, it needs \"nonzero\": with EvenOdd, pixels where stroke outlines overlap (two sub-paths crossing) are left unpainted", mode)
						case !isStroke && isTile && mode != "nonzero":
							bad = fmt.Sprintf("on a path on which `%s` holds the tile of a hatch pattern (the outline of stroked hatch lines, which overlap where they cross) it is scanned with winding mode %q, it needs \"nonzero\": with EvenOdd the crossings of the hatch lines are left unpainted", id.Name, mode)
						case !isStroke && !isTile && mode != "fillrule":
							bad = fmt.Sprintf("the fill outline is scanned with winding mode %q, it needs the mode derived from style.FillRule", mode)
						}
					}
					if bad == "" {
						r.OK("E6.winding-mode", key, c.Pos(call.Pos()), strings.Join(cfgs, " | "))
					} else {
						r.Fail("E6.winding-mode", key, c.Pos(call.Pos()), bad)
					}
				}
				return true
			})
			return out
		},
	}
	fl.Run(fd.Body, S{"unset;": true})
	r.Count("E6.scan-sites", n)
	r.Floor("E6.scan-sites", 4)
}

// E6DashPeriod: a dash phase is normalised with the period of the array that is emitted.
func E6DashPeriod(c *core.Ctx, r *core.Report) {
	r.Rule("E6.dash-period", "in a back-end function that sums a dash array (a []float64 parameter) to obtain the pattern's period — PDF's SetDashes adds it to a negative phase — the array is not changed afterwards: in particular the doubling of an odd-length array (which doubles the period) happens before the sum. A period taken from the undoubled odd array shifts the phase by half a period and exchanges dashes and gaps")
	n := 0
	for _, b := range backends {
		p := c.MustPkg(b.rel)
		info := p.TypesInfo
		for _, fd := range core.AllFuncDecls(p) {
			if fd.Body == nil {
				continue
			}
			params := map[types.Object]bool{}
			for _, fl := range fd.Type.Params.List {
				for _, nm := range fl.Names {
					if o := info.Defs[nm]; o != nil {
						if sl, ok := o.Type().Underlying().(*types.Slice); ok {
							if bt, ok := sl.Elem().Underlying().(*types.Basic); ok && bt.Kind() == types.Float64 {
								params[o] = true
							}
						}
					}
				}
			}
			if len(params) == 0 {
				continue
			}
			ast.Inspect(fd.Body, func(m ast.Node) bool {
				rs, ok := m.(*ast.RangeStmt)
				if !ok {
					return true
				}
				id, ok := core.Unparen(rs.X).(*ast.Ident)
				if !ok || !params[core.ObjOf(info, id)] {
					return true
				}
				arr := core.ObjOf(info, id)
				sums := false
				for _, s := range rs.Body.List {
					if as, ok := s.(*ast.AssignStmt); ok && as.Tok == token.ADD_ASSIGN {
						sums = true
					}
				}
				if !sums {
					return true
				}
				n++
				key := fmt.Sprintf("%s.%s|period of the dash array", p.Types.Name(), core.FuncName(fd))
				var later ast.Node
				ast.Inspect(fd.Body, func(k ast.Node) bool {
					if as, ok := k.(*ast.AssignStmt); ok && as.Pos() > rs.End() {
						for _, l := range as.Lhs {
							if lid, ok := l.(*ast.Ident); ok && core.ObjOf(info, lid) == arr && later == nil {
								later = as
							}
						}
					}
					return true
				})
				if later == nil {
					r.OK("E6.dash-period", key, c.Pos(rs.Pos()), "the summed array is the emitted array")
				} else {
					r.Fail("E6.dash-period", key, c.Pos(later.Pos()), fmt.Sprintf("the dash array is changed (`%s`) after its period was summed: the phase was normalised with the period of a different array than the one emitted (for an odd-length array half the real period, which exchanges dashes and gaps)", c.Src(later)))
				}
				return true
			})
		}
	}
	r.Count("E6.dash-period-sums", n)
	r.Floor("E6.dash-period-sums", 1)
}

// E6JoinerSupport: which stroke joiners a back-end writes natively, evaluated over the finite set of joiner kinds.
func E6JoinerSupport(c *core.Ctx, r *core.Report) {
	r.Rule("E6.joiner-support", "SVG, PDF and PostScript can only express a bevel join, a round join and a miter join that falls back to a bevel beyond its limit (SVG additionally the `arcs` join with a finite limit); every other joiner — a miter with an infinite (NaN) limit, a miter whose gap joiner is nil (clip) or anything but Bevel, an arcs join in PDF/PS or with NaN limit — must take the explicit outline fallback, because the rasterizer draws exactly what the joiner says. The statements of RenderPath that compute the `unsupported` flag from style.StrokeJoiner are evaluated for each of the eight joiner kinds (type assertions and IsNaN decided per kind) and compared with this table")
	type kind struct {
		name     string
		typ      string // BevelJoiner | RoundJoiner | MiterJoiner | ArcsJoiner
		nanLimit bool
		gap      string // "", "BevelJoiner", "RoundJoiner"
	}
	kinds := []kind{
		{"bevel", "BevelJoiner", false, ""},
		{"round", "RoundJoiner", false, ""},
		{"miter, finite limit, bevel gap", "MiterJoiner", false, "BevelJoiner"},
		{"miter, finite limit, nil gap (clip)", "MiterJoiner", false, ""},
		{"miter, finite limit, round gap", "MiterJoiner", false, "RoundJoiner"},
		{"miter, NaN limit", "MiterJoiner", true, "BevelJoiner"},
		{"arcs, finite limit", "ArcsJoiner", false, "BevelJoiner"},
		{"arcs, NaN limit", "ArcsJoiner", true, "BevelJoiner"},
	}
	want := func(be string, k kind) bool { // unsupported?
		switch k.typ {
		case "BevelJoiner", "RoundJoiner":
			return false
		case "MiterJoiner":
			return k.nanLimit || k.gap != "BevelJoiner"
		case "ArcsJoiner":
			if be == "renderers/svg" {
				return k.nanLimit
			}
			return true
		}
		return true
	}
	n := 0
	for _, b := range backends {
		if b.rel == "renderers/rasterizer" {
			continue
		}
		p := c.MustPkg(b.rel)
		info := p.TypesInfo
		fd := core.MustFuncDecl(p, b.recv+".RenderPath")
		// the flag: a bool local declared `:= false` that is later read in a condition
		var flag types.Object
		var declIdx int
		for i, st := range fd.Body.List {
			if as, ok := st.(*ast.AssignStmt); ok && as.Tok == token.DEFINE && len(as.Lhs) == 1 && len(as.Rhs) == 1 {
				if id, ok := as.Rhs[0].(*ast.Ident); ok && id.Name == "false" && flag == nil {
					// followed by an if that type-asserts StrokeJoiner
					if i+1 < len(fd.Body.List) {
						if is, ok := fd.Body.List[i+1].(*ast.IfStmt); ok && initMentions(is, "StrokeJoiner") {
							flag = core.ObjOf(info, as.Lhs[0].(*ast.Ident))
							declIdx = i
						}
					}
				}
			}
		}
		if flag == nil {
			r.Fail("E6.joiner-support", b.rel+"."+b.recv+".RenderPath|flag", c.Pos(fd.Pos()), "the statements that decide whether the stroke can be written natively were not found")
			continue
		}
		chain := fd.Body.List[declIdx+1].(*ast.IfStmt)
		for _, k := range kinds {
			n++
			key := fmt.Sprintf("%s.%s.RenderPath|%s", b.rel, b.recv, k.name)
			// evaluate
			bound := map[types.Object]string{} // variable -> "joiner" | "gap"
			val := false
			undecided := ""
			var evalCond func(e ast.Expr, okObj types.Object, okVal bool) int
			evalCond = func(e ast.Expr, okObj types.Object, okVal bool) int {
				e = core.Unparen(e)
				switch x := e.(type) {
				case *ast.Ident:
					if core.ObjOf(info, x) == okObj {
						if okVal {
							return 1
						}
						return 0
					}
				case *ast.UnaryExpr:
					if x.Op == token.NOT {
						if v := evalCond(x.X, okObj, okVal); v >= 0 {
							return 1 - v
						}
					}
				case *ast.BinaryExpr:
					a, bb := evalCond(x.X, okObj, okVal), evalCond(x.Y, okObj, okVal)
					switch x.Op {
					case token.LAND:
						if a == 0 || bb == 0 {
							return 0
						}
						if a == 1 && bb == 1 {
							return 1
						}
					case token.LOR:
						if a == 1 || bb == 1 {
							return 1
						}
						if a == 0 && bb == 0 {
							return 0
						}
					case token.EQL, token.NEQ:
						// miter.GapJoiner == nil
						if sel, ok := core.Unparen(x.X).(*ast.SelectorExpr); ok && sel.Sel.Name == "GapJoiner" {
							if id, ok := core.Unparen(x.Y).(*ast.Ident); ok && id.Name == "nil" {
								isNil := k.gap == ""
								if (x.Op == token.EQL) == isNil {
									return 1
								}
								return 0
							}
						}
					}
				case *ast.CallExpr:
					if name, call := core.MathFunc(info, x); name == "IsNaN" && len(call.Args) == 1 {
						if sel, ok := core.Unparen(call.Args[0]).(*ast.SelectorExpr); ok && sel.Sel.Name == "Limit" {
							if k.nanLimit {
								return 1
							}
							return 0
						}
					}
				}
				return -1
			}
			var run func(st ast.Stmt)
			run = func(st ast.Stmt) {
				switch x := st.(type) {
				case *ast.BlockStmt:
					for _, s := range x.List {
						run(s)
					}
				case *ast.AssignStmt:
					if len(x.Lhs) == 1 && len(x.Rhs) == 1 {
						if id, ok := x.Lhs[0].(*ast.Ident); ok && core.ObjOf(info, id) == flag {
							if rid, ok := x.Rhs[0].(*ast.Ident); ok {
								val = rid.Name == "true"
							}
						}
					}
				case *ast.IfStmt:
					var okObj types.Object
					okVal := false
					if as, ok := x.Init.(*ast.AssignStmt); ok && len(as.Lhs) == 2 && len(as.Rhs) == 1 {
						if ta, ok := core.Unparen(as.Rhs[0]).(*ast.TypeAssertExpr); ok && ta.Type != nil {
							tn := ""
							if nt, ok := info.TypeOf(ta.Type).(*types.Named); ok {
								tn = nt.Obj().Name()
							}
							src := types.ExprString(ta.X)
							switch {
							case strings.HasSuffix(src, "StrokeJoiner"):
								okVal = tn == k.typ
							case strings.HasSuffix(src, "GapJoiner"):
								okVal = tn == k.gap
							default:
								undecided = "type assertion on " + src
							}
							if id, ok := as.Lhs[1].(*ast.Ident); ok {
								okObj = core.ObjOf(info, id)
							}
							if id, ok := as.Lhs[0].(*ast.Ident); ok && id.Name != "_" {
								bound[core.ObjOf(info, id)] = src
							}
						}
					}
					switch evalCond(x.Cond, okObj, okVal) {
					case 1:
						run(x.Body)
					case 0:
						if x.Else != nil {
							run(x.Else)
						}
					default:
						undecided = "condition `" + types.ExprString(x.Cond) + "`"
					}
				}
			}
			run(chain)
			w := want(b.rel, k)
			switch {
			case undecided != "":
				r.Fail("E6.joiner-support", key, c.Pos(chain.Pos()), "cannot be evaluated: "+undecided)
			case val != w:
				r.Fail("E6.joiner-support", key, c.Pos(chain.Pos()), fmt.Sprintf("for a %s join the back-end decides unsupported=%v, the format's capabilities give unsupported=%v: the stroke is %s", k.name, val, w, map[bool]string{true: "written natively although the format joins differently from the rasterizer", false: "converted to an outline although the format can express it"}[!val]))
			default:
				r.OK("E6.joiner-support", key, c.Pos(chain.Pos()), fmt.Sprintf("unsupported=%v", val))
			}
		}
	}
	r.Count("E6.joiner-kinds-evaluated", n)
	r.Floor("E6.joiner-kinds-evaluated", 24)
}

func initMentions(is *ast.IfStmt, name string) bool {
	as, ok := is.Init.(*ast.AssignStmt)
	if !ok || len(as.Rhs) != 1 {
		return false
	}
	return strings.Contains(types.ExprString(as.Rhs[0]), name)
}

// E6ColorModelCompare: components of premultiplied and non-premultiplied colours are never compared.
func E6ColorModelCompare(c *core.Ctx, r *core.Report) {
	r.Rule("E6.color-model-compare", "canvas keeps colours premultiplied (color.RGBA); the writers convert to straight alpha (color.NRGBA) before they emit components. The two types hold different numbers for every alpha below 255, so a component (R, G, B) of a color.NRGBA value is never compared with a component of a color.RGBA value — type-level, over the root package and the pdf, ps and svg writers. The PostScript writer's `only emit when changed` test compared the converted new colour with the stored premultiplied one: after RGBA{128,0,0,128} (emitted as 1 0 0) the opaque RGBA{128,0,0,255} emitted nothing and was painted bright red")
	n := 0
	for _, rel := range []string{"", "renderers/pdf", "renderers/ps", "renderers/svg"} {
		p := c.MustPkg(rel)
		info := p.TypesInfo
		pk := "canvas"
		if rel != "" {
			pk = rel
		}
		model := func(e ast.Expr) string {
			se, ok := core.Unparen(e).(*ast.SelectorExpr)
			if !ok || (se.Sel.Name != "R" && se.Sel.Name != "G" && se.Sel.Name != "B") {
				return ""
			}
			t := info.TypeOf(se.X)
			if t == nil {
				return ""
			}
			if pt, ok := t.(*types.Pointer); ok {
				t = pt.Elem()
			}
			switch t.String() {
			case "image/color.RGBA":
				return "RGBA"
			case "image/color.NRGBA":
				return "NRGBA"
			}
			return ""
		}
		for _, fd := range core.AllFuncDecls(p) {
			if strings.HasSuffix(c.Fset.Position(fd.Pos()).Filename, "_test.go") {
				continue
			}
			ord := 0
			ast.Inspect(fd.Body, func(m ast.Node) bool {
				be, ok := m.(*ast.BinaryExpr)
				if !ok {
					return true
				}
				switch be.Op {
				case token.EQL, token.NEQ, token.LSS, token.LEQ, token.GTR, token.GEQ:
				default:
					return true
				}
				a, b := model(be.X), model(be.Y)
				if a == "" || b == "" {
					return true
				}
				n++
				ord++
				key := fmt.Sprintf("%s.%s|colour components compared #%d", pk, core.FuncName(fd), ord)
				if a == b {
					r.OK("E6.color-model-compare", key, c.Pos(be.Pos()), a)
				} else {
					r.Fail("E6.color-model-compare", key, c.Pos(be.Pos()), fmt.Sprintf("`%s` compares a component of a %s colour with a component of a %s colour: equal numbers mean different colours whenever the alpha is below 255 (and different numbers may mean the same colour)", types.ExprString(be), a, b))
				}
				return true
			})
		}
	}
	r.Count("E6.colour-component-comparisons", n)
	r.Floor("E6.colour-component-comparisons", 3)
}

// E6OutlineNonzero: the explicit stroke outline of the vector writers is filled non-zero.
func E6OutlineNonzero(c *core.Ctx, r *core.Report) {
	r.Rule("E6.outline-nonzero", "sibling agreement with the rasterizer (E6.winding-mode): when SVG, PDF or PostScript cannot express a stroke, RenderPath strokes the path itself and emits the outline as a filled path. That outline overlaps itself wherever the stroke crosses itself or another sub-path's stroke, and the rasterizer always scans it non-zero; so in the block that follows the Stroke(…) call nothing is selected by the style's FillRule and no even-odd operator or attribute (`f*`, `eofill`, `evenodd`) is written. With the path's EvenOdd rule applied to the outline, the crossing of two strokes is a hole")
	n := 0
	for _, rel := range []string{"renderers/svg", "renderers/pdf", "renderers/ps"} {
		p := c.MustPkg(rel)
		info := p.TypesInfo
		var fd *ast.FuncDecl
		for _, f := range core.AllFuncDecls(p) {
			if f.Name.Name == "RenderPath" && f.Recv != nil {
				fd = f
			}
		}
		if fd == nil {
			panic(core.Infra(rel + ": RenderPath not found"))
		}
		// innermost blocks containing a statement with a Path.Stroke call
		var visit func(b *ast.BlockStmt)
		visit = func(b *ast.BlockStmt) {
			for i, st := range b.List {
				hasStroke := false
				nested := false
				ast.Inspect(st, func(m ast.Node) bool {
					if bb, ok := m.(*ast.BlockStmt); ok && bb != b {
						nested = true
						visit(bb)
						return false
					}
					if call, ok := m.(*ast.CallExpr); ok {
						if f := core.CalleeOf(info, call); f != nil && core.QualifiedCallee(f) == core.Module+".Path.Stroke" {
							hasStroke = true
						}
					}
					return true
				})
				_ = nested
				if !hasStroke {
					continue
				}
				n++
				key := rel + "." + core.FuncName(fd) + "|explicit stroke outline filled non-zero"
				bad := ""
				var badPos token.Pos
				for _, later := range b.List[i+1:] {
					ast.Inspect(later, func(m ast.Node) bool {
						switch x := m.(type) {
						case *ast.SelectorExpr:
							if x.Sel.Name == "FillRule" && bad == "" {
								bad, badPos = "the outline's fill mode is selected by `"+types.ExprString(x)+"`", x.Pos()
							}
						case *ast.BasicLit:
							if x.Kind == token.STRING && bad == "" {
								for _, w := range []string{"f*", "eofill", "evenodd", "B*", "b*"} {
									if strings.Contains(x.Value, w) {
										bad, badPos = "the outline is written with the even-odd form "+x.Value, x.Pos()
									}
								}
							}
						case *ast.Ident:
							// a local that holds the operator: every value it can have, wherever it was assigned
							o, isVar := core.ObjOf(info, x).(*types.Var)
							if !isVar || o.IsField() || !(fd.Body.Pos() <= o.Pos() && o.Pos() < fd.Body.End()) || bad != "" {
								return true
							}
							ast.Inspect(fd.Body, func(k ast.Node) bool {
								as, ok := k.(*ast.AssignStmt)
								if !ok || len(as.Lhs) != len(as.Rhs) {
									return true
								}
								for i, l := range as.Lhs {
									lid, ok := l.(*ast.Ident)
									if !ok || core.ObjOf(info, lid) != o {
										continue
									}
									ast.Inspect(as.Rhs[i], func(q ast.Node) bool {
										if lit, ok := q.(*ast.BasicLit); ok && lit.Kind == token.STRING {
											for _, w := range []string{"f*", "eofill", "evenodd", "B*", "b*"} {
												if strings.Contains(lit.Value, w) && bad == "" {
													bad, badPos = fmt.Sprintf("the outline is written through `%s`, which can hold the even-odd form %s", x.Name, lit.Value), x.Pos()
												}
											}
										}
										return true
									})
								}
								return true
							})
						}
						return true
					})
				}
				if bad == "" {
					r.OK("E6.outline-nonzero", key, c.Pos(st.Pos()), "")
				} else {
					r.Fail("E6.outline-nonzero", key, c.Pos(badPos), bad+": the rasterizer fills stroke outlines non-zero, so where two strokes cross this back-end leaves a hole")
				}
			}
		}
		visit(fd.Body)
	}
	r.Count("E6.explicit-outlines", n)
	r.Floor("E6.explicit-outlines", 3)
}

// skipBoundsCover analyses a RenderPath-like function: wherever it returns early under a condition
// on a bounds variable, that variable covers everything the function would paint on that path —
// the fill outline when the style has a fill, the stroke outline when it has a stroke. A stroke
// outline stands for the fill as well only when it was not dashed (the outline of a solid stroke
// encloses the path; the outline of a dashed one covers the dashes only). Returns the number of
// early-outs examined and a description of the first uncovered one.
func skipBoundsCover(info *types.Info, fd *ast.FuncDecl) (int, string, token.Pos) {
	// variables: bounds (Rect-typed local used in a returning if), fill/stroke path locals
	type st struct {
		covers map[string]bool // "fill", "stroke"
		dashed bool
		kind   map[types.Object]string // path local -> "fill" | "stroke" | "dashed-stroke" | "path"
	}
	clone := func(a st) st {
		b := st{covers: map[string]bool{}, dashed: a.dashed, kind: map[types.Object]string{}}
		for k, v := range a.covers {
			b.covers[k] = v
		}
		for k, v := range a.kind {
			b.kind[k] = v
		}
		return b
	}
	isRect := func(t types.Type) bool { return t != nil && strings.HasSuffix(t.String(), "Rect") }
	var boundsObjs = map[types.Object]bool{}
	ast.Inspect(fd.Body, func(m ast.Node) bool {
		if id, ok := m.(*ast.Ident); ok {
			if v, ok := info.Defs[id].(*types.Var); ok && isRect(v.Type()) {
				boundsObjs[v] = true
			}
		}
		return true
	})
	mentionsBounds := func(e ast.Node) bool {
		f := false
		ast.Inspect(e, func(k ast.Node) bool {
			if id, ok := k.(*ast.Ident); ok && boundsObjs[core.ObjOf(info, id)] {
				f = true
			}
			return true
		})
		return f
	}
	sites := 0
	bad := ""
	var badPos token.Pos
	for _, hasFill := range []bool{true, false} {
		for _, hasStroke := range []bool{true, false} {
			if !hasFill && !hasStroke {
				continue
			}
			env := func(e ast.Expr) tri {
				call, ok := e.(*ast.CallExpr)
				if !ok {
					return tUnknown
				}
				se, ok := call.Fun.(*ast.SelectorExpr)
				if !ok {
					return tUnknown
				}
				switch se.Sel.Name {
				case "HasFill":
					return triOf(hasFill)
				case "HasStroke":
					return triOf(hasStroke)
				}
				return tUnknown
			}
			// the kind of path an expression evaluates to
			var pathKind func(e ast.Expr, a st) string
			pathKind = func(e ast.Expr, a st) string {
				switch x := core.Unparen(e).(type) {
				case *ast.Ident:
					if k, ok := a.kind[core.ObjOf(info, x)]; ok {
						return k
					}
					return "path"
				case *ast.CallExpr:
					se, ok := x.Fun.(*ast.SelectorExpr)
					if !ok {
						return "path"
					}
					base := pathKind(se.X, a)
					switch se.Sel.Name {
					case "Stroke":
						if base == "dashed" || base == "dashed-stroke" {
							return "dashed-stroke"
						}
						return "stroke"
					case "Dash":
						if base == "stroke" || base == "dashed-stroke" {
							return "dashed-stroke"
						}
						return "dashed"
					}
					return base
				}
				return "path"
			}
			contributions := func(e ast.Expr, a st) map[string]bool {
				out := map[string]bool{}
				ast.Inspect(e, func(k ast.Node) bool {
					call, ok := k.(*ast.CallExpr)
					if !ok {
						return true
					}
					se, ok := call.Fun.(*ast.SelectorExpr)
					if !ok || (se.Sel.Name != "FastBounds" && se.Sel.Name != "Bounds") {
						return true
					}
					switch pathKind(se.X, a) {
					case "path":
						out["fill"] = true
					case "stroke":
						out["fill"], out["stroke"] = true, true
					case "dashed-stroke":
						out["stroke"] = true
					}
					return true
				})
				return out
			}
			var walk func(stmts []ast.Stmt, a st) bool
			walk = func(stmts []ast.Stmt, a st) bool {
				for i, s0 := range stmts {
					switch x := s0.(type) {
					case *ast.ReturnStmt:
						return false
					case *ast.BlockStmt:
						return walk(append(append([]ast.Stmt{}, x.List...), stmts[i+1:]...), a)
					case *ast.IfStmt:
						if x.Init != nil {
							walk([]ast.Stmt{x.Init}, a)
						}
						// an early-out on the bounds?
						if mentionsBounds(x.Cond) && len(x.Body.List) > 0 {
							if _, isRet := x.Body.List[len(x.Body.List)-1].(*ast.ReturnStmt); isRet {
								sites++
								var missing []string
								if hasFill && !a.covers["fill"] {
									missing = append(missing, "the fill outline")
								}
								if hasStroke && !a.covers["stroke"] {
									missing = append(missing, "the stroke outline")
								}
								if len(missing) > 0 && bad == "" {
									bad = fmt.Sprintf("with HasFill=%v and HasStroke=%v the function returns early on bounds that do not cover %s", hasFill, hasStroke, strings.Join(missing, " and "))
									badPos = x.Pos()
								}
							}
						}
						t := evalBool(info, x.Cond, env)
						rest := stmts[i+1:]
						if t != tFalse {
							walk(append(append([]ast.Stmt{}, x.Body.List...), rest...), clone(a))
						}
						if t != tTrue {
							switch el := x.Else.(type) {
							case nil:
								walk(rest, clone(a))
							case *ast.BlockStmt:
								walk(append(append([]ast.Stmt{}, el.List...), rest...), clone(a))
							case *ast.IfStmt:
								walk(append([]ast.Stmt{el}, rest...), clone(a))
							}
						}
						return false
					case *ast.AssignStmt:
						if len(x.Lhs) != len(x.Rhs) {
							continue
						}
						for k, l := range x.Lhs {
							id, ok := l.(*ast.Ident)
							if !ok {
								continue
							}
							o := core.ObjOf(info, id)
							if boundsObjs[o] {
								nc := contributions(x.Rhs[k], a)
								if mentionsBounds(x.Rhs[k]) {
									for c := range a.covers {
										nc[c] = true
									}
								}
								a.covers = nc
								continue
							}
							if t := info.TypeOf(x.Rhs[k]); t != nil && strings.HasSuffix(t.String(), "Path") {
								a.kind[o] = pathKind(x.Rhs[k], a)
							}
						}
					}
				}
				return true
			}
			walk(fd.Body.List, st{covers: map[string]bool{}, kind: map[types.Object]string{}})
		}
	}
	return sites, bad, badPos
}

// E6SkipBoundsCover: an early-out of the rasterizer's RenderPath is taken on bounds that cover the fill and the stroke.
func E6SkipBoundsCover(c *core.Ctx, r *core.Report) {
	r.Rule("E6.skip-bounds-cover", "Rasterizer.RenderPath may skip a path that lies outside the image only on bounds that cover everything it would paint: for each combination of HasFill/HasStroke the function is walked with those tests decided, following what the bounds variable was built from — FastBounds/Bounds of the transformed path covers the fill; of a stroke outline covers the stroke and, because the outline of a solid stroke encloses the path, the fill; of the outline of a dashed path covers the dashes only. An early return under a condition on the bounds is taken with the fill covered when there is a fill and the stroke covered when there is a stroke. The recogniser is exercised on a built-in example on every run (today's RenderPath has no early-out, so the expected count on the tree is zero)")
	// self-test
	{
		src := `package x
type Rect struct{ X0, Y0, X1, Y1 float64 }
func (r Rect) Add(q Rect) Rect { return r }
type Path struct{}
func (p *Path) FastBounds() Rect { return Rect{} }
func (p *Path) Transform(m int) *Path { return p }
func (p *Path) Stroke(w float64) *Path { return p }
func (p *Path) Dash(o float64) *Path { return p }
type Style struct{ D []float64 }
func (s Style) HasFill() bool { return true }
func (s Style) HasStroke() bool { return true }
func good(path *Path, style Style) {
	bounds := Rect{}
	if style.HasFill() { bounds = path.Transform(1).FastBounds() }
	if style.HasStroke() {
		stroke := path
		if 0 < len(style.D) { stroke = stroke.Dash(0) }
		stroke = stroke.Stroke(1).Transform(1)
		if style.HasFill() { bounds = bounds.Add(stroke.FastBounds()) } else { bounds = stroke.FastBounds() }
	}
	if bounds.X1 <= 0 { return }
}
func bad(path *Path, style Style) {
	bounds := Rect{}
	if style.HasFill() { bounds = path.Transform(1).FastBounds() }
	if style.HasStroke() {
		stroke := path
		if 0 < len(style.D) { stroke = stroke.Dash(0) }
		stroke = stroke.Stroke(1).Transform(1)
		bounds = stroke.FastBounds()
	}
	if bounds.X1 <= 0 { return }
}
func solid(path *Path, style Style) {
	bounds := Rect{}
	if style.HasStroke() {
		stroke := path.Stroke(1).Transform(1)
		bounds = stroke.FastBounds()
	} else { bounds = path.FastBounds() }
	if bounds.X1 <= 0 { return }
}
`
		fset := token.NewFileSet()
		f, err := parser.ParseFile(fset, "selftest.go", src, 0)
		if err != nil {
			panic(core.Infra("skip-bounds-cover self-test does not parse: " + err.Error()))
		}
		info := &types.Info{Types: map[ast.Expr]types.TypeAndValue{}, Uses: map[*ast.Ident]types.Object{}, Defs: map[*ast.Ident]types.Object{}, Selections: map[*ast.SelectorExpr]*types.Selection{}}
		if _, err := (&types.Config{}).Check("x", fset, []*ast.File{f}, info); err != nil {
			panic(core.Infra("skip-bounds-cover self-test does not type-check: " + err.Error()))
		}
		got := ""
		for _, d := range f.Decls {
			fd, ok := d.(*ast.FuncDecl)
			if !ok || fd.Recv != nil {
				continue
			}
			n, bad, _ := skipBoundsCover(info, fd)
			got += fmt.Sprintf("%s:%d%s ", fd.Name.Name, n, map[bool]string{true: "+", false: "-"}[bad == ""])
		}
		if got != "good:5+ bad:5- solid:3+ " {
			panic(core.Infra("skip-bounds-cover self-test: recogniser answers `" + got + "`"))
		}
		r.Count("E6.skip-bounds-selftest", 3)
	}
	p := c.MustPkg("renderers/rasterizer")
	fd := core.MustFuncDecl(p, "Rasterizer.RenderPath")
	r.Func("renderers/rasterizer.Rasterizer.RenderPath")
	n, bad, pos := skipBoundsCover(p.TypesInfo, fd)
	key := "renderers/rasterizer.Rasterizer.RenderPath|early-outs are taken on bounds that cover fill and stroke"
	if bad == "" {
		r.OK("E6.skip-bounds-cover", key, c.Pos(fd.Pos()), fmt.Sprintf("%d early-out evaluation(s)", n))
	} else {
		r.Fail("E6.skip-bounds-cover", key, c.Pos(pos), bad+": pixels of the uncovered part that lie inside the image are not painted")
	}
	r.Floor("E6.skip-bounds-selftest", 3)
}

// E6FillRuleMap: what the rasterizer's two scanner modes make of each enumerator of canvas.FillRule.
func E6FillRuleMap(c *core.Ctx, r *core.Report) {
	r.Rule("E6.fill-rule-map", "Rasterizer.RenderPath: the scanner has two modes, SetWinding(true) = non-zero and SetWinding(false) = even-odd. The argument of the SetWinding call that derives from style.FillRule is evaluated for every enumerator of canvas.FillRule (comparisons of the rule with an enumerator are decided, the rest by boolean evaluation; a boolean local is followed to its one assignment): NonZero gives true, EvenOdd gives false, and any further enumerator — which neither mode can express — is accepted only if the fill outline is first reduced by a call that receives the rule (`fill.Settle(style.FillRule)`)")
	p := c.MustPkg("renderers/rasterizer")
	info := p.TypesInfo
	fd := core.MustFuncDecl(p, "Rasterizer.RenderPath")
	scope := c.MustPkg("").Types.Scope()
	tn, _ := scope.Lookup("FillRule").(*types.TypeName)
	if tn == nil {
		panic(core.Infra("canvas.FillRule not found"))
	}
	var enums []*types.Const
	for _, name := range scope.Names() {
		if k, ok := scope.Lookup(name).(*types.Const); ok && types.Identical(k.Type(), tn.Type()) {
			enums = append(enums, k)
		}
	}
	sort.Slice(enums, func(i, j int) bool { return constant.Compare(enums[i].Val(), token.LSS, enums[j].Val()) })
	isRule := func(e ast.Expr) bool {
		tv, ok := info.Types[e]
		return ok && tv.Value == nil && types.Identical(tv.Type, tn.Type())
	}
	// a call that receives the rule as an argument: the outline is reduced according to the rule
	delegated := false
	ast.Inspect(fd.Body, func(n ast.Node) bool {
		if call, ok := n.(*ast.CallExpr); ok {
			for _, a := range call.Args {
				if isRule(core.Unparen(a)) {
					delegated = true
				}
			}
		}
		return true
	})
	single := func(id *ast.Ident) ast.Expr {
		o := core.ObjOf(info, id)
		var rhs ast.Expr
		cnt := 0
		ast.Inspect(fd.Body, func(n ast.Node) bool {
			if as, ok := n.(*ast.AssignStmt); ok && len(as.Lhs) == len(as.Rhs) {
				for i, l := range as.Lhs {
					if lid, ok := l.(*ast.Ident); ok && core.ObjOf(info, lid) == o {
						rhs = as.Rhs[i]
						cnt++
					}
				}
			}
			return true
		})
		if cnt == 1 {
			return rhs
		}
		return nil
	}
	n := 0
	ast.Inspect(fd.Body, func(nd ast.Node) bool {
		call, ok := nd.(*ast.CallExpr)
		if !ok || len(call.Args) != 1 {
			return true
		}
		se, ok := call.Fun.(*ast.SelectorExpr)
		if !ok || se.Sel.Name != "SetWinding" {
			return true
		}
		arg := core.Unparen(call.Args[0])
		if id, ok := arg.(*ast.Ident); ok && id.Name != "true" && id.Name != "false" {
			if rhs := single(id); rhs != nil {
				arg = core.Unparen(rhs)
			}
		}
		mentions := false
		ast.Inspect(arg, func(m ast.Node) bool {
			if e, ok := m.(ast.Expr); ok && isRule(e) {
				mentions = true
			}
			return true
		})
		if !mentions {
			return true
		}
		n++
		for _, k := range enums {
			env := func(e ast.Expr) tri {
				be, ok := e.(*ast.BinaryExpr)
				if !ok || (be.Op != token.EQL && be.Op != token.NEQ) {
					return tUnknown
				}
				var other ast.Expr
				switch {
				case isRule(core.Unparen(be.X)):
					other = be.Y
				case isRule(core.Unparen(be.Y)):
					other = be.X
				default:
					return tUnknown
				}
				tv, ok := info.Types[other]
				if !ok || tv.Value == nil {
					return tUnknown
				}
				return triOf(constant.Compare(tv.Value, token.EQL, k.Val()) == (be.Op == token.EQL))
			}
			v := evalBool(info, arg, env)
			key := "renderers/rasterizer.Rasterizer.RenderPath|" + k.Name()
			mode := map[tri]string{tTrue: "non-zero", tFalse: "even-odd", tUnknown: "undecided"}[v]
			switch {
			case v == tUnknown:
				r.Fail("E6.fill-rule-map", key, c.Pos(call.Pos()), fmt.Sprintf("the winding mode `%s` could not be evaluated for FillRule == %s", c.Src(call.Args[0]), k.Name()))
			case k.Name() == "NonZero" || k.Name() == "EvenOdd":
				if (k.Name() == "NonZero") == (v == tTrue) {
					r.OK("E6.fill-rule-map", key, c.Pos(call.Pos()), k.Name()+" is scanned in "+mode+" mode")
				} else {
					r.Fail("E6.fill-rule-map", key, c.Pos(call.Pos()), fmt.Sprintf("a path filled with the %s rule is scanned in %s mode (`%s`)", k.Name(), mode, c.Src(call)))
				}
			case delegated:
				r.OK("E6.fill-rule-map", key, c.Pos(call.Pos()), k.Name()+": the outline is reduced by a call that receives the rule, then scanned in "+mode+" mode")
			default:
				r.Fail("E6.fill-rule-map", key, c.Pos(call.Pos()), fmt.Sprintf("a path filled with the %s rule is scanned in %s mode (`%s`) and no call receives the rule to reduce the outline first: the region painted is that of the %s rule", k.Name(), mode, c.Src(call), mode))
			}
		}
		return true
	})
	r.Count("E6.fill-rule-sites", n)
	r.Floor("E6.fill-rule-sites", 1)
}

// exprReadsFillRule: the expression contains a non-constant operand of the named type FillRule.
func exprReadsFillRule(info *types.Info, e ast.Expr) bool {
	found := false
	ast.Inspect(e, func(n ast.Node) bool {
		if x, ok := n.(ast.Expr); ok {
			if tv, ok := info.Types[x]; ok && tv.Value == nil {
				if nt, ok := tv.Type.(*types.Named); ok && nt.Obj().Name() == "FillRule" {
					found = true
				}
			}
		}
		return true
	})
	return found
}

// isRectHeight: e is float64(v.Y) with v assigned only from image.Rectangle.Size(), or float64(X.Dy()).
func isRectHeight(info *types.Info, fd *ast.FuncDecl, e ast.Expr) bool {
	e = core.Unparen(e)
	if call, ok := e.(*ast.CallExpr); ok && len(call.Args) == 1 {
		if tv, ok := info.Types[call.Fun]; ok && tv.IsType() {
			e = core.Unparen(call.Args[0])
		}
	}
	isImageMethod := func(x ast.Expr, name string) bool {
		call, ok := core.Unparen(x).(*ast.CallExpr)
		if !ok {
			return false
		}
		f := core.CalleeOf(info, call)
		return f != nil && f.Name() == name && f.Pkg() != nil && f.Pkg().Path() == "image"
	}
	if isImageMethod(e, "Dy") {
		return true
	}
	se, ok := e.(*ast.SelectorExpr)
	if !ok || se.Sel.Name != "Y" {
		return false
	}
	if isImageMethod(se.X, "Size") {
		return true
	}
	id, ok := core.Unparen(se.X).(*ast.Ident)
	if !ok {
		return false
	}
	o := core.ObjOf(info, id)
	n, good := 0, 0
	ast.Inspect(fd.Body, func(k ast.Node) bool {
		if as, ok := k.(*ast.AssignStmt); ok && len(as.Lhs) == len(as.Rhs) {
			for i, l := range as.Lhs {
				if lid, ok := l.(*ast.Ident); ok && core.ObjOf(info, lid) == o {
					n++
					if isImageMethod(as.Rhs[i], "Size") {
						good++
					}
				}
			}
		}
		return true
	})
	return n > 0 && n == good
}

// E6ScannerColorMemo: a remembered scanner colour is forgotten wherever the scanner gets another paint.
func E6ScannerColorMemo(c *core.Ctx, r *core.Report) {
	r.Rule("E6.scanner-color-memo", "the rasterizer hands every paint to its scanner with SetColor. If some function skips that call when the colour equals a remembered one (a comparison of the argument with a field of the Rasterizer guards the call), the field has to say what the scanner holds: every other call of the scanner's SetColor in the package — the gradient branches pass a colour function — is accompanied, in the same block, by an assignment to that field. Otherwise a solid colour drawn after a gradient, the same as the one drawn before it, skips SetColor and is painted with the gradient (no such memo exists today: expected count zero, the rule then only counts the SetColor calls)")
	p := c.MustPkg("renderers/rasterizer")
	info := p.TypesInfo
	isSetColor := func(call *ast.CallExpr) bool {
		se, ok := call.Fun.(*ast.SelectorExpr)
		if !ok || se.Sel.Name != "SetColor" {
			return false
		}
		f := core.CalleeOf(info, call)
		return f != nil && f.Pkg() != nil && strings.Contains(f.Pkg().Path(), "scanx")
	}
	// memo helpers: a comparison with a receiver field guards a SetColor call
	memoField := map[*types.Var]string{}
	helper := map[*ast.FuncDecl]bool{}
	for _, fd := range core.AllFuncDecls(p) {
		if fd.Body == nil || fd.Recv == nil || len(fd.Recv.List[0].Names) == 0 {
			continue
		}
		recv := info.Defs[fd.Recv.List[0].Names[0]]
		ast.Inspect(fd.Body, func(m ast.Node) bool {
			is, ok := m.(*ast.IfStmt)
			if !ok {
				return true
			}
			be, ok := core.Unparen(is.Cond).(*ast.BinaryExpr)
			if !ok || (be.Op != token.EQL && be.Op != token.NEQ) {
				return true
			}
			var fv *types.Var
			for _, side := range []ast.Expr{be.X, be.Y} {
				if se, ok := core.Unparen(side).(*ast.SelectorExpr); ok {
					if id, ok := core.Unparen(se.X).(*ast.Ident); ok && core.ObjOf(info, id) == recv {
						if s := info.Selections[se]; s != nil && s.Kind() == types.FieldVal {
							fv, _ = s.Obj().(*types.Var)
						}
					}
				}
			}
			if fv == nil {
				return true
			}
			guards := false
			ast.Inspect(is, func(k ast.Node) bool {
				if call, ok := k.(*ast.CallExpr); ok && isSetColor(call) {
					guards = true
				}
				return true
			})
			if guards {
				memoField[fv] = core.FuncName(fd)
				helper[fd] = true
			}
			return true
		})
	}
	n := 0
	for _, fd := range core.AllFuncDecls(p) {
		if fd.Body == nil || helper[fd] {
			continue
		}
		var visit func(b *ast.BlockStmt)
		visit = func(b *ast.BlockStmt) {
			for _, st := range b.List {
				// direct statements of this block
				if es, ok := st.(*ast.ExprStmt); ok {
					if call, ok := es.X.(*ast.CallExpr); ok && isSetColor(call) {
						n++
						for fv, hname := range memoField {
							key := fmt.Sprintf("renderers/rasterizer.%s|SetColor #%d keeps %s up to date", core.FuncName(fd), n, fv.Name())
							updates := false
							for _, st2 := range b.List {
								if as, ok := st2.(*ast.AssignStmt); ok {
									for _, l := range as.Lhs {
										if se, ok := core.Unparen(l).(*ast.SelectorExpr); ok {
											if s := info.Selections[se]; s != nil && s.Obj() == types.Object(fv) {
												updates = true
											}
										}
									}
								}
							}
							if updates {
								r.OK("E6.scanner-color-memo", key, c.Pos(call.Pos()), "")
							} else {
								r.Fail("E6.scanner-color-memo", key, c.Pos(call.Pos()), fmt.Sprintf("`%s` gives the scanner another paint without touching `%s`, which %s trusts to skip SetColor: the next solid colour equal to the remembered one is drawn with this paint", c.Src(call), fv.Name(), hname))
							}
						}
					}
				}
				ast.Inspect(st, func(k ast.Node) bool {
					if bb, ok := k.(*ast.BlockStmt); ok {
						visit(bb)
						return false
					}
					if _, ok := k.(*ast.FuncLit); ok {
						return false
					}
					return true
				})
			}
		}
		visit(fd.Body)
	}
	r.Count("E6.scanner-setcolor-calls", n)
	r.Floor("E6.scanner-setcolor-calls", 1)
	if len(memoField) == 0 {
		r.OK("E6.scanner-color-memo", "renderers/rasterizer|no remembered scanner colour", c.Pos(p.Syntax[0].Pos()), fmt.Sprintf("%d SetColor calls, none of them skipped on a remembered value", n))
	}
}
