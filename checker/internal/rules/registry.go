// Package rules holds the engines (E1..E11 of DESIGN.md) and the mapping from properties to rules.
package rules

import "canvascheck/internal/core"

// Property describes what a check decides for one property of properties.jsonl.
type Property struct {
	Title       string
	Explanation string
	Assumptions []string
	Run         func(c *core.Ctx, r *core.Report)
	Thorough    func(c *core.Ctx, r *core.Report, extra map[string]any)
}

var commonAssumptions = []string{
	"go/packages + go/types load the same source the Go compiler builds (CGO_ENABLED=0, no build tags; cgo-only variants are out of scope)",
	"the checker decides the structural clauses named in coverage.rules for every input; the behaviour itself (numeric results) is not decided",
}

// Properties is filled by the init functions of the property files.
var Properties = map[string]*Property{}

func register(id string, p *Property) {
	p.Assumptions = append(append([]string{}, commonAssumptions...), p.Assumptions...)
	Properties[id] = p
}
