package rules

// E12 — length units in the rasterizing code (millimetres vs device pixels).
//
// The rasterizer package and the two path-to-scanner converters are the only code that mixes
// canvas coordinates (millimetres, y up) with device coordinates (pixels, y down); the factor
// between them is Resolution.DPMM() (pixels per millimetre). E12 is a dimension check over the AST
// with go/types: every expression gets one of {mm, px, dpmm, 1/dpmm, number}; additions,
// subtractions and comparisons need equal units; mm*dpmm = px, px/dpmm = mm; arguments of the
// scanner sinks must be pixels, arguments of Gradient.At millimetres. Units of locals, parameters
// and struct fields are inferred to a fixpoint from a small seed set stated in the rule text.

import (
	"fmt"
	"go/ast"
	"go/token"
	"go/types"
	"sort"
	"strings"

	"canvascheck/internal/core"

	"golang.org/x/tools/go/packages"
)

type lunit int

const (
	luUnknown lunit = iota
	luNum           // dimensionless constant: adopts the unit of the other operand
	luMM
	luPX
	luDPMM
	luInvDPMM
	luBad // a product/quotient with no meaning here (px*dpmm, mm/dpmm)
)

func (u lunit) String() string {
	return [...]string{"unknown", "number", "mm", "px", "px/mm", "mm/px", "ill-formed"}[u]
}

type e12 struct {
	c    *core.Ctx
	r    *core.Report
	env  map[types.Object]lunit
	why  map[types.Object]string
	dirt bool
	// conflicts found while inferring (variable assigned two different units)
	conflicts map[string]string
	cpos      map[string]token.Pos
	// matrixParams: Matrix parameters never reassigned (they map into canvas millimetres)
	matrixParams map[types.Object]bool
}

func isNamed(t types.Type, pkgSuffix, name string) bool {
	if p, ok := t.(*types.Pointer); ok {
		t = p.Elem()
	}
	n, ok := t.(*types.Named)
	if !ok || n.Obj().Pkg() == nil {
		return false
	}
	return n.Obj().Name() == name && strings.HasSuffix(n.Obj().Pkg().Path(), pkgSuffix)
}

func (e *e12) set(o types.Object, u lunit, why string) {
	if o == nil || u == luUnknown || u == luNum || u == luBad {
		return
	}
	old := e.env[o]
	if old == luUnknown {
		e.env[o] = u
		e.why[o] = why
		e.dirt = true
		return
	}
	if old != u {
		k := fmt.Sprintf("%s %s", o.Name(), o.Type())
		if _, seen := e.conflicts[k]; !seen {
			e.conflicts[k] = fmt.Sprintf("holds %s (%s) and %s (%s)", old, e.why[o], u, why)
			e.cpos[k] = o.Pos()
		}
	}
}

// unit evaluates the unit of an expression; infer=true lets unknown identifiers adopt the unit an
// operator forces on them.
func (e *e12) unit(p *packages.Package, x ast.Expr, infer bool) lunit {
	info := p.TypesInfo
	x = core.Unparen(x)
	if tv, ok := info.Types[x]; ok && tv.Value != nil {
		// named constant canvas.PixelTolerance is a length in pixels
		if cn := core.ConstName(info, x); cn == "PixelTolerance" {
			return luPX
		}
		return luNum
	}
	// values whose type fixes the unit: image.Point / image.Rectangle are device pixels
	if t := info.TypeOf(x); t != nil {
		if isNamed(t, "image", "Point") || isNamed(t, "image", "Rectangle") {
			return luPX
		}
	}
	switch v := x.(type) {
	case *ast.Ident:
		return e.env[core.ObjOf(info, v)]
	case *ast.SelectorExpr:
		if sel := info.Selections[v]; sel != nil && sel.Kind() == types.FieldVal {
			f := sel.Obj()
			// fields of geometric values carry the value's unit; other struct fields have their own
			rt := sel.Recv()
			if isNamed(rt, "tdewolff/canvas", "Rect") || isNamed(rt, "tdewolff/canvas", "Point") || isNamed(rt, "image", "Point") || isNamed(rt, "image", "Rectangle") {
				return e.unit(p, v.X, infer)
			}
			if isNamed(rt, "tdewolff/canvas", "Canvas") && (f.Name() == "W" || f.Name() == "H") {
				return luMM
			}
			if isNamed(rt, "tdewolff/canvas", "Style") && f.Name() == "StrokeWidth" {
				return luMM
			}
			return e.env[f]
		}
		return luUnknown
	case *ast.IndexExpr:
		if core.IsPathDataSel(info, v.X) {
			return luMM // path data are canvas coordinates
		}
		return e.unit(p, v.X, infer)
	case *ast.UnaryExpr:
		return e.unit(p, v.X, infer)
	case *ast.CompositeLit:
		if t := info.TypeOf(v); t != nil && (isNamed(t, "tdewolff/canvas", "Point") || isNamed(t, "tdewolff/canvas", "Rect")) {
			u := luUnknown
			for _, el := range v.Elts {
				if kv, ok := el.(*ast.KeyValueExpr); ok {
					el = kv.Value
				}
				if eu := e.unit(p, el, infer); eu > luNum {
					u = eu
				}
			}
			return u
		}
		return luUnknown
	case *ast.CallExpr:
		// conversions keep the unit
		if tv, ok := info.Types[v.Fun]; ok && tv.IsType() && len(v.Args) == 1 {
			return e.unit(p, v.Args[0], infer)
		}
		f := core.CalleeOf(info, v)
		if f == nil {
			return luUnknown
		}
		q := core.QualifiedCallee(f)
		switch {
		case strings.HasSuffix(q, "canvas.Resolution.DPMM"):
			return luDPMM
		case strings.HasSuffix(q, "canvas.Path.FastBounds"), strings.HasSuffix(q, "canvas.Path.Bounds"),
			strings.HasSuffix(q, "canvas.Path.Copy"), strings.HasSuffix(q, "canvas.Path.Transform"),
			strings.HasSuffix(q, "canvas.Path.Stroke"), strings.HasSuffix(q, "canvas.Path.Dash"),
			strings.HasSuffix(q, "canvas.Rect.Add"), strings.HasSuffix(q, "canvas.HatchPattern.Tile"):
			if se, ok := v.Fun.(*ast.SelectorExpr); ok {
				if strings.HasSuffix(q, "Tile") && len(v.Args) == 1 {
					return e.unit(p, v.Args[0], infer)
				}
				return e.unit(p, se.X, infer)
			}
		case strings.HasSuffix(q, "canvas.Point.Mul") && len(v.Args) == 1:
			if se, ok := v.Fun.(*ast.SelectorExpr); ok {
				return mulUnit(e.unit(p, se.X, infer), e.unit(p, v.Args[0], infer))
			}
		case strings.HasSuffix(q, "canvas.Matrix.Dot"):
			// a Render* matrix maps into canvas millimetres as long as it is the unmodified parameter
			if se, ok := v.Fun.(*ast.SelectorExpr); ok {
				if id, ok := core.Unparen(se.X).(*ast.Ident); ok {
					if _, isParam := e.matrixParams[core.ObjOf(info, id)]; isParam {
						return luMM
					}
				}
			}
			return luUnknown
		case f.Pkg() != nil && f.Pkg().Path() == "math" && (f.Name() == "Min" || f.Name() == "Max" || f.Name() == "Abs" || f.Name() == "Floor" || f.Name() == "Ceil" || f.Name() == "Round"):
			u := luUnknown
			for _, a := range v.Args {
				if au := e.unit(p, a, infer); au > luNum {
					u = au
				}
			}
			return u
		case (f.Name() == "Size" || f.Name() == "Bounds" || f.Name() == "Dx" || f.Name() == "Dy") && f.Pkg() != nil && (f.Pkg().Path() == "image" || strings.HasSuffix(f.Pkg().Path(), "image/draw")):
			return luPX
		}
		// results of analysed functions: not tracked
		return luUnknown
	case *ast.BinaryExpr:
		a, b := e.unit(p, v.X, infer), e.unit(p, v.Y, infer)
		switch v.Op {
		case token.MUL:
			if infer {
				// unknown * dpmm: the unknown is a length in millimetres
				if b == luDPMM && a == luUnknown {
					e.adopt(p, v.X, luMM, "multiplied by DPMM")
					a = luMM
				} else if a == luDPMM && b == luUnknown {
					e.adopt(p, v.Y, luMM, "multiplied by DPMM")
					b = luMM
				}
			}
			return mulUnit(a, b)
		case token.QUO:
			if infer && b == luDPMM && a == luUnknown {
				e.adopt(p, v.X, luPX, "divided by DPMM")
				a = luPX
			}
			return divUnit(a, b)
		case token.ADD, token.SUB:
			if infer {
				if a > luNum && b == luUnknown {
					e.adopt(p, v.Y, a, "added to/subtracted from a value in "+a.String())
				} else if b > luNum && a == luUnknown {
					e.adopt(p, v.X, b, "added to/subtracted from a value in "+b.String())
				}
			}
			if a > luNum {
				return a
			}
			return b
		}
		return luUnknown
	}
	return luUnknown
}

func (e *e12) adopt(p *packages.Package, x ast.Expr, u lunit, why string) {
	if id, ok := core.Unparen(x).(*ast.Ident); ok {
		e.set(core.ObjOf(p.TypesInfo, id), u, why)
	}
}

func mulUnit(a, b lunit) lunit {
	switch {
	case a == luNum:
		return b
	case b == luNum:
		return a
	case a == luUnknown || b == luUnknown:
		return luUnknown
	case a == luMM && b == luDPMM, a == luDPMM && b == luMM:
		return luPX
	case a == luPX && b == luInvDPMM, a == luInvDPMM && b == luPX:
		return luMM
	case a == luDPMM && b == luInvDPMM, a == luInvDPMM && b == luDPMM:
		return luNum
	case a == luPX && b == luDPMM, a == luDPMM && b == luPX, a == luMM && b == luInvDPMM, a == luInvDPMM && b == luMM:
		return luBad // the conversion factor applied in the wrong direction
	}
	return luUnknown // areas and the like: not a length, not checked
}

func divUnit(a, b lunit) lunit {
	switch {
	case b == luNum:
		return a
	case a == luUnknown || b == luUnknown:
		return luUnknown
	case a == luNum && b == luDPMM:
		return luInvDPMM
	case a == luNum && b == luInvDPMM:
		return luDPMM
	case a == luPX && b == luDPMM:
		return luMM
	case a == luMM && b == luInvDPMM:
		return luPX
	case a == b:
		return luNum
	case a == luMM && b == luDPMM, a == luPX && b == luInvDPMM:
		return luBad // the conversion factor applied in the wrong direction
	}
	return luUnknown
}

// E12Units runs the analysis over the rasterizer package and the two scanner converters.
func E12Units(c *core.Ctx, r *core.Report) {
	r.Rule("E12.units", "millimetres and device pixels are not mixed in the rasterizing code (package renderers/rasterizer, Path.ToScanxScanner, Path.ToVectorRasterizer). Seeds: path data, *Path parameters and receivers, Canvas.W/H, Style.StrokeWidth and the result of a Render* matrix's Dot are millimetres; image.Point/image.Rectangle values, the (x, y int) parameters of a rasterx.ColorFunc literal and of an image.Image At method, and canvas.PixelTolerance are pixels; Resolution.DPMM() is pixels per millimetre. mm*dpmm = px, px/dpmm = mm; every +, - and comparison has operands of one unit; the scanner sinks (Start/Line/MoveTo/LineTo) take pixels, Gradient.At takes millimetres, a variable holds one unit. A violation means geometry or paint is placed with the wrong scale at every resolution other than 1 px/mm")
	e := &e12{c: c, r: r, env: map[types.Object]lunit{}, why: map[types.Object]string{}, conflicts: map[string]string{}, cpos: map[string]token.Pos{}, matrixParams: map[types.Object]bool{}}
	type fn struct {
		p  *packages.Package
		fd *ast.FuncDecl
	}
	var fns []fn
	ras := c.MustPkg("renderers/rasterizer")
	for _, fd := range core.AllFuncDecls(ras) {
		if fd.Body != nil {
			fns = append(fns, fn{ras, fd})
		}
	}
	root := c.MustPkg("")
	for _, name := range []string{"Path.ToScanxScanner", "Path.ToVectorRasterizer"} {
		fns = append(fns, fn{root, core.MustFuncDecl(root, name)})
	}
	// seeds from signatures
	for _, f := range fns {
		info := f.p.TypesInfo
		seedParams := func(ft *ast.FuncType, px bool) {
			for _, fl := range ft.Params.List {
				for _, nm := range fl.Names {
					o := info.Defs[nm]
					if o == nil {
						continue
					}
					switch {
					case isNamed(o.Type(), "tdewolff/canvas", "Path"):
						e.set(o, luMM, "a *Path parameter")
					case isNamed(o.Type(), "tdewolff/canvas", "Matrix"):
						e.matrixParams[o] = true
					case px:
						if b, ok := o.Type().Underlying().(*types.Basic); ok && b.Kind() == types.Int {
							e.set(o, luPX, "pixel coordinate parameter")
						}
					}
				}
			}
		}
		isAt := f.fd.Name.Name == "At" && f.fd.Recv != nil && f.fd.Type.Params.NumFields() == 2
		seedParams(f.fd.Type, isAt)
		if f.fd.Recv != nil {
			for _, nm := range f.fd.Recv.List[0].Names {
				if o := info.Defs[nm]; o != nil && isNamed(o.Type(), "tdewolff/canvas", "Path") {
					e.set(o, luMM, "a *Path receiver")
				}
			}
		}
		ast.Inspect(f.fd.Body, func(n ast.Node) bool {
			call, ok := n.(*ast.CallExpr)
			if !ok || len(call.Args) != 1 {
				return true
			}
			if tv, ok := info.Types[call.Fun]; ok && tv.IsType() {
				if isNamed(tv.Type, "rasterx", "ColorFunc") {
					if fl, ok := core.Unparen(call.Args[0]).(*ast.FuncLit); ok {
						seedParams(fl.Type, true)
					}
				}
			}
			return true
		})
	}
	// reassigned matrix parameters no longer map into millimetres for sure
	for _, f := range fns {
		info := f.p.TypesInfo
		ast.Inspect(f.fd.Body, func(n ast.Node) bool {
			if as, ok := n.(*ast.AssignStmt); ok && as.Tok == token.ASSIGN {
				for _, l := range as.Lhs {
					if id, ok := l.(*ast.Ident); ok {
						delete(e.matrixParams, core.ObjOf(info, id))
					}
				}
			}
			return true
		})
	}
	// inference to a fixpoint
	for round := 0; round < 10; round++ {
		e.dirt = false
		for _, f := range fns {
			info := f.p.TypesInfo
			ast.Inspect(f.fd.Body, func(n ast.Node) bool {
				switch x := n.(type) {
				case *ast.AssignStmt:
					if len(x.Lhs) == len(x.Rhs) {
						for i, l := range x.Lhs {
							u := e.unit(f.p, x.Rhs[i], true)
							switch lv := core.Unparen(l).(type) {
							case *ast.Ident:
								e.set(core.ObjOf(info, lv), u, "assigned "+types.ExprString(x.Rhs[i]))
							case *ast.SelectorExpr:
								if sel := info.Selections[lv]; sel != nil && sel.Kind() == types.FieldVal {
									e.set(sel.Obj(), u, "assigned "+types.ExprString(x.Rhs[i]))
								}
							}
						}
					}
				case *ast.ValueSpec:
					if len(x.Names) == len(x.Values) {
						for i, nm := range x.Names {
							e.set(info.Defs[nm], e.unit(f.p, x.Values[i], true), "initialised with "+types.ExprString(x.Values[i]))
						}
					}
				case *ast.CompositeLit:
					if st, ok := info.TypeOf(x).Underlying().(*types.Struct); ok && !isNamed(info.TypeOf(x), "tdewolff/canvas", "Point") && !isNamed(info.TypeOf(x), "tdewolff/canvas", "Rect") {
						for _, el := range x.Elts {
							kv, ok := el.(*ast.KeyValueExpr)
							if !ok {
								continue
							}
							k, ok := kv.Key.(*ast.Ident)
							if !ok {
								continue
							}
							for i := 0; i < st.NumFields(); i++ {
								if st.Field(i).Name() == k.Name {
									e.set(st.Field(i), e.unit(f.p, kv.Value, true), "field initialised with "+types.ExprString(kv.Value))
								}
							}
						}
					}
				case *ast.BinaryExpr:
					e.unit(f.p, x, true)
				}
				return true
			})
		}
		if !e.dirt {
			break
		}
	}
	// parameters of the analysed functions, for the call-site check
	params := map[*types.Func][]types.Object{}
	for _, f := range fns {
		if fo, ok := f.p.TypesInfo.Defs[f.fd.Name].(*types.Func); ok {
			var ps []types.Object
			for _, fl := range f.fd.Type.Params.List {
				for _, nm := range fl.Names {
					ps = append(ps, f.p.TypesInfo.Defs[nm])
				}
			}
			params[fo] = ps
		}
	}
	// checks
	sites := 0
	for _, f := range fns {
		fname := f.p.Types.Name() + "." + core.FuncName(f.fd)
		r.Func(fname)
		info := f.p.TypesInfo
		seen := map[string]int{}
		mk := func(kind string, n ast.Node) string {
			k := fmt.Sprintf("%s|%s|%s", fname, kind, c.Norm(f.p, n))
			seen[k]++
			if seen[k] > 1 {
				k += fmt.Sprintf(" #%d", seen[k])
			}
			return k
		}
		ast.Inspect(f.fd.Body, func(n ast.Node) bool {
			switch x := n.(type) {
			case *ast.BinaryExpr:
				a, b := e.unit(f.p, x.X, false), e.unit(f.p, x.Y, false)
				switch x.Op {
				case token.ADD, token.SUB, token.LSS, token.GTR, token.LEQ, token.GEQ, token.EQL, token.NEQ:
					if a > luNum && b > luNum {
						sites++
						key := mk("operands of "+x.Op.String(), x)
						if a != b {
							r.Fail("E12.units", key, c.Pos(x.Pos()), fmt.Sprintf("`%s` combines a value in %s (%s) with a value in %s (%s): the two agree only at 1 px/mm", types.ExprString(x), a, types.ExprString(x.X), b, types.ExprString(x.Y)))
						} else {
							r.OK("E12.units", key, c.Pos(x.Pos()), a.String())
						}
					}
				case token.MUL, token.QUO:
					if a > luNum && b > luNum {
						sites++
						key := mk("product/quotient", x)
						var u lunit
						if x.Op == token.MUL {
							u = mulUnit(a, b)
						} else {
							u = divUnit(a, b)
						}
						if u == luBad {
							r.Fail("E12.units", key, c.Pos(x.Pos()), fmt.Sprintf("`%s` is %s %s %s, which is neither millimetres nor pixels: the conversion factor is applied in the wrong direction or twice", types.ExprString(x), a, x.Op, b))
						} else {
							r.OK("E12.units", key, c.Pos(x.Pos()), u.String())
						}
					}
				}
			case *ast.CallExpr:
				fo := core.CalleeOf(info, x)
				if fo == nil {
					return true
				}
				q := core.QualifiedCallee(fo)
				want := luUnknown
				var args []ast.Expr
				switch {
				case fo.Name() == "At" && len(x.Args) == 2 && isGradientAt(fo):
					want, args = luMM, x.Args
				case strings.HasSuffix(q, "canvas.fixedPoint26_6") || (strings.Contains(q, "vector.Rasterizer.") && (fo.Name() == "MoveTo" || fo.Name() == "LineTo")):
					want, args = luPX, x.Args
				}
				for i, a := range args {
					u := e.unit(f.p, a, false)
					sites++
					key := mk(fmt.Sprintf("argument %d of %s", i+1, fo.Name()), a)
					switch {
					case u == want:
						r.OK("E12.units", key, c.Pos(a.Pos()), want.String())
					case u <= luNum:
						r.Fail("E12.units", key, c.Pos(a.Pos()), fmt.Sprintf("the unit of `%s`, which must be %s, cannot be derived", types.ExprString(a), want))
					default:
						r.Fail("E12.units", key, c.Pos(a.Pos()), fmt.Sprintf("`%s` is in %s but %s takes %s: the paint/geometry is placed with the wrong scale (and, for y, the wrong direction) at every resolution other than 1 px/mm", types.ExprString(a), u, fo.Name(), want))
					}
				}
				// calls of analysed functions: argument unit = parameter unit
				if ps, ok := params[fo]; ok {
					for i, a := range x.Args {
						if i >= len(ps) || ps[i] == nil {
							continue
						}
						pu, au := e.env[ps[i]], e.unit(f.p, a, false)
						if pu > luNum && au > luNum {
							sites++
							key := mk(fmt.Sprintf("argument %d of %s", i+1, fo.Name()), a)
							if pu != au {
								r.Fail("E12.units", key, c.Pos(a.Pos()), fmt.Sprintf("`%s` is in %s but parameter %d of %s is used as %s", types.ExprString(a), au, i+1, fo.Name(), pu))
							} else {
								r.OK("E12.units", key, c.Pos(a.Pos()), pu.String())
							}
						}
					}
				}
			}
			return true
		})
	}
	var ks []string
	for k := range e.conflicts {
		ks = append(ks, k)
	}
	sort.Strings(ks)
	for _, k := range ks {
		r.Fail("E12.units", "variable|"+k, c.Pos(e.cpos[k]), "a variable "+e.conflicts[k])
	}
	r.Count("E12.unit-sites", sites)
	r.Count("E12.functions", len(fns))
	r.Floor("E12.unit-sites", 20)
	tagged := 0
	for _, u := range e.env {
		if u > luNum {
			tagged++
		}
	}
	r.Count("E12.tagged-variables", tagged)
	r.Floor("E12.tagged-variables", 15)
}

// isGradientAt: the At method of canvas.Gradient (interface or implementation), taking float coordinates.
func isGradientAt(f *types.Func) bool {
	sig := f.Type().(*types.Signature)
	if sig.Params().Len() != 2 || f.Pkg() == nil || !strings.HasSuffix(f.Pkg().Path(), "tdewolff/canvas") {
		return false
	}
	b, ok := sig.Params().At(0).Type().Underlying().(*types.Basic)
	return ok && b.Kind() == types.Float64
}

// E12ColorSpaceOnce: a paint is converted to the rasterizer's linear working space exactly once.
func E12ColorSpaceOnce(c *core.Ctx, r *core.Report) {
	r.Rule("E12.colorspace-once", "the rasterizer blends in linear space: colours and patterns from the style are in the output colour space and are converted once — ColorSpace.ToLinear on a colour, SetColorSpace on a gradient or pattern (which converts the colours it holds) — and converted back once in Close. In the rasterizer package no value derived from the result of a SetColorSpace call (through type assertions, field selections and assignments, also into style.Fill/style.Stroke) is passed to ToLinear or to SetColorSpace again: a second conversion darkens every colour channel that is neither 0 nor 255")
	p := c.MustPkg("renderers/rasterizer")
	info := p.TypesInfo
	n := 0
	for _, fd := range core.AllFuncDecls(p) {
		if fd.Body == nil {
			continue
		}
		fname := "rasterizer." + core.FuncName(fd)
		// converted: locations (printed l-values and objects) holding values derived from SetColorSpace
		convObj := map[types.Object]bool{}
		convLoc := map[string]token.Pos{}
		isSetCS := func(e ast.Expr) bool {
			call, ok := core.Unparen(e).(*ast.CallExpr)
			if !ok {
				return false
			}
			se, ok := call.Fun.(*ast.SelectorExpr)
			return ok && se.Sel.Name == "SetColorSpace"
		}
		var derived func(e ast.Expr, at token.Pos) bool
		derived = func(e ast.Expr, at token.Pos) bool {
			e = core.Unparen(e)
			if isSetCS(e) {
				return true
			}
			switch x := e.(type) {
			case *ast.Ident:
				return convObj[core.ObjOf(info, x)]
			case *ast.SelectorExpr:
				if pos, ok := convLoc[types.ExprString(x)]; ok && pos < at {
					return true
				}
				return derived(x.X, at)
			case *ast.TypeAssertExpr:
				return derived(x.X, at)
			case *ast.StarExpr:
				return derived(x.X, at)
			case *ast.IndexExpr:
				return derived(x.X, at)
			}
			return false
		}
		for round := 0; round < 4; round++ {
			ast.Inspect(fd.Body, func(m ast.Node) bool {
				as, ok := m.(*ast.AssignStmt)
				if !ok {
					return true
				}
				for i, l := range as.Lhs {
					var rh ast.Expr
					if len(as.Lhs) == len(as.Rhs) {
						rh = as.Rhs[i]
					} else if len(as.Rhs) == 1 && i == 0 {
						rh = as.Rhs[0] // v, ok := x.(T)
					}
					if rh == nil || !derived(rh, as.Pos()) {
						continue
					}
					switch lv := core.Unparen(l).(type) {
					case *ast.Ident:
						if lv.Name != "_" {
							convObj[core.ObjOf(info, lv)] = true
						}
					case *ast.SelectorExpr:
						if _, seen := convLoc[types.ExprString(lv)]; !seen {
							convLoc[types.ExprString(lv)] = as.End()
						}
					}
				}
				return true
			})
		}
		ord := 0
		ast.Inspect(fd.Body, func(m ast.Node) bool {
			call, ok := m.(*ast.CallExpr)
			if !ok {
				return true
			}
			se, ok := call.Fun.(*ast.SelectorExpr)
			if !ok {
				return true
			}
			var subject ast.Expr
			switch se.Sel.Name {
			case "ToLinear":
				if len(call.Args) == 1 {
					subject = call.Args[0]
				}
			case "SetColorSpace":
				subject = se.X
			default:
				return true
			}
			if subject == nil {
				return true
			}
			n++
			ord++
			key := fmt.Sprintf("%s|%s #%d converts a value that is still in the output colour space", fname, se.Sel.Name, ord)
			if derived(subject, call.Pos()) {
				r.Fail("E12.colorspace-once", key, c.Pos(call.Pos()), fmt.Sprintf("`%s` is derived from the result of a SetColorSpace call, which has already been converted to the working space, and is converted again by %s", types.ExprString(subject), se.Sel.Name))
			} else {
				r.OK("E12.colorspace-once", key, c.Pos(call.Pos()), "")
			}
			return true
		})
	}
	r.Count("E12.colorspace-conversions", n)
	r.Floor("E12.colorspace-conversions", 4)
}
