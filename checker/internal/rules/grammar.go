package rules

import (
	"fmt"
	"go/ast"
	"go/constant"
	"go/token"
	"go/types"
	"sort"
	"strings"

	"canvascheck/internal/core"

	"golang.org/x/tools/go/packages"
)

// Content-stream grammar by abstract interpretation of the literal fragments a back-end writes
// (DESIGN.md §2 E5/E6 "operator grammar"). The domain is a set of configurations
// (pending token suffix, inside a string literal, q/Q depth, inside BT..ET). Control flow is
// interpreted path-insensitively per configuration set (so `if closed {" s"} else {" S"}`
// followed by `if evenOdd {"*"}` yields the pending tokens s, S, s*, S*). Calls to functions
// of the same package are inlined (bounded, no recursion); function literals passed to other
// packages (WalkSpans etc.) are interpreted as loop bodies.

type gramCfg struct {
	pend   string
	inStr  byte // 0, '(' or '<'
	depth  int8
	inText bool
	assume string // ";cond=T;cond=F" outcomes of repeated side-effect-free conditions
}

type gramState map[gramCfg]bool // nil = unreachable

type gramSpec struct {
	name      string
	pkgRel    string
	isStream  func(info *types.Info, e ast.Expr) bool // is this expression the content-stream writer?
	ops       map[string]bool
	hasText   bool // BT/ET/q/Q semantics (PDF)
	saveOp    string
	restoreOp string
	opaqueFns map[string]string // qualified callee -> literal emitted instead of analysing the body
}

type gramInterp struct {
	c      *core.Ctx
	r      *core.Report
	p      *packages.Package
	spec   *gramSpec
	rule   string
	entry  string
	stack  []string
	decls  map[*types.Func]*ast.FuncDecl
	locals []map[types.Object]*ast.FuncLit
	writes int
	tokens map[string]bool
	// cached: methods that memoise a graphics-state parameter in a receiver field (compare, emit, store)
	cached     map[*types.Func][]string
	cachedSeen map[string]bool
	// the bool field that mirrors the text-object state (set true where BT is written, false where ET is)
	textFlag     *types.Var
	textFlagDone bool
}

// textFlagField finds the struct field assigned `true` in the function that writes " BT" and `false` in the
// one that writes " ET": a test of it is decided by the interpreter's own BT/ET state.
func (g *gramInterp) textFlagField() *types.Var {
	if g.textFlagDone {
		return g.textFlag
	}
	g.textFlagDone = true
	info := g.p.TypesInfo
	setIn := func(op string, val string) map[*types.Var]bool {
		out := map[*types.Var]bool{}
		for _, fd := range core.AllFuncDecls(g.p) {
			if fd.Body == nil {
				continue
			}
			writes := false
			ast.Inspect(fd.Body, func(n ast.Node) bool {
				if lit, ok := n.(*ast.BasicLit); ok && lit.Kind == token.STRING && strings.TrimSpace(strings.Trim(lit.Value, "\"`")) == op {
					writes = true
				}
				return true
			})
			if !writes {
				continue
			}
			ast.Inspect(fd.Body, func(n ast.Node) bool {
				as, ok := n.(*ast.AssignStmt)
				if !ok || len(as.Lhs) != 1 || len(as.Rhs) != 1 {
					return true
				}
				id, ok := core.Unparen(as.Rhs[0]).(*ast.Ident)
				if !ok || id.Name != val {
					return true
				}
				if se, ok := core.Unparen(as.Lhs[0]).(*ast.SelectorExpr); ok {
					if sel := info.Selections[se]; sel != nil && sel.Kind() == types.FieldVal {
						if fv, ok := sel.Obj().(*types.Var); ok {
							out[fv] = true
						}
					}
				}
				return true
			})
		}
		return out
	}
	on, off := setIn("BT", "true"), setIn("ET", "false")
	for fv := range on {
		if off[fv] {
			g.textFlag = fv
		}
	}
	return g.textFlag
}

func gramDead() gramState { return nil }

func gramJoin(a, b gramState) gramState {
	if a == nil {
		return b
	}
	if b == nil {
		return a
	}
	out := gramState{}
	for k := range a {
		out[k] = true
	}
	for k := range b {
		out[k] = true
	}
	return out
}

func gramEqual(a, b gramState) bool {
	if len(a) != len(b) || (a == nil) != (b == nil) {
		return false
	}
	for k := range a {
		if !b[k] {
			return false
		}
	}
	return true
}

var pdfOperators = func() map[string]bool {
	m := map[string]bool{}
	for _, op := range strings.Fields(`b B b* B* BDC BI BMC BT BX c cm CS cs d d0 d1 Do DP EI EMC ET EX f F f* G g gs h i ID j J K k l m M MP n q Q re RG rg ri s S SC sc SCN scn sh T* Tc Td TD Tf Tj TJ TL Tm Tr Ts Tw Tz v w W W* y ' "`) {
		m[op] = true
	}
	return m
}()

var pdfTextOnly = map[string]bool{"Td": true, "TD": true, "Tm": true, "T*": true, "Tj": true, "TJ": true, "'": true, "\"": true}
var pdfPathOps = map[string]bool{"m": true, "l": true, "c": true, "v": true, "y": true, "h": true, "re": true, "S": true, "s": true, "f": true, "F": true, "f*": true, "B": true, "B*": true, "b": true, "b*": true, "n": true, "W": true, "W*": true}

func isOperand(tok string) bool {
	if tok == "¤" || tok == "true" || tok == "false" || tok == "null" {
		return true
	}
	if strings.HasPrefix(tok, "/") {
		return true
	}
	for _, ch := range tok {
		if !strings.ContainsRune("§0123456789.+-", ch) {
			return false
		}
	}
	return tok != ""
}

func (g *gramInterp) fail(key, pos, msg string) {
	g.r.Fail(g.rule, g.entry+"|"+key, pos, msg, "entry point: "+g.entry, "inlined through: "+strings.Join(g.stack, " -> "))
}

// complete validates a finished token and applies its semantics.
func (g *gramInterp) complete(cfg gramCfg, pos string) (gramCfg, bool) {
	tok := cfg.pend
	cfg.pend = ""
	if tok == "" {
		return cfg, true
	}
	g.tokens[tok] = true
	if isOperand(tok) {
		return cfg, true
	}
	if !g.spec.ops[tok] {
		g.fail("token "+tok, pos, fmt.Sprintf("the emitted fragments can form the token %q, which is not an operator of the %s content-stream vocabulary", tok, g.spec.name))
		return cfg, true
	}
	switch {
	case tok == g.spec.saveOp:
		if cfg.depth < 6 {
			cfg.depth++
		}
		return cfg, true
	case tok == g.spec.restoreOp:
		if cfg.depth <= 0 {
			g.fail("unbalanced "+tok, pos, "a "+tok+" (restore) can be emitted without a matching "+g.spec.saveOp+" (save)")
		} else {
			cfg.depth--
		}
		return cfg, true
	}
	if g.spec.hasText {
		switch {
		case tok == "BT":
			if cfg.inText {
				g.fail("nested BT", pos, "BT can be emitted inside a text object")
			}
			cfg.inText = true
		case tok == "ET":
			if !cfg.inText {
				g.fail("ET outside text", pos, "ET can be emitted outside a text object")
			}
			cfg.inText = false
		case pdfTextOnly[tok]:
			if !cfg.inText {
				g.fail("text operator outside BT..ET: "+tok, pos, fmt.Sprintf("text operator %s can be emitted outside a BT … ET text object", tok))
			}
		case pdfPathOps[tok]:
			if cfg.inText {
				g.fail("path operator inside BT..ET: "+tok, pos, fmt.Sprintf("path operator %s can be emitted inside a text object", tok))
			}
		}
	}
	return cfg, true
}

// emit feeds literal text into every configuration.
func (g *gramInterp) emit(in gramState, text string, pos string) gramState {
	if in == nil {
		return nil
	}
	g.writes++
	text = strings.NewReplacer("<<", " ", ">>", " ").Replace(text)
	out := gramState{}
	for cfg := range in {
		cur := cfg
		for _, ch := range text {
			if cur.inStr != 0 {
				if (cur.inStr == '(' && ch == ')') || (cur.inStr == '<' && ch == '>') {
					cur.inStr = 0
				}
				continue
			}
			switch ch {
			case ' ', '\n', '\t', '\r':
				cur, _ = g.complete(cur, pos)
			case '[', ']':
				cur, _ = g.complete(cur, pos)
			case '(', '<':
				cur, _ = g.complete(cur, pos)
				cur.inStr = byte(ch)
			case ')', '>':
				g.fail("stray "+string(ch), pos, "a closing string delimiter can be emitted outside a string")
			case '/':
				cur, _ = g.complete(cur, pos)
				cur.pend = "/"
			case '{', '}':
				cur, _ = g.complete(cur, pos)
			default:
				if len(cur.pend) < 24 {
					cur.pend += string(ch)
				}
			}
		}
		out[cur] = true
	}
	if len(out) > 256 {
		g.fail("state explosion", pos, "more than 256 configurations; the grammar rule cannot decide this function")
	}
	return out
}

// formatToText replaces fmt verbs by the operand placeholder.
func formatToText(format string) string {
	var b strings.Builder
	for i := 0; i < len(format); i++ {
		ch := format[i]
		if ch != '%' {
			b.WriteByte(ch)
			continue
		}
		i++
		if i >= len(format) {
			break
		}
		if format[i] == '%' {
			b.WriteByte('%')
			continue
		}
		for i < len(format) && strings.ContainsRune("+-# 0123456789.*", rune(format[i])) {
			i++
		}
		b.WriteString("§")
	}
	return b.String()
}

func (g *gramInterp) localLit(o types.Object) *ast.FuncLit {
	for i := len(g.locals) - 1; i >= 0; i-- {
		if fl, ok := g.locals[i][o]; ok {
			return fl
		}
	}
	return nil
}

// body interprets a function body (declaration or literal) from state in and returns the join of its exits.
func (g *gramInterp) body(b *ast.BlockStmt, in gramState, name string) gramState {
	if in == nil {
		return nil
	}
	// the caller's assumptions are about the caller's variables: run the callee once per
	// assumption group with the assumptions set aside, and put them back on its exits
	groups := map[string]gramState{}
	for cfg := range in {
		a := cfg.assume
		cfg.assume = ""
		if groups[a] == nil {
			groups[a] = gramState{}
		}
		groups[a][cfg] = true
	}
	keys := make([]string, 0, len(groups))
	for k := range groups {
		keys = append(keys, k)
	}
	sort.Strings(keys)
	var out gramState
	for _, k := range keys {
		ex := g.bodyGroup(b, groups[k], name)
		for cfg := range ex {
			cfg.assume = k
			if out == nil {
				out = gramState{}
			}
			out[cfg] = true
		}
	}
	return out
}

func (g *gramInterp) bodyGroup(b *ast.BlockStmt, in gramState, name string) gramState {
	g.stack = append(g.stack, name)
	locals := map[types.Object]*ast.FuncLit{}
	// closures bound to local variables
	ast.Inspect(b, func(n ast.Node) bool {
		if as, ok := n.(*ast.AssignStmt); ok && len(as.Lhs) == len(as.Rhs) {
			for i, l := range as.Lhs {
				if id, ok := l.(*ast.Ident); ok {
					if fl, ok := as.Rhs[i].(*ast.FuncLit); ok {
						locals[core.ObjOf(g.p.TypesInfo, id)] = fl
					}
				}
			}
		}
		return true
	})
	g.locals = append(g.locals, locals)
	var exits gramState
	// conditions that occur more than once in this body are tracked path-sensitively
	condCount := map[string]int{}
	ast.Inspect(b, func(n ast.Node) bool {
		if is, ok := n.(*ast.IfStmt); ok && pureCond(is.Cond) {
			condCount[types.ExprString(is.Cond)]++
		}
		return true
	})
	entry := in
	dropAssumptions := func(s gramState, names map[string]bool) gramState {
		if s == nil {
			return nil
		}
		out := gramState{}
		for cfg := range s {
			if cfg.assume != "" {
				var keep []string
				for _, part := range strings.Split(cfg.assume, ";") {
					if part == "" {
						continue
					}
					cond := part[:len(part)-2]
					hit := false
					for n := range names {
						if condMentions(cond, n) {
							hit = true
						}
					}
					if !hit {
						keep = append(keep, part)
					}
				}
				cfg.assume = ""
				if len(keep) > 0 {
					cfg.assume = ";" + strings.Join(keep, ";")
				}
			}
			out[cfg] = true
		}
		return out
	}
	fl := &core.Flow[gramState]{
		Join:   gramJoin,
		Equal:  gramEqual,
		Dead:   gramDead,
		IsDead: func(s gramState) bool { return s == nil },
		Exit:   func(at ast.Node, s gramState) { exits = gramJoin(exits, s) },
		Expr:   func(e ast.Expr, s gramState) gramState { return g.expr(e, s) },
		Stmt: func(st ast.Stmt, s gramState) (gramState, bool) {
			switch x := st.(type) {
			case *ast.AssignStmt:
				// binding a closure to a variable does not run it
				if len(x.Rhs) == 1 {
					if _, ok := x.Rhs[0].(*ast.FuncLit); ok {
						return s, true
					}
				}
				names := map[string]bool{}
				for _, l := range x.Lhs {
					names[types.ExprString(l)] = true
					if id := core.RootIdent(l); id != nil {
						names[id.Name] = true
					}
				}
				for _, rhs := range x.Rhs {
					s = g.expr(rhs, s)
				}
				return dropAssumptions(s, names), true
			case *ast.IncDecStmt:
				return dropAssumptions(s, map[string]bool{types.ExprString(x.X): true}), true
			}
			return s, false
		},
		Split: func(cond ast.Expr, s gramState) (gramState, gramState, bool) {
			// a test of the field that mirrors the text-object state is decided by that state
			if g.spec.hasText && s != nil {
				e, neg := core.Unparen(cond), false
				if u, ok := e.(*ast.UnaryExpr); ok && u.Op == token.NOT {
					e, neg = core.Unparen(u.X), true
				}
				if se, ok := e.(*ast.SelectorExpr); ok {
					if sel := g.p.TypesInfo.Selections[se]; sel != nil && sel.Kind() == types.FieldVal && sel.Obj() == types.Object(g.textFlagField()) && g.textFlagField() != nil {
						var t, f gramState
						for cfg := range s {
							// a token is only accounted for when the next one starts: a pending BT/ET has
							// already changed the flag
							eff := cfg.inText
							switch strings.TrimSpace(cfg.pend) {
							case "BT":
								eff = true
							case "ET":
								eff = false
							}
							if eff != neg {
								if t == nil {
									t = gramState{}
								}
								t[cfg] = true
							} else {
								if f == nil {
									f = gramState{}
								}
								f[cfg] = true
							}
						}
						return t, f, true
					}
				}
			}
			key := types.ExprString(cond)
			if condCount[key] < 2 || s == nil {
				return nil, nil, false
			}
			t, f := gramState{}, gramState{}
			for cfg := range s {
				switch {
				case strings.Contains(cfg.assume, ";"+key+"=T"):
					t[cfg] = true
				case strings.Contains(cfg.assume, ";"+key+"=F"):
					f[cfg] = true
				default:
					ct, cf := cfg, cfg
					ct.assume += ";" + key + "=T"
					cf.assume += ";" + key + "=F"
					t[ct] = true
					f[cf] = true
				}
			}
			var tt, ff gramState = t, f
			if len(t) == 0 {
				tt = nil
			}
			if len(f) == 0 {
				ff = nil
			}
			return tt, ff, true
		},
	}
	fl.Run(b, entry)
	// leaving the body: the callee's assumptions are about its own variables
	if exits != nil {
		out := gramState{}
		for cfg := range exits {
			cfg.assume = ""
			out[cfg] = true
		}
		exits = out
	}
	g.locals = g.locals[:len(g.locals)-1]
	g.stack = g.stack[:len(g.stack)-1]
	return exits
}

// pureCond: a condition made of identifiers, selectors, constants, comparisons, !, && and ||
// and calls of niladic methods on identifiers/selectors (style.HasFill()).
func pureCond(e ast.Expr) bool {
	ok := true
	ast.Inspect(e, func(n ast.Node) bool {
		switch x := n.(type) {
		case *ast.CallExpr:
			if len(x.Args) != 0 {
				ok = false
			}
		case *ast.FuncLit, *ast.TypeAssertExpr, *ast.IndexExpr:
			ok = false
		}
		return ok
	})
	return ok
}

// condMentions reports whether the printed condition mentions the (possibly dotted) name as a whole word.
func condMentions(cond, name string) bool {
	for i := 0; i+len(name) <= len(cond); i++ {
		if cond[i:i+len(name)] != name {
			continue
		}
		before := i == 0 || !isWordByte(cond[i-1])
		after := i+len(name) == len(cond) || !isWordByte(cond[i+len(name)])
		if before && after {
			return true
		}
	}
	return false
}

func isWordByte(b byte) bool {
	return b == '_' || b >= '0' && b <= '9' || b >= 'a' && b <= 'z' || b >= 'A' && b <= 'Z'
}

func (g *gramInterp) onStack(name string) bool {
	for _, s := range g.stack {
		if s == name {
			return true
		}
	}
	return false
}

// expr interprets the calls inside an expression in evaluation order.
func (g *gramInterp) expr(e ast.Expr, in gramState) gramState {
	if in == nil || e == nil {
		return in
	}
	info := g.p.TypesInfo
	s := in
	switch x := core.Unparen(e).(type) {
	case *ast.CallExpr:
		// receiver / function expression first (method chains), then arguments
		if se, ok := x.Fun.(*ast.SelectorExpr); ok {
			s = g.expr(se.X, s)
		}
		var litArgs []*ast.FuncLit
		for _, a := range x.Args {
			if fl, ok := core.Unparen(a).(*ast.FuncLit); ok {
				litArgs = append(litArgs, fl)
				continue
			}
			s = g.expr(a, s)
		}
		pos := g.c.Pos(x.Pos())
		// write sites
		if text, opaque, ok := g.writeSite(x); ok {
			if opaque {
				// a local that only ever holds string constants stands for each of them
				if alts := g.localStringValues(x); len(alts) > 0 {
					out := gramState{}
					for _, a := range alts {
						for cfg := range g.emit(s, a, pos) {
							out[cfg] = true
						}
					}
					return out
				}
				return g.emit(s, "¤", pos)
			}
			return g.emit(s, text, pos)
		}
		// local closure call
		if id, ok := x.Fun.(*ast.Ident); ok {
			if fl := g.localLit(core.ObjOf(info, id)); fl != nil {
				name := fmt.Sprintf("closure %s", id.Name)
				if g.onStack(name) || len(g.stack) > 10 {
					return s
				}
				return g.body(fl.Body, s, name)
			}
		}
		f := core.CalleeOf(info, x)
		if f != nil {
			q := core.QualifiedCallee(f)
			if lit, ok := g.spec.opaqueFns[q]; ok {
				return g.emit(s, lit, pos)
			}
			if fields := g.cached[f]; len(fields) > 0 {
				g.cachedSeen[core.FuncName(g.decls[f])] = true
				for cfg := range s {
					d := int(cfg.depth)
					if cfg.pend == g.spec.saveOp {
						d++
					} else if cfg.pend == g.spec.restoreOp {
						d--
					}
					if d > 0 {
						g.fail("cached state set inside "+g.spec.saveOp+"/"+g.spec.restoreOp+"|"+core.FuncName(g.decls[f]), pos, fmt.Sprintf("%s memoises the graphics-state parameter it emits in %s and is called between %s and %s: %s reverts the parameter in the interpreter but not the memo, so the next call with the same value emits nothing and the drawing that follows uses the value from before the %s", core.FuncName(g.decls[f]), strings.Join(fields, ", "), g.spec.saveOp, g.spec.restoreOp, g.spec.restoreOp, g.spec.saveOp))
						break
					}
				}
			}
			if fd := g.decls[f]; fd != nil && g.touchesStream(fd) {
				name := core.FuncName(fd)
				if g.onStack(name) {
					// re-entrant call (RenderViewTo -> RenderPath …): must happen in the neutral state
					g.requireNeutral(s, pos, "recursive call of "+name)
					return s
				}
				if len(g.stack) > 10 {
					g.fail("inline depth", pos, "call chain too deep to inline")
					return s
				}
				out := g.body(fd.Body, s, name)
				return out
			}
			// a call that can re-enter the renderer through the Renderer interface
			if f.Name() == "RenderViewTo" || f.Name() == "RenderTo" {
				g.requireNeutral(s, pos, "re-entrant "+f.Name())
				return s
			}
		}
		// function literals handed to other code run zero or more times
		for _, fl := range litArgs {
			name := fmt.Sprintf("callback@%s", g.c.Pos(fl.Pos()))
			fix := s
			for i := 0; i < 8; i++ {
				out := g.body(fl.Body, fix, name)
				next := gramJoin(fix, out)
				if gramEqual(next, fix) {
					break
				}
				fix = next
			}
			s = fix
		}
		return s
	case *ast.BinaryExpr:
		s = g.expr(x.X, s)
		if x.Op == token.LAND || x.Op == token.LOR {
			return gramJoin(s, g.expr(x.Y, s))
		}
		return g.expr(x.Y, s)
	case *ast.UnaryExpr:
		return g.expr(x.X, s)
	case *ast.SelectorExpr:
		return g.expr(x.X, s)
	case *ast.IndexExpr:
		return g.expr(x.Index, g.expr(x.X, s))
	case *ast.SliceExpr:
		return g.expr(x.X, s)
	case *ast.StarExpr:
		return g.expr(x.X, s)
	case *ast.TypeAssertExpr:
		return g.expr(x.X, s)
	case *ast.CompositeLit:
		for _, el := range x.Elts {
			if kv, ok := el.(*ast.KeyValueExpr); ok {
				s = g.expr(kv.Value, s)
			} else {
				s = g.expr(el, s)
			}
		}
		return s
	case *ast.KeyValueExpr:
		return g.expr(x.Value, s)
	}
	return s
}

func (g *gramInterp) requireNeutral(s gramState, pos, what string) {
	for cfg := range s {
		fin, _ := g.complete(cfg, pos) // the callee starts with a separator, so the pending token completes
		if fin.inStr != 0 || fin.inText {
			g.fail("non-neutral state at "+what, pos, fmt.Sprintf("%s can happen inside a string or text object", what))
		}
	}
}

// touchesStream reports whether a function of the package can write to the stream (has the
// stream writer as receiver/parameter, or reaches it through its receiver).
func (g *gramInterp) touchesStream(fd *ast.FuncDecl) bool {
	info := g.p.TypesInfo
	found := false
	ast.Inspect(fd.Body, func(n ast.Node) bool {
		if call, ok := n.(*ast.CallExpr); ok {
			if _, _, ok := g.writeSite(call); ok {
				found = true
			}
			if f := core.CalleeOf(info, call); f != nil {
				if _, ok := g.spec.opaqueFns[core.QualifiedCallee(f)]; ok {
					found = true
				}
				if fd2 := g.decls[f]; fd2 != nil && fd2 != fd {
					// one level is enough for this code base: setters call Fprintf directly;
					// deeper chains are found because the caller itself is inlined
					ast.Inspect(fd2.Body, func(m ast.Node) bool {
						if c2, ok := m.(*ast.CallExpr); ok {
							if _, _, ok := g.writeSite(c2); ok {
								found = true
							}
							if f3 := core.CalleeOf(info, c2); f3 != nil {
								if fd3 := g.decls[f3]; fd3 != nil && fd3 != fd2 && fd3 != fd {
									ast.Inspect(fd3.Body, func(k ast.Node) bool {
										if c3, ok := k.(*ast.CallExpr); ok {
											if _, _, ok := g.writeSite(c3); ok {
												found = true
											}
										}
										return !found
									})
								}
							}
						}
						return !found
					})
				}
			}
		}
		return !found
	})
	return found
}

// writeSite recognises fmt.Fprintf(stream, format, …), stream.Write([]byte(x)), stream.WriteString(x), stream.WriteByte(c).
func (g *gramInterp) writeSite(call *ast.CallExpr) (text string, opaque bool, ok bool) {
	info := g.p.TypesInfo
	f := core.CalleeOf(info, call)
	if f == nil {
		return "", false, false
	}
	switch {
	case f.Pkg() != nil && f.Pkg().Path() == "fmt" && (f.Name() == "Fprintf" || f.Name() == "Fprint") && len(call.Args) >= 2:
		if !g.spec.isStream(info, call.Args[0]) {
			return "", false, false
		}
		if s, isConst := constString(info, call.Args[1]); isConst {
			if f.Name() == "Fprintf" {
				return formatToText(s), false, true
			}
			return s, false, true
		}
		return "", true, true
	case (f.Name() == "Write" || f.Name() == "WriteString" || f.Name() == "WriteByte" || f.Name() == "WriteRune") && len(call.Args) == 1:
		se, isSel := call.Fun.(*ast.SelectorExpr)
		if !isSel || !g.spec.isStream(info, se.X) {
			return "", false, false
		}
		arg := core.Unparen(call.Args[0])
		if conv, isCall := arg.(*ast.CallExpr); isCall && len(conv.Args) == 1 {
			if tv, isT := info.Types[conv.Fun]; isT && tv.IsType() {
				arg = core.Unparen(conv.Args[0])
			}
		}
		if s, isConst := constString(info, arg); isConst {
			return s, false, true
		}
		if v := core.ConstVal(info, arg); v != nil {
			if i, isInt := core.ConstInt(info, arg); isInt {
				return string(rune(i)), false, true
			}
		}
		return "", true, true
	}
	return "", false, false
}

// localStringValues: for a write site whose argument is (a conversion of) a local variable every definition of
// which, in the function that declares it, is a string constant, the sorted set of those constants; nil otherwise.
func (g *gramInterp) localStringValues(call *ast.CallExpr) []string {
	info := g.p.TypesInfo
	if len(call.Args) == 0 {
		return nil
	}
	arg := core.Unparen(call.Args[len(call.Args)-1])
	if conv, isCall := arg.(*ast.CallExpr); isCall && len(conv.Args) == 1 {
		if tv, isT := info.Types[conv.Fun]; isT && tv.IsType() {
			arg = core.Unparen(conv.Args[0])
		}
	}
	id, ok := arg.(*ast.Ident)
	if !ok {
		return nil
	}
	obj, ok := core.ObjOf(info, id).(*types.Var)
	if !ok || obj.IsField() || obj.Parent() == g.p.Types.Scope() {
		return nil
	}
	var home *ast.FuncDecl
	for _, fd := range g.decls {
		if fd.Body != nil && fd.Body.Pos() <= obj.Pos() && obj.Pos() < fd.Body.End() {
			home = fd
		}
	}
	if home == nil {
		return nil // a parameter or a variable of another package
	}
	vals := map[string]bool{}
	good := true
	var suffixes []string // constants appended with +=
	var loops []ast.Node
	ast.Inspect(home.Body, func(n ast.Node) bool {
		switch n.(type) {
		case *ast.ForStmt, *ast.RangeStmt:
			loops = append(loops, n)
		}
		return true
	})
	inLoop := func(n ast.Node) bool {
		for _, l := range loops {
			if l.Pos() <= n.Pos() && n.End() <= l.End() {
				return true
			}
		}
		return false
	}
	add := func(e ast.Expr) {
		// []byte("…") of a constant is that constant
		if conv, isCall := core.Unparen(e).(*ast.CallExpr); isCall && len(conv.Args) == 1 {
			if tv, isT := info.Types[conv.Fun]; isT && tv.IsType() {
				e = core.Unparen(conv.Args[0])
			}
		}
		if s, isConst := constString(info, e); isConst {
			vals[s] = true
		} else {
			good = false
		}
	}
	ast.Inspect(home.Body, func(n ast.Node) bool {
		switch x := n.(type) {
		case *ast.AssignStmt:
			for i, l := range x.Lhs {
				if lid, ok := l.(*ast.Ident); ok && core.ObjOf(info, lid) == obj {
					switch {
					case len(x.Lhs) != len(x.Rhs):
						good = false
					case x.Tok == token.ASSIGN || x.Tok == token.DEFINE:
						add(x.Rhs[i])
					case x.Tok == token.ADD_ASSIGN:
						if sfx, isConst := constString(info, x.Rhs[i]); isConst && !inLoop(x) {
							suffixes = append(suffixes, sfx)
						} else {
							good = false
						}
					default:
						good = false
					}
				}
			}
		case *ast.ValueSpec:
			for i, nm := range x.Names {
				if info.Defs[nm] == obj {
					if i < len(x.Values) {
						add(x.Values[i])
					} else {
						vals[""] = true
					}
				}
			}
		case *ast.UnaryExpr:
			if x.Op == token.AND {
				if aid, ok := core.Unparen(x.X).(*ast.Ident); ok && core.ObjOf(info, aid) == obj {
					good = false
				}
			}
		case *ast.RangeStmt:
			for _, e := range []ast.Expr{x.Key, x.Value} {
				if rid, ok := e.(*ast.Ident); ok && core.ObjOf(info, rid) == obj {
					good = false
				}
			}
		}
		return true
	})
	if !good || len(vals) == 0 {
		return nil
	}
	// each += outside a loop runs at most once, in source order (one inside a loop gives up)
	for _, sfx := range suffixes {
		var add []string
		for v := range vals {
			add = append(add, v+sfx)
		}
		for _, v := range add {
			vals[v] = true
		}
	}
	var out []string
	for v := range vals {
		out = append(out, v)
	}
	sort.Strings(out)
	return out
}

// runGrammar interprets each entry point from the neutral state and requires a neutral state at every exit.
func runGrammar(c *core.Ctx, r *core.Report, spec *gramSpec, rule string, entries []string) {
	p := c.MustPkg(spec.pkgRel)
	decls := map[*types.Func]*ast.FuncDecl{}
	for _, fd := range core.AllFuncDecls(p) {
		if f, ok := p.TypesInfo.Defs[fd.Name].(*types.Func); ok {
			decls[f] = fd
		}
	}
	allTokens := map[string]bool{}
	cached := cachedSetters(p, decls)
	cachedSeen := map[string]bool{}
	for _, e := range entries {
		fd := core.MustFuncDecl(p, e)
		g := &gramInterp{c: c, r: r, p: p, spec: spec, rule: rule, entry: spec.pkgRel + "." + e, decls: decls, tokens: map[string]bool{}, cached: cached, cachedSeen: cachedSeen}
		r.Func(g.entry)
		before := len(r.Findings)
		// the previous emission may have left a complete operator pending: start with an opaque
		// pending token so that an entry whose first fragment lacks a separator is caught
		out := g.body(fd.Body, gramState{gramCfg{pend: "¤"}: true}, e)
		// at exit every pending token must be complete and the typestate neutral
		for cfg := range out {
			pos := c.Pos(fd.End())
			fin, _ := g.complete(cfg, pos)
			if fin.inStr != 0 {
				g.fail("unterminated string", pos, "the function can return inside a string literal")
			}
			if spec.hasText && fin.inText {
				g.fail("BT without ET", pos, "the function can return inside a text object (BT without ET)")
			}
			if fin.depth != 0 {
				g.fail(spec.saveOp+" without "+spec.restoreOp, pos, "the function can return with an unbalanced "+spec.saveOp+" (save) on the stack")
			}
		}
		r.Count(rule+":writes", g.writes)
		r.Count(rule+":configurations:"+e, len(out))
		for t := range g.tokens {
			allTokens[t] = true
		}
		if len(r.Findings) == before {
			var toks []string
			for t := range g.tokens {
				if !isOperand(t) {
					toks = append(toks, t)
				}
			}
			sort.Strings(toks)
			r.OK(rule, g.entry, c.Pos(fd.Pos()), fmt.Sprintf("%d exit configurations; operators: %s", len(out), strings.Join(toks, " ")))
		}
	}
	var ops []string
	for t := range allTokens {
		if !isOperand(t) {
			ops = append(ops, t)
		}
	}
	sort.Strings(ops)
	r.Count(rule+":memoising-setters", len(cached))
	r.Count(rule+":memoising-setters-called", len(cachedSeen))
	r.Floor(rule+":memoising-setters-called", 5)
	r.Count(rule+":distinct-operators", len(ops))
	r.Note("%s operators formed: %s", rule, strings.Join(ops, " "))
}

// cachedSetters finds the methods that memoise an emitted graphics-state parameter: the method
// compares a field of its receiver in a condition and assigns that same field.
func cachedSetters(p *packages.Package, decls map[*types.Func]*ast.FuncDecl) map[*types.Func][]string {
	info := p.TypesInfo
	out := map[*types.Func][]string{}
	for f, fd := range decls {
		if fd.Recv == nil || len(fd.Recv.List) == 0 || len(fd.Recv.List[0].Names) == 0 || fd.Body == nil {
			continue
		}
		recv := info.Defs[fd.Recv.List[0].Names[0]]
		if recv == nil {
			continue
		}
		fieldOf := func(e ast.Expr) string {
			sel, ok := core.Unparen(e).(*ast.SelectorExpr)
			if !ok {
				return ""
			}
			id, ok := core.Unparen(sel.X).(*ast.Ident)
			if !ok || core.ObjOf(info, id) != recv {
				return ""
			}
			if s := info.Selections[sel]; s == nil || s.Kind() != types.FieldVal {
				return ""
			}
			return sel.Sel.Name
		}
		compared := map[string]bool{}
		assigned := map[string]bool{}
		ast.Inspect(fd.Body, func(n ast.Node) bool {
			switch x := n.(type) {
			case *ast.IfStmt:
				ast.Inspect(x.Cond, func(m ast.Node) bool {
					if e, ok := m.(ast.Expr); ok {
						if fn := fieldOf(e); fn != "" {
							compared[fn] = true
						}
					}
					return true
				})
			case *ast.AssignStmt:
				if x.Tok == token.ASSIGN {
					for _, l := range x.Lhs {
						if fn := fieldOf(l); fn != "" {
							assigned[fn] = true
						}
					}
				}
			}
			return true
		})
		var fields []string
		for fn := range assigned {
			if compared[fn] {
				fields = append(fields, fn)
			}
		}
		sort.Strings(fields)
		if len(fields) > 0 {
			out[f] = fields
		}
	}
	return out
}

// E6MemoIndependent: a setter that memoises two graphics-state parameters checks each of them on its own.
func E6MemoIndependent(c *core.Ctx, r *core.Report) {
	r.Rule("E6.memo-independent", "in the PDF and PostScript writers a setter that memoises more than one graphics-state parameter (line join and miter limit; dash array and phase) emits and remembers each parameter whenever *that* parameter differs from its memo. The test of one memo field may not sit in the else-branch of the test of another: when the first parameter changes, the second would neither be written nor remembered, and the viewer keeps a stale value (a miter stroke after a round one would be drawn with the previous miter limit)")
	n := 0
	for _, rel := range []string{"renderers/pdf", "renderers/ps"} {
		p := c.MustPkg(rel)
		info := p.TypesInfo
		decls := map[*types.Func]*ast.FuncDecl{}
		for _, fd := range core.AllFuncDecls(p) {
			if f, ok := info.Defs[fd.Name].(*types.Func); ok {
				decls[f] = fd
			}
		}
		for f, fields := range cachedSetters(p, decls) {
			if len(fields) < 2 {
				continue
			}
			fd := decls[f]
			recv := info.Defs[fd.Recv.List[0].Names[0]]
			fieldsIn := func(e ast.Node) map[string]bool {
				out := map[string]bool{}
				ast.Inspect(e, func(m ast.Node) bool {
					if sel, ok := m.(*ast.SelectorExpr); ok {
						if id, ok := core.Unparen(sel.X).(*ast.Ident); ok && core.ObjOf(info, id) == recv {
							for _, fn := range fields {
								if sel.Sel.Name == fn {
									out[fn] = true
								}
							}
						}
					}
					return true
				})
				return out
			}
			n++
			key := fmt.Sprintf("%s.%s|memo fields %s are tested independently", p.Types.Name(), core.FuncName(fd), strings.Join(fields, ", "))
			bad := ""
			var badPos token.Pos
			ast.Inspect(fd.Body, func(m ast.Node) bool {
				is, ok := m.(*ast.IfStmt)
				if !ok || is.Else == nil {
					return true
				}
				a := fieldsIn(is.Cond)
				var elseCond ast.Expr
				var elseBody ast.Node
				if ei, ok := is.Else.(*ast.IfStmt); ok {
					elseCond, elseBody = ei.Cond, ei.Body
				}
				if elseCond == nil {
					return true
				}
				b := fieldsIn(elseCond)
				for fb := range b {
					if !a[fb] && len(a) > 0 && bad == "" {
						// the else-branch stores fb?
						stores := false
						ast.Inspect(elseBody, func(k ast.Node) bool {
							if as, ok := k.(*ast.AssignStmt); ok {
								for _, l := range as.Lhs {
									if fieldsIn(l)[fb] {
										stores = true
									}
								}
							}
							return true
						})
						if stores {
							var other []string
							for fa := range a {
								other = append(other, fa)
							}
							sort.Strings(other)
							bad = fmt.Sprintf("the memo `%s` is only compared and updated when `%s` did not change (else-branch of its test)", fb, strings.Join(other, ", "))
							badPos = ei0(is.Else).Pos()
						}
					}
				}
				return true
			})
			if bad == "" {
				r.OK("E6.memo-independent", key, c.Pos(fd.Pos()), "")
			} else {
				r.Fail("E6.memo-independent", key, c.Pos(badPos), bad)
			}
		}
	}
	r.Count("E6.multi-memo-setters", n)
	r.Floor("E6.multi-memo-setters", 1)
}

func ei0(s ast.Stmt) ast.Node { return s }

// E6MemoStoresCompared: a memoising setter remembers every parameter it compares.
func E6MemoStoresCompared(c *core.Ctx, r *core.Report) {
	r.Rule("E6.memo-stores-compared", "in the PDF and PostScript writers a setter skips its output when the state it remembered equals its arguments. Every receiver field that such a method (one that compares and assigns at least one field) compares with something computed from a parameter, in an if condition, is also assigned in that method: a field that is compared but never stored keeps the value it got when the page was opened, so the comparison is made against stale state and a later call with the old arguments emits nothing (SetFont that forgets the direction: horizontal text after vertical text of the same font and size is shown with the vertical font)")
	n := 0
	for _, rel := range []string{"renderers/pdf", "renderers/ps"} {
		p := c.MustPkg(rel)
		info := p.TypesInfo
		for _, fd := range core.AllFuncDecls(p) {
			if fd.Recv == nil || len(fd.Recv.List) == 0 || len(fd.Recv.List[0].Names) == 0 || fd.Body == nil {
				continue
			}
			recv := info.Defs[fd.Recv.List[0].Names[0]]
			params := map[types.Object]bool{}
			for _, f := range fd.Type.Params.List {
				for _, nm := range f.Names {
					params[info.Defs[nm]] = true
				}
			}
			if recv == nil || len(params) == 0 {
				continue
			}
			fieldOf := func(e ast.Expr) string {
				sel, ok := core.Unparen(e).(*ast.SelectorExpr)
				if !ok {
					return ""
				}
				id, ok := core.Unparen(sel.X).(*ast.Ident)
				if !ok || core.ObjOf(info, id) != recv {
					return ""
				}
				if s := info.Selections[sel]; s == nil || s.Kind() != types.FieldVal {
					return ""
				}
				return sel.Sel.Name
			}
			mentionsParam := func(e ast.Node) bool {
				hit := false
				ast.Inspect(e, func(m ast.Node) bool {
					if id, ok := m.(*ast.Ident); ok && params[core.ObjOf(info, id)] {
						hit = true
					}
					return !hit
				})
				return hit
			}
			compared := map[string]token.Pos{}
			assigned := map[string]bool{}
			ast.Inspect(fd.Body, func(m ast.Node) bool {
				switch x := m.(type) {
				case *ast.IfStmt:
					ast.Inspect(x.Cond, func(k ast.Node) bool {
						switch y := k.(type) {
						case *ast.BinaryExpr:
							if y.Op == token.EQL || y.Op == token.NEQ {
								if fn := fieldOf(y.X); fn != "" && mentionsParam(y.Y) {
									compared[fn] = y.Pos()
								}
								if fn := fieldOf(y.Y); fn != "" && mentionsParam(y.X) {
									compared[fn] = y.Pos()
								}
							}
						case *ast.CallExpr:
							// p.Equal(w.f) / w.f.Equal(p) / reflect.DeepEqual(w.f, p)
							var parts []ast.Expr
							if se, ok := y.Fun.(*ast.SelectorExpr); ok {
								parts = append(parts, se.X)
							}
							parts = append(parts, y.Args...)
							for i, a := range parts {
								if fn := fieldOf(a); fn != "" {
									for j, b := range parts {
										if i != j && mentionsParam(b) {
											compared[fn] = y.Pos()
										}
									}
								}
							}
						}
						return true
					})
				case *ast.AssignStmt:
					for _, l := range x.Lhs {
						if fn := fieldOf(l); fn != "" {
							assigned[fn] = true
						}
					}
				}
				return true
			})
			memo := false
			for fn := range compared {
				if assigned[fn] {
					memo = true
				}
			}
			if !memo {
				continue
			}
			var names []string
			for fn := range compared {
				names = append(names, fn)
			}
			sort.Strings(names)
			for _, fn := range names {
				n++
				key := fmt.Sprintf("%s.%s|memo field %s", p.Types.Name(), core.FuncName(fd), fn)
				if assigned[fn] {
					r.OK("E6.memo-stores-compared", key, c.Pos(compared[fn]), "")
				} else {
					r.Fail("E6.memo-stores-compared", key, c.Pos(compared[fn]), fmt.Sprintf("%s compares the field `%s` with its argument to decide whether to emit, and stores the other fields it compares, but never assigns `%s`: the field keeps the value set when the page was opened, the test is made against stale state, and a call that returns to the earlier arguments emits nothing", core.FuncName(fd), fn, fn))
				}
			}
		}
	}
	r.Count("E6.memo-stores-compared", n)
	r.Floor("E6.memo-stores-compared", 10)
}

// E6MemoSharedState: a memoising setter does not skip re-establishing state that other setters can change.
func E6MemoSharedState(c *core.Ctx, r *core.Report) {
	r.Rule("E6.memo-shared-state", "PDF page writer: a setter that skips its work when its argument equals what it remembered (`if x.Equal(w.f) { return }` or `if !x.Equal(w.f) { … }`) may skip only what its own memo covers. A call of another memoising setter of the same writer (SetAlpha: the ExtGState opacity is one value shared by filling, stroking and images, and each of SetFill, SetStroke and the image code sets it) must therefore not sit in the skipped region — on a memo hit the shared value may have been changed by the other setters in between. With the call inside, a path with the same fill as the previous one is filled with the opacity its predecessor's stroke left behind")
	p := c.MustPkg("renderers/pdf")
	info := p.TypesInfo
	decls := map[*types.Func]*ast.FuncDecl{}
	for _, fd := range core.AllFuncDecls(p) {
		if f, ok := info.Defs[fd.Name].(*types.Func); ok {
			decls[f] = fd
		}
	}
	memo := cachedSetters(p, decls)
	n := 0
	var names []string
	byName := map[string]*types.Func{}
	for f := range memo {
		nm := core.FuncName(decls[f])
		names = append(names, nm)
		byName[nm] = f
	}
	sort.Strings(names)
	for _, nm := range names {
		f := byName[nm]
		fd := decls[f]
		if core.RecvName(fd) != "pdfPageWriter" {
			continue
		}
		recv := info.Defs[fd.Recv.List[0].Names[0]]
		own := map[string]bool{}
		for _, fl := range memo[f] {
			own[fl] = true
		}
		// calls of other memoising setters on the same receiver, and how many setters set that callee's state
		type site struct {
			call   *ast.CallExpr
			callee *types.Func
		}
		var sites []site
		ast.Inspect(fd.Body, func(m ast.Node) bool {
			call, ok := m.(*ast.CallExpr)
			if !ok {
				return true
			}
			se, ok := call.Fun.(*ast.SelectorExpr)
			if !ok {
				return true
			}
			id, ok := core.Unparen(se.X).(*ast.Ident)
			if !ok || core.ObjOf(info, id) != recv {
				return true
			}
			cf := core.CalleeOf(info, call)
			if cf == nil || cf == f {
				return true
			}
			if _, isMemo := memo[cf]; isMemo {
				sites = append(sites, site{call, cf})
			}
			return true
		})
		for _, st := range sites {
			// is the callee called from more than one function of the package (shared state)?
			callers := map[string]bool{}
			for _, ofd := range decls {
				if ofd.Body == nil {
					continue
				}
				ast.Inspect(ofd.Body, func(m ast.Node) bool {
					if call, ok := m.(*ast.CallExpr); ok && core.CalleeOf(info, call) == st.callee {
						callers[core.FuncName(ofd)] = true
					}
					return true
				})
			}
			if len(callers) < 2 {
				continue
			}
			n++
			key := fmt.Sprintf("pdf.%s|call of %s is not skipped on a memo hit", core.FuncName(fd), st.callee.Name())
			// skipped region: (a) after an `if memo-hit { return }` statement; (b) inside `if !memo-hit { … }`
			skipped := ""
			mentionsOwn := func(e ast.Expr) bool {
				found := false
				ast.Inspect(e, func(k ast.Node) bool {
					if sel, ok := k.(*ast.SelectorExpr); ok && own[sel.Sel.Name] {
						if id, ok := core.Unparen(sel.X).(*ast.Ident); ok && core.ObjOf(info, id) == recv {
							found = true
						}
					}
					return true
				})
				return found
			}
			ast.Inspect(fd.Body, func(m ast.Node) bool {
				is, ok := m.(*ast.IfStmt)
				if !ok || !mentionsOwn(is.Cond) {
					return true
				}
				endsInReturn := false
				if len(is.Body.List) > 0 {
					_, endsInReturn = is.Body.List[len(is.Body.List)-1].(*ast.ReturnStmt)
				}
				if endsInReturn && is.Else == nil && st.call.Pos() > is.End() {
					skipped = "it follows the early return `if " + c.Src(is.Cond) + " { return }`"
				}
				if !endsInReturn && is.Body.Pos() <= st.call.Pos() && st.call.End() <= is.Body.End() {
					skipped = "it sits inside `if " + c.Src(is.Cond) + " { … }`"
				}
				return true
			})
			if skipped != "" {
				var cs []string
				for k := range callers {
					cs = append(cs, k)
				}
				sort.Strings(cs)
				r.Fail("E6.memo-shared-state", key, c.Pos(st.call.Pos()), fmt.Sprintf("%s, so it is skipped when the argument equals the remembered one, but the state %s sets is also set by %s: the value left behind by them stays in force", skipped, st.callee.Name(), strings.Join(cs, ", ")))
			} else {
				r.OK("E6.memo-shared-state", key, c.Pos(st.call.Pos()), "")
			}
		}
	}
	r.Count("E6.shared-memo-calls", n)
	r.Floor("E6.shared-memo-calls", 2)
}

// E6OperatorThroughSetter: a memoised graphics-state operator is only written by its setter.
func E6OperatorThroughSetter(c *core.Ctx, r *core.Report) {
	r.Rule("E6.operator-through-setter", "PDF back-end: the page writer remembers the graphics-state parameters it has written (line width, cap, join, dash, opacity, colours, text render mode, …) and its setters skip the operator when the value is unchanged. That is sound only if the setter is the only place that writes the operator: every other function that emits a constant format or string whose last operator is one a memoising setter emits leaves the memo stale, and a later setter call with the remembered value omits an operator that is needed (faux-bold text wrote its stroke width with a bare `%v w`; the next path stroked with the width remembered before the text got the text's width)")
	p := c.MustPkg("renderers/pdf")
	info := p.TypesInfo
	decls := map[*types.Func]*ast.FuncDecl{}
	for _, fd := range core.AllFuncDecls(p) {
		if f, ok := info.Defs[fd.Name].(*types.Func); ok {
			decls[f] = fd
		}
	}
	memo := cachedSetters(p, decls)
	lastOp := func(s string) string {
		fs := strings.Fields(s)
		if len(fs) == 0 {
			return ""
		}
		op := fs[len(fs)-1]
		for _, ch := range op {
			if !(ch >= 'a' && ch <= 'z' || ch >= 'A' && ch <= 'Z' || ch == '*') {
				return ""
			}
		}
		return op
	}
	constStrings := func(fd *ast.FuncDecl) map[string]token.Pos {
		out := map[string]token.Pos{}
		ast.Inspect(fd.Body, func(m ast.Node) bool {
			call, ok := m.(*ast.CallExpr)
			if !ok {
				return true
			}
			name := ""
			switch f := call.Fun.(type) {
			case *ast.SelectorExpr:
				name = f.Sel.Name
			case *ast.Ident:
				name = f.Name
			}
			if name != "Fprintf" && name != "Write" && name != "WriteString" && name != "write" {
				return true
			}
			for _, a := range call.Args {
				ast.Inspect(a, func(k ast.Node) bool {
					if e, ok := k.(ast.Expr); ok {
						if v := core.ConstVal(info, e); v != nil && v.Kind() == constant.String {
							if op := lastOp(constant.StringVal(v)); op != "" {
								out[op] = e.Pos()
							}
							return false
						}
					}
					return true
				})
			}
			return true
		})
		return out
	}
	owner := map[string]string{} // operator -> setter
	for f := range memo {
		fd := decls[f]
		if core.RecvName(fd) != "pdfPageWriter" {
			continue
		}
		for op := range constStrings(fd) {
			owner[op] = core.FuncName(fd)
		}
	}
	// path-painting and structural operators are not parameters
	for _, op := range []string{"f", "s", "S", "b", "B", "n", "W", "h", "m", "l", "c", "v", "y", "re", "q", "Q", "cm", "BT", "ET", "Do", "TJ", "Tj", "Td", "Tm", "Tf"} {
		delete(owner, op)
	}
	n := 0
	var fnames []string
	byName := map[string]*ast.FuncDecl{}
	for _, fd := range decls {
		if fd.Body != nil {
			fnames = append(fnames, core.FuncName(fd))
			byName[core.FuncName(fd)] = fd
		}
	}
	sort.Strings(fnames)
	for _, nm := range fnames {
		fd := byName[nm]
		cs := constStrings(fd)
		var ops []string
		for op := range cs {
			ops = append(ops, op)
		}
		sort.Strings(ops)
		for _, op := range ops {
			own, isParam := owner[op]
			if !isParam || own == nm {
				continue
			}
			n++
			r.Fail("E6.operator-through-setter", fmt.Sprintf("pdf.%s|operator %s written outside %s", nm, op, own), c.Pos(cs[op]), fmt.Sprintf("the operator `%s` is written directly although %s remembers its last value: that memo is now stale and a later call with the remembered value omits the operator", op, own))
		}
	}
	var ops []string
	for op, own := range owner {
		ops = append(ops, op+"→"+own)
	}
	sort.Strings(ops)
	r.OK("E6.operator-through-setter", "pdf|memoised operators are written by their setters only", c.Pos(p.Syntax[0].Pos()), strings.Join(ops, ", "))
	r.Count("E6.memoised-operators", len(owner))
	r.Floor("E6.memoised-operators", 5)
	_ = n
}
