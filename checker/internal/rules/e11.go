package rules

import (
	"fmt"
	"go/ast"
	"go/token"
	"go/types"
	"strings"

	"canvascheck/internal/core"
)

// E11 — small typestate/consistency rules (DESIGN.md §2 E11).

// E11SplitCap: Split hands out capacity-limited sub-slices.
func E11SplitCap(c *core.Ctx, r *core.Report) {
	r.Rule("E11.split-cap", "Path.Split: every sub-slice of p.d placed in a result path is a 3-index slice p.d[i:j:j] (capacity limited to its length), so that appending to a sub-path reallocates instead of overwriting the following sub-path of the receiver")
	p := c.MustPkg("")
	info := p.TypesInfo
	fd := core.MustFuncDecl(p, "Path.Split")
	r.Func("canvas.Path.Split")
	n := 0
	ast.Inspect(fd.Body, func(nd ast.Node) bool {
		se, ok := nd.(*ast.SliceExpr)
		if !ok || !core.IsPathDataSel(info, se.X) {
			return true
		}
		n++
		key := fmt.Sprintf("canvas.Path.Split|sub-slice #%d", n)
		if se.Slice3 && se.High != nil && se.Max != nil && types.ExprString(se.High) == types.ExprString(se.Max) {
			r.OK("E11.split-cap", key, c.Pos(se.Pos()), types.ExprString(se))
		} else {
			r.Fail("E11.split-cap", key, c.Pos(se.Pos()), fmt.Sprintf("`%s` shares spare capacity with the rest of the receiver's data: Join/LineTo/Close on the returned sub-path overwrite the receiver's next sub-path", types.ExprString(se)))
		}
		return true
	})
	r.Count("E11.split-slices", n)
	r.Floor("E11.split-slices", 2)
}

// E11StuckVariables: a local initialised to a constant, never assigned again, yet used as loop state.
func E11StuckVariables(c *core.Ctx, r *core.Report) {
	r.Rule("E11.stuck", "a local variable initialised to a constant and never assigned again is not compared with a parameter inside a loop nor used as a slice bound (such a variable was meant to be advanced by the loop; the comparison or slice is decided once and for all)")
	p := c.MustPkg("")
	info := p.TypesInfo
	total := 0
	for _, fd := range core.AllFuncDecls(p) {
		params := map[types.Object]bool{}
		for _, f := range fd.Type.Params.List {
			for _, n := range f.Names {
				params[info.Defs[n]] = true
			}
		}
		// candidates: defined with := from constants at function level
		cands := map[types.Object]*ast.Ident{}
		assigned := map[types.Object]bool{}
		ast.Inspect(fd.Body, func(n ast.Node) bool {
			switch x := n.(type) {
			case *ast.AssignStmt:
				if x.Tok == token.DEFINE && len(x.Lhs) == len(x.Rhs) {
					for i, l := range x.Lhs {
						id, ok := l.(*ast.Ident)
						if !ok || id.Name == "_" {
							continue
						}
						if _, isConst := core.ConstInt(info, x.Rhs[i]); isConst {
							if o := info.Defs[id]; o != nil {
								if b, ok := o.Type().Underlying().(*types.Basic); ok && b.Info()&types.IsInteger != 0 {
									cands[o] = id
								}
							}
						}
					}
				} else {
					for _, l := range x.Lhs {
						if id, ok := l.(*ast.Ident); ok {
							assigned[core.ObjOf(info, id)] = true
						}
					}
				}
			case *ast.IncDecStmt:
				if id, ok := x.X.(*ast.Ident); ok {
					assigned[core.ObjOf(info, id)] = true
				}
			case *ast.UnaryExpr:
				if x.Op == token.AND {
					if id, ok := core.Unparen(x.X).(*ast.Ident); ok {
						assigned[core.ObjOf(info, id)] = true // address taken
					}
				}
			}
			return true
		})
		if len(cands) == 0 {
			continue
		}
		// uses inside loops
		var inLoop func(n ast.Node, depth int)
		report := func(o types.Object, pos token.Pos, how string) {
			total++
			key := fmt.Sprintf("canvas.%s|%s", core.FuncName(fd), o.Name())
			r.Fail("E11.stuck", key, c.Pos(pos), fmt.Sprintf("`%s` is initialised to a constant and never assigned again, but %s; the loop cannot make progress on it (the query returns a default or panics instead of the requested segment)", o.Name(), how))
		}
		inLoop = func(n ast.Node, depth int) {
			ast.Inspect(n, func(m ast.Node) bool {
				switch x := m.(type) {
				case *ast.ForStmt:
					if x != n {
						inLoop(x.Body, depth+1)
						if x.Cond != nil && depth+1 > 0 {
							inLoop(x.Cond, depth+1)
						}
						return false
					}
				case *ast.RangeStmt:
					if x != n {
						inLoop(x.Body, depth+1)
						return false
					}
				case *ast.BinaryExpr:
					if depth == 0 {
						return true
					}
					switch x.Op {
					case token.LSS, token.LEQ, token.GTR, token.GEQ, token.EQL, token.NEQ:
						a, _ := core.Unparen(x.X).(*ast.Ident)
						b, _ := core.Unparen(x.Y).(*ast.Ident)
						if a != nil && b != nil {
							oa, ob := core.ObjOf(info, a), core.ObjOf(info, b)
							if cands[oa] != nil && !assigned[oa] && params[ob] {
								report(oa, x.Pos(), fmt.Sprintf("compared with parameter `%s` inside a loop", b.Name))
							}
							if cands[ob] != nil && !assigned[ob] && params[oa] {
								report(ob, x.Pos(), fmt.Sprintf("compared with parameter `%s` inside a loop", a.Name))
							}
						}
					}
				case *ast.SliceExpr:
					for _, e := range []ast.Expr{x.Low, x.High, x.Max} {
						if id, ok := e.(*ast.Ident); ok {
							if o := core.ObjOf(info, id); cands[o] != nil && !assigned[o] && depth > 0 {
								report(o, x.Pos(), "used as a slice bound inside a loop")
							}
						}
					}
				}
				return true
			})
		}
		inLoop(fd.Body, 0)
		r.Count("E11.stuck-candidates", len(cands))
	}
	if total == 0 {
		r.OK("E11.stuck", "canvas|no stuck loop variables", "", "")
	}
	r.Floor("E11.stuck-candidates", 50)
}

// E11InPlaceInLoop: an in-place transform applied in a loop to a value defined outside the loop accumulates.
func E11InPlaceInLoop(c *core.Ctx, r *core.Report) {
	r.Rule("E11.accumulate", "Transform/Translate/Scale/Gridsnap modify their receiver in place: calling one inside a loop on a path variable that is defined outside the loop (and not re-copied in the loop) accumulates the transformation over the iterations")
	p := c.MustPkg("")
	info := p.TypesInfo
	inplace := map[string]bool{"Transform": true, "Translate": true, "Scale": true, "Gridsnap": true}
	total, sites := 0, 0
	for _, rel := range modulePkgRels {
		pk := c.MustPkg(rel)
		pinfo := pk.TypesInfo
		_ = info
		for _, fd := range core.AllFuncDecls(pk) {
			var walk func(n ast.Node, loops []ast.Node)
			walk = func(n ast.Node, loops []ast.Node) {
				ast.Inspect(n, func(m ast.Node) bool {
					switch x := m.(type) {
					case *ast.ForStmt:
						if ast.Node(x) != n {
							walk(x.Body, append(loops, x))
							return false
						}
					case *ast.RangeStmt:
						if ast.Node(x) != n {
							walk(x.Body, append(loops, x))
							return false
						}
					case *ast.CallExpr:
						if len(loops) == 0 {
							return true
						}
						se, ok := x.Fun.(*ast.SelectorExpr)
						if !ok || !inplace[se.Sel.Name] {
							return true
						}
						f := core.CalleeOf(pinfo, x)
						if f == nil || !strings.HasPrefix(core.QualifiedCallee(f), core.Module+".Path.") {
							return true
						}
						id, ok := core.Unparen(se.X).(*ast.Ident)
						if !ok {
							return true // receiver is an expression (p.Copy().Transform): a fresh value
						}
						sites++
						o := core.ObjOf(pinfo, id)
						// defined (or re-assigned) inside the innermost loop?
						inner := loops[len(loops)-1]
						definedInside := o != nil && o.Pos() >= inner.Pos() && o.Pos() <= inner.End()
						reassigned := false
						ast.Inspect(inner, func(k ast.Node) bool {
							if as, ok := k.(*ast.AssignStmt); ok {
								for _, l := range as.Lhs {
									if lid, ok := l.(*ast.Ident); ok && core.ObjOf(pinfo, lid) == o {
										reassigned = true
									}
								}
							}
							return true
						})
						if !definedInside && !reassigned {
							total++
							pkn := "canvas"
							if rel != "" {
								pkn = rel
							}
							r.Fail("E11.accumulate", fmt.Sprintf("%s.%s|%s.%s", pkn, core.FuncName(fd), id.Name, se.Sel.Name), c.Pos(x.Pos()), fmt.Sprintf("`%s.%s(…)` modifies `%s` in place on every iteration; `%s` is defined outside the loop, so iteration k sees the sum of the first k transformations", id.Name, se.Sel.Name, id.Name, id.Name))
						}
					}
					return true
				})
			}
			walk(fd.Body, nil)
		}
	}
	r.Count("E11.inplace-in-loop-sites", sites)
	if total == 0 {
		r.OK("E11.accumulate", "canvas|no accumulating in-place transform", "", fmt.Sprintf("%d in-place calls inside loops examined", sites))
	}
}
