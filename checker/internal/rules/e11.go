package rules

import (
	"fmt"
	"go/ast"
	"go/constant"
	"go/token"
	"go/types"
	"path/filepath"
	"sort"
	"strings"

	"canvascheck/internal/core"

	"golang.org/x/tools/go/packages"
)

// E11 — small typestate/consistency rules (DESIGN.md §2 E11).

// E11SplitCap: Split hands out capacity-limited sub-slices.
func E11SplitCap(c *core.Ctx, r *core.Report) {
	r.Rule("E11.split-cap", "Path.Split: every sub-slice of p.d placed in a result path is a 3-index slice p.d[i:j:j] (capacity limited to its length), so that appending to a sub-path reallocates instead of overwriting the following sub-path of the receiver")
	p := c.MustPkg("")
	info := p.TypesInfo
	fd := core.MustFuncDecl(p, "Path.Split")
	r.Func("canvas.Path.Split")
	n := 0
	ast.Inspect(fd.Body, func(nd ast.Node) bool {
		se, ok := nd.(*ast.SliceExpr)
		if !ok || !core.IsPathDataSel(info, se.X) {
			return true
		}
		n++
		key := fmt.Sprintf("canvas.Path.Split|sub-slice #%d", n)
		if se.Slice3 && se.High != nil && se.Max != nil && types.ExprString(se.High) == types.ExprString(se.Max) {
			r.OK("E11.split-cap", key, c.Pos(se.Pos()), types.ExprString(se))
		} else {
			r.Fail("E11.split-cap", key, c.Pos(se.Pos()), fmt.Sprintf("`%s` shares spare capacity with the rest of the receiver's data: Join/LineTo/Close on the returned sub-path overwrite the receiver's next sub-path", types.ExprString(se)))
		}
		return true
	})
	r.Count("E11.split-slices", n)
	r.Floor("E11.split-slices", 2)
}

// E11StuckVariables: a local initialised to a constant, never assigned again, yet used as loop state.
func E11StuckVariables(c *core.Ctx, r *core.Report) {
	r.Rule("E11.stuck", "a local variable initialised to a constant and never assigned again is not compared with a parameter inside a loop nor used as a slice bound (such a variable was meant to be advanced by the loop; the comparison or slice is decided once and for all)")
	p := c.MustPkg("")
	info := p.TypesInfo
	total := 0
	for _, fd := range core.AllFuncDecls(p) {
		params := map[types.Object]bool{}
		for _, f := range fd.Type.Params.List {
			for _, n := range f.Names {
				params[info.Defs[n]] = true
			}
		}
		// candidates: defined with := from constants at function level
		cands := map[types.Object]*ast.Ident{}
		assigned := map[types.Object]bool{}
		ast.Inspect(fd.Body, func(n ast.Node) bool {
			switch x := n.(type) {
			case *ast.AssignStmt:
				if x.Tok == token.DEFINE && len(x.Lhs) == len(x.Rhs) {
					for i, l := range x.Lhs {
						id, ok := l.(*ast.Ident)
						if !ok || id.Name == "_" {
							continue
						}
						if _, isConst := core.ConstInt(info, x.Rhs[i]); isConst {
							if o := info.Defs[id]; o != nil {
								if b, ok := o.Type().Underlying().(*types.Basic); ok && b.Info()&types.IsInteger != 0 {
									cands[o] = id
								}
							}
						}
					}
				} else {
					for _, l := range x.Lhs {
						if id, ok := l.(*ast.Ident); ok {
							assigned[core.ObjOf(info, id)] = true
						}
					}
				}
			case *ast.IncDecStmt:
				if id, ok := x.X.(*ast.Ident); ok {
					assigned[core.ObjOf(info, id)] = true
				}
			case *ast.UnaryExpr:
				if x.Op == token.AND {
					if id, ok := core.Unparen(x.X).(*ast.Ident); ok {
						assigned[core.ObjOf(info, id)] = true // address taken
					}
				}
			}
			return true
		})
		if len(cands) == 0 {
			continue
		}
		// uses inside loops
		var inLoop func(n ast.Node, depth int)
		kinds := map[string]int{}
		seenObj := map[types.Object]string{}
		report := func(o types.Object, pos token.Pos, how string) {
			total++
			// key by role, not by the variable's name (renaming a local must not change the key)
			role := "loop counter never advanced"
			if strings.Contains(how, "slice bound") {
				role = "slice bound never advanced"
			}
			if _, ok := seenObj[o]; !ok {
				kinds[role]++
				seenObj[o] = fmt.Sprintf("%s #%d", role, kinds[role])
			}
			key := fmt.Sprintf("canvas.%s|%s", core.FuncName(fd), seenObj[o])
			r.Fail("E11.stuck", key, c.Pos(pos), fmt.Sprintf("`%s` is initialised to a constant and never assigned again, but %s; the loop cannot make progress on it (the query returns a default or panics instead of the requested segment)", o.Name(), how))
		}
		inLoop = func(n ast.Node, depth int) {
			ast.Inspect(n, func(m ast.Node) bool {
				switch x := m.(type) {
				case *ast.ForStmt:
					if x != n {
						inLoop(x.Body, depth+1)
						if x.Cond != nil && depth+1 > 0 {
							inLoop(x.Cond, depth+1)
						}
						return false
					}
				case *ast.RangeStmt:
					if x != n {
						inLoop(x.Body, depth+1)
						return false
					}
				case *ast.BinaryExpr:
					if depth == 0 {
						return true
					}
					switch x.Op {
					case token.LSS, token.LEQ, token.GTR, token.GEQ, token.EQL, token.NEQ:
						a, _ := core.Unparen(x.X).(*ast.Ident)
						b, _ := core.Unparen(x.Y).(*ast.Ident)
						if a != nil && b != nil {
							oa, ob := core.ObjOf(info, a), core.ObjOf(info, b)
							if cands[oa] != nil && !assigned[oa] && params[ob] {
								report(oa, x.Pos(), fmt.Sprintf("compared with parameter `%s` inside a loop", b.Name))
							}
							if cands[ob] != nil && !assigned[ob] && params[oa] {
								report(ob, x.Pos(), fmt.Sprintf("compared with parameter `%s` inside a loop", a.Name))
							}
						}
					}
				case *ast.SliceExpr:
					for _, e := range []ast.Expr{x.Low, x.High, x.Max} {
						if id, ok := e.(*ast.Ident); ok {
							if o := core.ObjOf(info, id); cands[o] != nil && !assigned[o] && depth > 0 {
								report(o, x.Pos(), "used as a slice bound inside a loop")
							}
						}
					}
				}
				return true
			})
		}
		inLoop(fd.Body, 0)
		r.Count("E11.stuck-candidates", len(cands))
	}
	if total == 0 {
		r.OK("E11.stuck", "canvas|no stuck loop variables", "", "")
	}
	r.Floor("E11.stuck-candidates", 50)
}

// E11InPlaceInLoop: an in-place transform applied in a loop to a value defined outside the loop accumulates.
func E11InPlaceInLoop(c *core.Ctx, r *core.Report) {
	r.Rule("E11.accumulate", "Transform/Translate/Scale/Gridsnap modify their receiver in place: calling one inside a loop on a path variable that is defined outside the loop (and not re-copied in the loop) accumulates the transformation over the iterations")
	p := c.MustPkg("")
	info := p.TypesInfo
	inplace := map[string]bool{"Transform": true, "Translate": true, "Scale": true, "Gridsnap": true}
	total, sites := 0, 0
	for _, rel := range modulePkgRels {
		pk := c.MustPkg(rel)
		pinfo := pk.TypesInfo
		_ = info
		for _, fd := range core.AllFuncDecls(pk) {
			var walk func(n ast.Node, loops []ast.Node)
			walk = func(n ast.Node, loops []ast.Node) {
				ast.Inspect(n, func(m ast.Node) bool {
					switch x := m.(type) {
					case *ast.ForStmt:
						if ast.Node(x) != n {
							walk(x.Body, append(loops, x))
							return false
						}
					case *ast.RangeStmt:
						if ast.Node(x) != n {
							walk(x.Body, append(loops, x))
							return false
						}
					case *ast.CallExpr:
						if len(loops) == 0 {
							return true
						}
						se, ok := x.Fun.(*ast.SelectorExpr)
						if !ok || !inplace[se.Sel.Name] {
							return true
						}
						f := core.CalleeOf(pinfo, x)
						if f == nil || !strings.HasPrefix(core.QualifiedCallee(f), core.Module+".Path.") {
							return true
						}
						id, ok := core.Unparen(se.X).(*ast.Ident)
						if !ok {
							return true // receiver is an expression (p.Copy().Transform): a fresh value
						}
						sites++
						o := core.ObjOf(pinfo, id)
						// defined (or re-assigned) inside the innermost loop?
						inner := loops[len(loops)-1]
						definedInside := o != nil && o.Pos() >= inner.Pos() && o.Pos() <= inner.End()
						reassigned := false
						ast.Inspect(inner, func(k ast.Node) bool {
							if as, ok := k.(*ast.AssignStmt); ok {
								for _, l := range as.Lhs {
									if lid, ok := l.(*ast.Ident); ok && core.ObjOf(pinfo, lid) == o {
										reassigned = true
									}
								}
							}
							return true
						})
						if !definedInside && !reassigned {
							total++
							pkn := "canvas"
							if rel != "" {
								pkn = rel
							}
							r.Fail("E11.accumulate", fmt.Sprintf("%s.%s|%s.%s", pkn, core.FuncName(fd), id.Name, se.Sel.Name), c.Pos(x.Pos()), fmt.Sprintf("`%s.%s(…)` modifies `%s` in place on every iteration; `%s` is defined outside the loop, so iteration k sees the sum of the first k transformations", id.Name, se.Sel.Name, id.Name, id.Name))
						}
					}
					return true
				})
			}
			walk(fd.Body, nil)
		}
	}
	r.Count("E11.inplace-in-loop-sites", sites)
	if total == 0 {
		r.OK("E11.accumulate", "canvas|no accumulating in-place transform", "", fmt.Sprintf("%d in-place calls inside loops examined", sites))
	}
}

// ---- Context / Canvas rules (C15) ----

func ctxFieldPath(info *types.Info, e ast.Expr, recv types.Object) ([]string, bool) {
	// returns the selector names from the receiver to the selected field, e.g. c.Style.Fill -> [Style Fill]
	var names []string
	for {
		switch x := core.Unparen(e).(type) {
		case *ast.SelectorExpr:
			names = append([]string{x.Sel.Name}, names...)
			e = x.X
			continue
		case *ast.IndexExpr:
			e = x.X
			continue
		case *ast.Ident:
			if core.ObjOf(info, x) == recv {
				return names, true
			}
		}
		return nil, false
	}
}

// E11ContextState: setters, Push/Pop, Fill/Stroke save-restore.
func E11ContextState(c *core.Ctx, r *core.Report) {
	r.Rule("E11.ctx-setter", "every exported Set*/Reset* method of Context stores only into fields of ContextState (style, view, coordinate view/system), never into the stack, the pending path or the renderer")
	r.Rule("E11.ctx-stack", "Push unconditionally appends the whole ContextState value to the stack; Pop assigns the whole ContextState once, from stack[len−1], shrinks the stack once to [:len−1] (indices compared as polynomials in len(stack), locals resolved), restores before it shrinks, assigns no single state field, and with an empty stack no path reaches the restore")
	r.Rule("E11.ctx-restore", "Fill, Stroke and FillStroke, over every path through the method: the pending path is reset before the method returns (after the draw, if it draws); where Fill draws, exactly Style.Stroke is saved, cleared before the DrawPath of the pending path and restored from the saved value afterwards, Stroke likewise with Style.Fill, FillStroke with neither cleared. A shortcut that returns without drawing must still reset the path: otherwise the skipped sub-paths ride along with the next draw")
	p := c.MustPkg("")
	info := p.TypesInfo
	ctxObj := p.Types.Scope().Lookup("Context")
	csObj := p.Types.Scope().Lookup("ContextState")
	if ctxObj == nil || csObj == nil {
		panic(core.Infra("Context/ContextState types not found"))
	}
	stateFields := map[string]bool{"ContextState": true}
	st := csObj.Type().Underlying().(*types.Struct)
	for i := 0; i < st.NumFields(); i++ {
		stateFields[st.Field(i).Name()] = true
		if st.Field(i).Embedded() {
			if es, ok := st.Field(i).Type().Underlying().(*types.Struct); ok {
				for j := 0; j < es.NumFields(); j++ {
					stateFields[es.Field(j).Name()] = true
				}
			}
		}
	}
	nSetters := 0
	for _, fd := range core.AllFuncDecls(p) {
		if core.RecvName(fd) != "Context" || !fd.Name.IsExported() {
			continue
		}
		name := fd.Name.Name
		if !(strings.HasPrefix(name, "Set") || strings.HasPrefix(name, "Reset")) {
			continue
		}
		nSetters++
		recv := recvObj(info, fd)
		key := "canvas.Context." + name
		r.Func(key)
		bad := ""
		stores := 0
		ast.Inspect(fd.Body, func(n ast.Node) bool {
			as, ok := n.(*ast.AssignStmt)
			if !ok {
				return true
			}
			for _, l := range as.Lhs {
				names, rooted := ctxFieldPath(info, l, recv)
				if !rooted {
					continue // local variable
				}
				stores++
				if len(names) == 0 || !stateFields[names[0]] {
					bad = fmt.Sprintf("stores into c.%s, which is not part of the saved/restored ContextState", strings.Join(names, "."))
				}
			}
			return true
		})
		if bad != "" {
			r.Fail("E11.ctx-setter", key, c.Pos(fd.Pos()), bad)
		} else if stores == 0 {
			// a setter that only forwards to the renderer (SetZIndex) keeps no state in the context
			r.OK("E11.ctx-setter", key, c.Pos(fd.Pos()), "stores nothing in the context (forwards to the renderer)")
		} else {
			r.OK("E11.ctx-setter", key, c.Pos(fd.Pos()), fmt.Sprintf("%d stores", stores))
		}
	}
	r.Count("E11.ctx-setters", nSetters)
	r.Floor("E11.ctx-setters", 20)

	// Push / Pop
	isField := func(e ast.Expr, recv types.Object, path ...string) bool {
		names, rooted := ctxFieldPath(info, e, recv)
		if _, isIdx := core.Unparen(e).(*ast.IndexExpr); isIdx || !rooted || len(names) != len(path) {
			return false
		}
		for k := range names {
			if names[k] != path[k] {
				return false
			}
		}
		return true
	}
	push := core.MustFuncDecl(p, "Context.Push")
	{
		recv := recvObj(info, push)
		ok := false
		for _, st := range push.Body.List { // unconditional: a statement of the body itself
			as, isAs := st.(*ast.AssignStmt)
			if !isAs || len(as.Lhs) != 1 || len(as.Rhs) != 1 || !isField(as.Lhs[0], recv, "stack") {
				continue
			}
			call, isCall := core.Unparen(as.Rhs[0]).(*ast.CallExpr)
			if !isCall || len(call.Args) != 2 || call.Ellipsis.IsValid() {
				continue
			}
			if fn, isID := core.Unparen(call.Fun).(*ast.Ident); isID && fn.Name == "append" && isField(call.Args[0], recv, "stack") && isField(call.Args[1], recv, "ContextState") {
				ok = true
			}
		}
		if ok {
			r.OK("E11.ctx-stack", "canvas.Context.Push", c.Pos(push.Pos()), "stack = append(stack, ContextState)")
		} else {
			r.Fail("E11.ctx-stack", "canvas.Context.Push", c.Pos(push.Pos()), "Push does not unconditionally append the whole ContextState value to the stack: part of the state (style, view, coordinate view or system) would not be saved")
		}
	}
	pop := core.MustFuncDecl(p, "Context.Pop")
	{
		recv := recvObj(info, pop)
		defs := singleDefs(info, pop.Body)
		lenSym := func(e ast.Expr) string {
			if call, ok := e.(*ast.CallExpr); ok && len(call.Args) == 1 {
				if fn, ok := core.Unparen(call.Fun).(*ast.Ident); ok && fn.Name == "len" && isField(call.Args[0], recv, "stack") {
					return "n"
				}
			}
			return ""
		}
		last := poly{"n": 1, "": -1}
		isLast := func(e ast.Expr) bool {
			if e == nil {
				return false
			}
			pe, ok := polyOf(info, e, lenSym, defs)
			return ok && polyEqual(pe, last)
		}
		var restore, shrink ast.Stmt
		bad := ""
		ast.Inspect(pop.Body, func(m ast.Node) bool {
			as, ok := m.(*ast.AssignStmt)
			if !ok || len(as.Lhs) != 1 || len(as.Rhs) != 1 {
				return true
			}
			switch {
			case isField(as.Lhs[0], recv, "ContextState"):
				ie, ok := core.Unparen(as.Rhs[0]).(*ast.IndexExpr)
				if restore != nil || !ok || !isField(ie.X, recv, "stack") || !isLast(ie.Index) {
					bad = "the state is not restored exactly once from the last element of the stack"
				}
				restore = as
			case isField(as.Lhs[0], recv, "stack"):
				se, ok := core.Unparen(as.Rhs[0]).(*ast.SliceExpr)
				if shrink != nil || !ok || se.Low != nil || se.Slice3 || !isField(se.X, recv, "stack") || !isLast(se.High) {
					bad = "the stack is not shrunk by exactly its last element"
				}
				shrink = as
			default:
				if names, rooted := ctxFieldPath(info, as.Lhs[0], recv); rooted && len(names) > 0 && stateFields[names[0]] {
					bad = "a single field of the state is assigned besides the whole ContextState"
				}
			}
			return true
		})
		if bad == "" && (restore == nil || shrink == nil) {
			bad = "Pop does not both restore the whole ContextState and shrink the stack"
		}
		if bad == "" && shrink.Pos() < restore.Pos() {
			if _, usesLocal := core.Unparen(restore.(*ast.AssignStmt).Rhs[0].(*ast.IndexExpr).Index).(*ast.Ident); !usesLocal {
				bad = "the stack is shrunk before the last element is read with an index recomputed from its length"
			}
		}
		if bad == "" {
			// with an empty stack no path reaches the restore
			reached := false
			env := func(e ast.Expr) tri {
				be, ok := e.(*ast.BinaryExpr)
				if !ok {
					return tUnknown
				}
				isLen := func(x ast.Expr) bool {
					pe, ok := polyOf(info, x, lenSym, defs)
					return ok && polyEqual(pe, poly{"n": 1})
				}
				isZero := func(x ast.Expr) bool {
					v, ok := core.ConstInt(info, x)
					return ok && v == 0
				}
				x, y, op := be.X, be.Y, be.Op
				if isZero(x) && isLen(y) {
					x, y = y, x
					switch op {
					case token.LSS:
						op = token.GTR
					case token.GTR:
						op = token.LSS
					case token.LEQ:
						op = token.GEQ
					case token.GEQ:
						op = token.LEQ
					}
				}
				if !isLen(x) || !isZero(y) {
					return tUnknown
				}
				switch op { // len == 0 assumed
				case token.EQL, token.LEQ, token.GEQ:
					return tTrue
				case token.NEQ, token.GTR, token.LSS:
					return tFalse
				}
				return tUnknown
			}
			var walk func(stmts []ast.Stmt) bool // returns false when the path ended
			walk = func(stmts []ast.Stmt) bool {
				for _, st := range stmts {
					switch x := st.(type) {
					case *ast.ReturnStmt:
						return false
					case *ast.BlockStmt:
						if !walk(x.List) {
							return false
						}
					case *ast.IfStmt:
						t := tUnknown
						if x.Init == nil || true {
							t = evalBool(info, x.Cond, env)
						}
						contBody, contElse := true, true
						if t != tFalse {
							contBody = walk(x.Body.List)
						}
						if t != tTrue && x.Else != nil {
							switch el := x.Else.(type) {
							case *ast.BlockStmt:
								contElse = walk(el.List)
							case *ast.IfStmt:
								contElse = walk([]ast.Stmt{el})
							}
						}
						if t == tTrue && !contBody || t == tFalse && !contElse && x.Else != nil {
							return false
						}
					default:
						if st == restore {
							reached = true
						}
					}
				}
				return true
			}
			walk(pop.Body.List)
			if reached {
				bad = "with an empty stack the restore statement is reached: Pop indexes the stack at -1"
			}
		}
		if bad == "" {
			r.OK("E11.ctx-stack", "canvas.Context.Pop", c.Pos(pop.Pos()), "guard; restore whole state; shrink by one")
		} else {
			r.Fail("E11.ctx-stack", "canvas.Context.Pop", c.Pos(pop.Pos()), bad)
		}
	}

	// Fill / Stroke / FillStroke: over every path of the body
	for _, spec := range []struct{ fn, cleared string }{{"Context.Fill", "Stroke"}, {"Context.Stroke", "Fill"}, {"Context.FillStroke", ""}} {
		fd := core.MustFuncDecl(p, spec.fn)
		recv := recvObj(info, fd)
		key := "canvas." + spec.fn
		type st struct {
			saved    map[string]types.Object // paint name -> local holding it
			cleared  map[string]bool
			drawn    bool
			drawnOK  bool
			restored map[string]bool
			reset    bool
		}
		clone := func(a st) st {
			b := st{saved: map[string]types.Object{}, cleared: map[string]bool{}, restored: map[string]bool{}, drawn: a.drawn, drawnOK: a.drawnOK, reset: a.reset}
			for k, v := range a.saved {
				b.saved[k] = v
			}
			for k, v := range a.cleared {
				b.cleared[k] = v
			}
			for k, v := range a.restored {
				b.restored[k] = v
			}
			return b
		}
		bad := ""
		finish := func(a st) {
			if bad != "" {
				return
			}
			switch {
			case !a.reset:
				bad = "a path through the method returns without resetting the pending path: the sub-paths drawn (or skipped) now ride along with the next Fill/Stroke"
			case a.drawn && !a.drawnOK:
				if spec.cleared == "" {
					bad = "the path is drawn with a paint cleared"
				} else {
					bad = "the path is drawn without exactly Style." + spec.cleared + " cleared"
				}
			case a.drawn && spec.cleared != "" && !a.restored[spec.cleared]:
				bad = "Style." + spec.cleared + " is not restored from the saved value after the draw: a later draw would use the wrong paint"
			}
		}
		var walk func(stmts []ast.Stmt, a st, k func(st))
		walk = func(stmts []ast.Stmt, a st, k func(st)) {
			if len(stmts) == 0 {
				k(a)
				return
			}
			s0, rest := stmts[0], stmts[1:]
			next := func(b st) { walk(rest, b, k) }
			switch x := s0.(type) {
			case *ast.ReturnStmt:
				finish(a)
				return
			case *ast.BlockStmt:
				walk(x.List, a, next)
				return
			case *ast.IfStmt:
				walk(x.Body.List, clone(a), next)
				switch el := x.Else.(type) {
				case nil:
					next(clone(a))
				case *ast.BlockStmt:
					walk(el.List, clone(a), next)
				case *ast.IfStmt:
					walk([]ast.Stmt{el}, clone(a), next)
				}
				return
			case *ast.AssignStmt:
				if len(x.Lhs) == 1 && len(x.Rhs) == 1 {
					for _, paint := range []string{"Fill", "Stroke"} {
						if id, ok := x.Lhs[0].(*ast.Ident); ok && isField(x.Rhs[0], recv, "Style", paint) {
							a.saved[paint] = core.ObjOf(info, id)
						}
						if isField(x.Lhs[0], recv, "Style", paint) {
							if cl, ok := core.Unparen(x.Rhs[0]).(*ast.CompositeLit); ok && len(cl.Elts) == 0 {
								a.cleared[paint] = a.saved[paint] != nil
							} else if id, ok := core.Unparen(x.Rhs[0]).(*ast.Ident); ok && a.saved[paint] != nil && core.ObjOf(info, id) == a.saved[paint] {
								if a.drawn {
									a.restored[paint] = true
								}
								delete(a.cleared, paint)
							} else {
								a.cleared[paint] = false // some other value: neither cleared nor restored
							}
						}
					}
					if isField(x.Lhs[0], recv, "path") {
						a.reset = a.drawn || !hasDrawCall(info, fd)
						if !a.drawn {
							a.reset = true // a path that draws nothing may still reset
						}
					}
				}
			case *ast.ExprStmt:
				if call, ok := x.X.(*ast.CallExpr); ok {
					if f := core.CalleeOf(info, call); f != nil && f.Name() == "DrawPath" {
						a.drawn = true
						a.reset = false // the reset has to follow the draw
						want := map[string]bool{}
						if spec.cleared != "" {
							want[spec.cleared] = true
						}
						okc := true
						for _, paint := range []string{"Fill", "Stroke"} {
							if want[paint] != a.cleared[paint] {
								okc = false
							}
						}
						isPath := false
						for _, arg := range call.Args {
							if isField(arg, recv, "path") {
								isPath = true
							}
						}
						a.drawnOK = okc && isPath
					}
				}
			}
			walk(rest, a, k)
		}
		walk(fd.Body.List, st{saved: map[string]types.Object{}, cleared: map[string]bool{}, restored: map[string]bool{}}, finish)
		if bad == "" {
			r.OK("E11.ctx-restore", key, c.Pos(fd.Pos()), "every path: (save; clear; DrawPath; restore) or nothing drawn; path reset")
		} else {
			r.Fail("E11.ctx-restore", key, c.Pos(fd.Pos()), bad)
		}
	}
}

// hasDrawCall reports whether fd calls DrawPath at all.
func hasDrawCall(info *types.Info, fd *ast.FuncDecl) bool {
	found := false
	ast.Inspect(fd.Body, func(m ast.Node) bool {
		if call, ok := m.(*ast.CallExpr); ok {
			if f := core.CalleeOf(info, call); f != nil && f.Name() == "DrawPath" {
				found = true
			}
		}
		return true
	})
	return found
}

// E11ViewComposition: view helpers post-multiply; draw entry points assemble the same matrix.
func E11ViewComposition(c *core.Ctx, r *core.Report) {
	r.Rule("E11.view-postmul", "each Context view method M (Translate, Rotate, Scale, Shear, Reflect*, *About) is `c.view = c.view.Mul(Identity.M(its own parameters in order))` and ComposeView is `c.view = c.view.Mul(view)`: the new transformation is post-multiplied and is the one the method is named after")
	r.Rule("E11.draw-matrix", "FitImage, DrawPath, DrawText and DrawImage all build CoordSystemView().Mul(view).Translate(coordView.Dot(x,y)) (sibling agreement), and compensate text/images with a Y reflection exactly in the coordinate systems whose CoordSystemView reflects Y and an X reflection exactly where it reflects X")
	p := c.MustPkg("")
	info := p.TypesInfo
	methods := []string{"Translate", "ReflectX", "ReflectXAbout", "ReflectY", "ReflectYAbout", "Rotate", "RotateAbout", "Scale", "ScaleAbout", "Shear", "ShearAbout"}
	for _, m := range append([]string{"ComposeView"}, methods...) {
		fd := core.MustFuncDecl(p, "Context."+m)
		key := "canvas.Context." + m
		r.Func(key)
		nparams := 0
		for _, f := range fd.Type.Params.List {
			nparams += len(f.Names)
		}
		var ls []string
		for i := 1; i <= nparams; i++ {
			ls = append(ls, fmt.Sprintf("L%d", i))
		}
		// normalised over the whole declaration: receiver is L0, parameters L1..Lk in order
		want := "{L0.view=L0.view.Mul(Identity." + m + "(" + strings.Join(ls, ",") + "))}"
		if m == "ComposeView" {
			want = "{L0.view=L0.view.Mul(L1)}"
		}
		got := c.Norm(p, fd)
		r.Count("E11.view-methods", 1)
		if strings.HasSuffix(got, want) {
			r.OK("E11.view-postmul", key, c.Pos(fd.Pos()), "view = view.Mul(Identity."+m+"(parameters in order))")
		} else {
			r.Fail("E11.view-postmul", key, c.Pos(fd.Pos()), fmt.Sprintf("the method is `%s`; expected the body `view = view.Mul(Identity.%s(own parameters in order))` (post-multiplication by the transformation of the same name)", got, m))
		}
	}
	r.Floor("E11.view-methods", 12)

	// CoordSystemView table: which systems reflect X / Y
	csv := core.MustFuncDecl(p, "Context.CoordSystemView")
	reflX, reflY := map[string]bool{}, map[string]bool{}
	// the table is read where the matrix is computed: in CoordSystemView itself, or in the helper its
	// single return statement calls (so that the matrix follows the renderer's current size on every call)
	tableFn := csv
	if len(csv.Body.List) == 1 {
		if ret, ok := csv.Body.List[0].(*ast.ReturnStmt); ok && len(ret.Results) == 1 {
			if call, ok := core.Unparen(ret.Results[0]).(*ast.CallExpr); ok {
				if f := core.CalleeOf(info, call); f != nil && f.Pkg() == p.Types {
					for _, d := range core.AllFuncDecls(p) {
						if info.Defs[d.Name] == f {
							tableFn = d
						}
					}
				}
			} else if se, ok := core.Unparen(ret.Results[0]).(*ast.SelectorExpr); ok {
				if sel := info.Selections[se]; sel != nil && sel.Kind() == types.FieldVal {
					r.Fail("E11.draw-matrix", "canvas.Context.CoordSystemView|computed at the time of the draw", c.Pos(ret.Pos()), "CoordSystemView returns the stored field `"+types.ExprString(se)+"`: the reflections are about the centre of the renderer, whose size can change between SetCoordSystem and a draw (Fit, Clip, SetSize), so a stored matrix reflects about the old centre")
				}
			}
		}
	}
	// reflects(e, "ReflectXAbout", "Width"): a call of that method whose argument calls the size getter
	reflects := func(e ast.Expr, method, size string) bool {
		found := false
		ast.Inspect(e, func(k ast.Node) bool {
			call, ok := k.(*ast.CallExpr)
			if !ok || len(call.Args) != 1 {
				return true
			}
			se, ok := call.Fun.(*ast.SelectorExpr)
			if !ok || se.Sel.Name != method {
				return true
			}
			ast.Inspect(call.Args[0], func(q ast.Node) bool {
				if c2, ok := q.(*ast.CallExpr); ok {
					if s2, ok := c2.Fun.(*ast.SelectorExpr); ok && s2.Sel.Name == size {
						found = true
					}
				}
				return true
			})
			return true
		})
		return found
	}
	ast.Inspect(tableFn.Body, func(n ast.Node) bool {
		cc, ok := n.(*ast.CaseClause)
		if !ok || len(cc.Body) != 1 {
			return true
		}
		ret, ok := cc.Body[0].(*ast.ReturnStmt)
		if !ok || len(ret.Results) != 1 {
			return true
		}
		for _, k := range core.CaseConsts(info, cc) {
			if reflects(ret.Results[0], "ReflectXAbout", "Width") {
				reflX[k] = true
			}
			if reflects(ret.Results[0], "ReflectYAbout", "Height") {
				reflY[k] = true
			}
		}
		return true
	})
	wantX, wantY := map[string]bool{"CartesianII": true, "CartesianIII": true}, map[string]bool{"CartesianIII": true, "CartesianIV": true}
	if setEq(reflX, wantX) && setEq(reflY, wantY) {
		r.OK("E11.draw-matrix", "canvas.Context.CoordSystemView|table", c.Pos(csv.Pos()), "X reflected in II,III; Y reflected in III,IV (origin at the corresponding corner)")
	} else {
		r.Fail("E11.draw-matrix", "canvas.Context.CoordSystemView|table", c.Pos(csv.Pos()), fmt.Sprintf("X is reflected about the canvas centre in {%s} and Y in {%s}; quadrant II/III need X and III/IV need Y", setStr(reflX), setStr(reflY)))
	}
	// draw entry points
	for _, fn := range []string{"FitImage", "DrawPath", "DrawText", "DrawImage"} {
		fd := core.MustFuncDecl(p, "Context."+fn)
		key := "canvas.Context." + fn
		r.Func(key)
		norm := c.Norm(p, fd)
		okCoord := core.AlphaContains("$coord:=$c.coordView.Dot(Point{$x,$y})", norm)
		okChain := core.AlphaContains("$m:=$c.CoordSystemView().Mul($c.view).Translate($coord.X,$coord.Y)", norm)
		if !okChain {
			// DrawPath builds it in two steps
			_, okChain = core.AlphaSeq(norm, "$m:=$c.CoordSystemView();", "$m=$m.Mul($c.view).Translate($coord.X,$coord.Y)")
		}
		if okCoord && okChain {
			r.OK("E11.draw-matrix", key+"|matrix", c.Pos(fd.Pos()), "CoordSystemView().Mul(view).Translate(coordView.Dot(x,y))")
		} else {
			r.Fail("E11.draw-matrix", key+"|matrix", c.Pos(fd.Pos()), fmt.Sprintf("the draw matrix is not assembled as CoordSystemView().Mul(view).Translate(coord.X, coord.Y) with coord := coordView.Dot(Point{x, y}) (coord: %v, chain: %v), unlike its sibling entry points", okCoord, okChain))
		}
		if fn == "DrawPath" {
			continue
		}
		// compensation conditions
		gotX, gotY := map[string]bool{}, map[string]bool{}
		for _, s := range fd.Body.List {
			is, ok := s.(*ast.IfStmt)
			if !ok || len(is.Body.List) != 1 {
				continue
			}
			bas, isAs := is.Body.List[0].(*ast.AssignStmt)
			if !isAs || len(bas.Rhs) != 1 {
				continue
			}
			body := ""
			if bc, isCall := core.Unparen(bas.Rhs[0]).(*ast.CallExpr); isCall {
				if bse, isSel := bc.Fun.(*ast.SelectorExpr); isSel {
					body = "m." + bse.Sel.Name
				}
			}
			set := map[string]bool{}
			okCond := true
			var collect func(e ast.Expr)
			collect = func(e ast.Expr) {
				be, ok := core.Unparen(e).(*ast.BinaryExpr)
				if !ok {
					okCond = false
					return
				}
				if be.Op == token.LOR {
					collect(be.X)
					collect(be.Y)
					return
				}
				if se, isSel := core.Unparen(be.X).(*ast.SelectorExpr); isSel && be.Op == token.EQL && se.Sel.Name == "coordSystem" {
					set[core.ConstName(info, be.Y)] = true
					return
				}
				okCond = false
			}
			collect(is.Cond)
			if !okCond {
				continue
			}
			switch {
			case strings.HasPrefix(body, "m.ReflectY"):
				for k := range set {
					gotY[k] = true
				}
			case strings.HasPrefix(body, "m.ReflectX"):
				for k := range set {
					gotX[k] = true
				}
			}
		}
		if setEq(gotX, reflX) && setEq(gotY, reflY) {
			r.OK("E11.draw-matrix", key+"|upright compensation", c.Pos(fd.Pos()), "reflects back exactly where CoordSystemView reflects")
		} else {
			r.Fail("E11.draw-matrix", key+"|upright compensation", c.Pos(fd.Pos()), fmt.Sprintf("compensates X in {%s} and Y in {%s}, but CoordSystemView reflects X in {%s} and Y in {%s}: text/images come out mirrored in some coordinate system", setStr(gotX), setStr(gotY), setStr(reflX), setStr(reflY)))
		}
	}
}

// E11Replay: RenderViewTo replays in ascending z-index, then drawing order, outside any map range.
func E11Replay(c *core.Ctx, r *core.Report) {
	r.Rule("E11.replay-order", "Canvas.RenderViewTo collects the z-indices, sorts them ascending, and only then calls the renderer, iterating the sorted indices and each layer slice in order; no renderer call happens inside a range over the layers map; recording appends to the slice of the current z-index")
	p := c.MustPkg("")
	info := p.TypesInfo
	fd := core.MustFuncDecl(p, "Canvas.RenderViewTo")
	r.Func("canvas.Canvas.RenderViewTo")
	norm := c.Norm(p, fd)
	bad := ""
	// no renderer call inside a range over the layers map
	ast.Inspect(fd.Body, func(n ast.Node) bool {
		rs, ok := n.(*ast.RangeStmt)
		if !ok {
			return true
		}
		if _, isMap := info.TypeOf(rs.X).Underlying().(*types.Map); !isMap {
			return true
		}
		ast.Inspect(rs.Body, func(m ast.Node) bool {
			if call, ok := m.(*ast.CallExpr); ok {
				if se, ok := call.Fun.(*ast.SelectorExpr); ok && strings.HasPrefix(se.Sel.Name, "Render") {
					bad = "the renderer is called inside a range over the layers map (random order)"
				}
			}
			return true
		})
		return true
	})
	_, seq := core.AlphaSeq(norm, "for $z:=range $c.layers{$zs=append($zs,$z)}", "sort.Ints($zs)", "for _,$z2:=range $zs{for _,$l:=range $c.layers[$z2]{", "$r.RenderPath($l.path,$l.style,", "$r.RenderText($l.text,", "$r.RenderImage($l.img,")
	if seq && bad == "" {
		r.OK("E11.replay-order", "canvas.Canvas.RenderViewTo", c.Pos(fd.Pos()), "collect z-indices; sort.Ints; replay per z-index in slice order")
	} else {
		if bad == "" {
			bad = "the sequence collect z-indices / sort.Ints / for each z-index replay its layer slice in order was not found"
		}
		r.Fail("E11.replay-order", "canvas.Canvas.RenderViewTo", c.Pos(fd.Pos()), bad)
	}
	// recording appends
	for _, m := range []string{"RenderPath", "RenderText", "RenderImage"} {
		fd := core.MustFuncDecl(p, "Canvas."+m)
		ok := core.AlphaContains("$c.layers[$c.zindex]=append($c.layers[$c.zindex],", c.Norm(p, fd))
		key := "canvas.Canvas." + m + "|records in drawing order"
		if ok {
			r.OK("E11.replay-order", key, c.Pos(fd.Pos()), "c.layers[c.zindex] = append(c.layers[c.zindex], …)")
		} else {
			r.Fail("E11.replay-order", key, c.Pos(fd.Pos()), "the operation is not appended to the layer slice of the current z-index")
		}
	}
}

// E11CutCarried: in SplitAt's cut loops the previous cut position is carried into the next cut.
func E11CutCarried(c *core.Ctx, r *core.Report) {
	r.Rule("E11.cut-carried", "Path.SplitAt: in every curve case's cut loop the cut parameter invL(…) (named or not) is saved into a float variable declared before the loop, that variable is assigned exactly this absolute parameter — not a value rescaled to the remaining piece — and it is read inside the loop: each cut splits the remaining piece relative to the previous cut, not relative to the start of the whole segment (sibling agreement between the quadratic, cubic and arc cases)")
	p := c.MustPkg("")
	info := p.TypesInfo
	fd := core.MustFuncDecl(p, "Path.SplitAt")
	r.Func("canvas.Path.SplitAt")
	n := 0
	for _, cc := range cmdSwitchClauses(p, fd) {
		label := core.CaseLabel(info, cc)
		ast.Inspect(cc, func(nd ast.Node) bool {
			fs, ok := nd.(*ast.ForStmt)
			if !ok || fs.Init != nil || fs.Post != nil || fs.Cond == nil {
				return true
			}
			// the absolute cut parameter: a call of a local function value (invL(…)), possibly named by `t := invL(…)`
			var cutCall *ast.CallExpr
			var cutVar types.Object
			ast.Inspect(fs.Body, func(m ast.Node) bool {
				call, ok := m.(*ast.CallExpr)
				if !ok || cutCall != nil {
					return true
				}
				if id, ok := call.Fun.(*ast.Ident); ok {
					if v, ok := core.ObjOf(info, id).(*types.Var); ok {
						if sig, isSig := v.Type().Underlying().(*types.Signature); isSig && v.Pos() < fs.Pos() && sig.Params().Len() == 1 && sig.Results().Len() == 1 {
							if b, ok := sig.Results().At(0).Type().Underlying().(*types.Basic); ok && b.Info()&types.IsFloat != 0 {
								cutCall = call
							}
						}
					}
				}
				return true
			})
			if cutCall == nil {
				return true
			}
			for _, s := range fs.Body.List {
				if as, ok := s.(*ast.AssignStmt); ok && as.Tok == token.DEFINE && len(as.Lhs) == 1 && len(as.Rhs) == 1 && core.Unparen(as.Rhs[0]) == ast.Expr(cutCall) {
					cutVar = info.Defs[as.Lhs[0].(*ast.Ident)]
				}
			}
			isAbs := func(e ast.Expr) bool {
				e = core.Unparen(e)
				if id, ok := e.(*ast.Ident); ok && cutVar != nil && core.ObjOf(info, id) == cutVar {
					return true
				}
				return types.ExprString(e) == types.ExprString(cutCall)
			}
			// locals of the loop body that depend on the cut (t, tsub, …)
			dep := map[types.Object]bool{}
			if cutVar != nil {
				dep[cutVar] = true
			}
			mentionsDep := func(e ast.Node) bool {
				found := false
				ast.Inspect(e, func(k ast.Node) bool {
					if k == ast.Node(cutCall) {
						found = true
					}
					if kc, ok := k.(*ast.CallExpr); ok && types.ExprString(kc) == types.ExprString(cutCall) {
						found = true
					}
					if id, ok := k.(*ast.Ident); ok && dep[core.ObjOf(info, id)] {
						found = true
					}
					return true
				})
				return found
			}
			for _, s := range fs.Body.List {
				if as, ok := s.(*ast.AssignStmt); ok && as.Tok == token.DEFINE {
					for i, l := range as.Lhs {
						if id, ok := l.(*ast.Ident); ok && i < len(as.Rhs) && mentionsDep(as.Rhs[i]) {
							dep[info.Defs[id]] = true
						}
					}
				}
			}
			n++
			key := fmt.Sprintf("canvas.Path.SplitAt|%s|cut loop", label)
			// float variables declared before the loop and assigned from the cut inside it
			var carried types.Object
			var carryStmt ast.Node
			bad := ""
			for _, s := range fs.Body.List {
				as, ok := s.(*ast.AssignStmt)
				if !ok || as.Tok != token.ASSIGN || len(as.Lhs) != len(as.Rhs) {
					continue
				}
				for i, l := range as.Lhs {
					lid, ok := l.(*ast.Ident)
					if !ok {
						continue
					}
					o := core.ObjOf(info, lid)
					if o == nil || !(o.Pos() < fs.Pos()) {
						continue
					}
					if b, ok := o.Type().Underlying().(*types.Basic); !ok || b.Info()&types.IsFloat == 0 {
						continue
					}
					if !mentionsDep(as.Rhs[i]) {
						continue
					}
					if isAbs(as.Rhs[i]) {
						carried, carryStmt = o, as
					} else {
						bad = fmt.Sprintf("`%s` is carried to the next cut but is assigned `%s`, not the cut's own parameter `%s`: from the third cut of one segment on, the remaining piece is split at a parameter measured on the wrong scale", lid.Name, c.Src(as.Rhs[i]), c.Src(cutCall))
					}
				}
			}
			if bad != "" {
				r.Fail("E11.cut-carried", key, c.Pos(fs.Pos()), bad)
				return true
			}
			if carried == nil {
				r.Fail("E11.cut-carried", key, c.Pos(fs.Pos()), "the cut parameter is not saved for the next iteration: the second cut of one segment would be computed from the segment's start")
				return true
			}
			read := false
			ast.Inspect(fs.Body, func(m ast.Node) bool {
				if m == carryStmt {
					return false
				}
				if id, ok := m.(*ast.Ident); ok && core.ObjOf(info, id) == carried {
					read = true
				}
				return true
			})
			if read {
				r.OK("E11.cut-carried", key, c.Pos(fs.Pos()), carried.Name()+" carries the previous cut and is read in the loop")
			} else {
				r.Fail("E11.cut-carried", key, c.Pos(fs.Pos()), fmt.Sprintf("`%s` remembers the previous cut position but is never read inside the cut loop: a second cut within the same segment is made relative to the segment's start instead of the previous cut (the siblings use it)", carried.Name()))
			}
			return true
		})
	}
	r.Count("E11.cut-loops", n)
	r.Floor("E11.cut-loops", 3)
}

// E11CapJoin: closed sub-paths are joined and never capped; open ones are capped iff stroking.
func E11CapJoin(c *core.Ctx, r *core.Report) {
	r.Rule("E11.cap-join", "(*Path).offset: `closed` is set exactly in the Close case of the decoder; every Capper.Cap call is control-dependent on `!closed && strokeOpen` (the else-if branch of `if closed`), once at the last end point/normal and once at the first point with the negated first normal; the join condition includes the wrap-around `|| closed` to states[0]; the closed branch closes both offset curves; Stroke passes strokeOpen=true with its own capper/joiner, Offset passes false")
	p := c.MustPkg("")
	info := p.TypesInfo
	fd := core.MustFuncDecl(p, "Path.offset")
	r.Func("canvas.Path.offset")
	crObj, jrObj, soObj := paramObj(info, fd, 1), paramObj(info, fd, 2), paramObj(info, fd, 3)
	nosp := func(n ast.Node) string { return squash(c.Src(n)) }
	_ = nosp
	// (c) closed assignments
	var closedObj types.Object
	for _, s := range fd.Body.List {
		if as, ok := s.(*ast.AssignStmt); ok && as.Tok == token.DEFINE && len(as.Lhs) == 1 {
			if id, ok := as.Lhs[0].(*ast.Ident); ok {
				if cid, isId := core.Unparen(as.Rhs[0]).(*ast.Ident); isId && cid.Name == "false" {
					closedObj = info.Defs[id] // the first bool local initialised to false
				}
			}
		}
	}
	if closedObj == nil || crObj == nil || jrObj == nil || soObj == nil {
		panic(core.Infra("offset: closed/cr/jr/strokeOpen not found"))
	}
	okClosed, badClosed := 0, 0
	for _, cc := range cmdSwitchClauses(p, fd) {
		isClose := false
		for _, k := range core.CaseConsts(info, cc) {
			if k == "CloseCmd" {
				isClose = true
			}
		}
		ast.Inspect(cc, func(n ast.Node) bool {
			if as, ok := n.(*ast.AssignStmt); ok && as.Tok == token.ASSIGN {
				for i, l := range as.Lhs {
					if id, ok := l.(*ast.Ident); ok && core.ObjOf(info, id) == closedObj {
						if isClose && nosp(as.Rhs[i]) == "true" {
							okClosed++
						} else {
							badClosed++
						}
					}
				}
			}
			return true
		})
	}
	// any assignment outside the command switch?
	total := 0
	ast.Inspect(fd.Body, func(n ast.Node) bool {
		if as, ok := n.(*ast.AssignStmt); ok && as.Tok == token.ASSIGN {
			for _, l := range as.Lhs {
				if id, ok := l.(*ast.Ident); ok && core.ObjOf(info, id) == closedObj {
					total++
				}
			}
		}
		return true
	})
	// … and on every path through the Close case: a direct statement of the case body, with no
	// break/continue/return/goto anywhere before it in the clause
	uncond := false
	for _, cc := range cmdSwitchClauses(p, fd) {
		isClose := false
		for _, k := range core.CaseConsts(info, cc) {
			if k == "CloseCmd" {
				isClose = true
			}
		}
		if !isClose {
			continue
		}
		escaped := false
		for _, st := range cc.Body {
			if as, ok := st.(*ast.AssignStmt); ok && as.Tok == token.ASSIGN && len(as.Lhs) == 1 {
				if id, ok := as.Lhs[0].(*ast.Ident); ok && core.ObjOf(info, id) == closedObj && !escaped {
					uncond = true
				}
			}
			ast.Inspect(st, func(n ast.Node) bool {
				switch n.(type) {
				case *ast.BranchStmt, *ast.ReturnStmt:
					escaped = true
				case *ast.FuncLit:
					return false
				}
				return true
			})
		}
	}
	if okClosed >= 1 && badClosed == 0 && total == okClosed && !uncond {
		r.Fail("E11.cap-join", "canvas.Path.offset|closed flag", c.Pos(fd.Pos()), "`closed = true` is not reached on every path through the Close case (a break/return precedes it or it is nested in a condition): some closed sub-paths, e.g. those whose closing segment has zero length, are treated as open and get caps instead of a join")
	} else if okClosed >= 1 && badClosed == 0 && total == okClosed {
		r.OK("E11.cap-join", "canvas.Path.offset|closed flag", c.Pos(fd.Pos()), "set to true only, and unconditionally, in case CloseCmd")
	} else {
		r.Fail("E11.cap-join", "canvas.Path.offset|closed flag", c.Pos(fd.Pos()), fmt.Sprintf("`closed` is assigned %d times, %d of them `= true` inside the CloseCmd case: open and closed sub-paths are confused", total, okClosed))
	}
	// (a) caps under else-if strokeOpen of `if closed`
	var closedIf *ast.IfStmt
	for _, s := range fd.Body.List {
		if is, ok := s.(*ast.IfStmt); ok {
			if id, ok := core.Unparen(is.Cond).(*ast.Ident); ok && core.ObjOf(info, id) == closedObj {
				closedIf = is
			}
		}
	}
	var caps []*ast.CallExpr
	ast.Inspect(fd.Body, func(n ast.Node) bool {
		if call, ok := n.(*ast.CallExpr); ok {
			if se, ok := call.Fun.(*ast.SelectorExpr); ok && se.Sel.Name == "Cap" {
				if id, ok := core.Unparen(se.X).(*ast.Ident); ok && core.ObjOf(info, id) == crObj {
					caps = append(caps, call)
				}
			}
		}
		return true
	})
	r.Count("E11.cap-calls", len(caps))
	if closedIf == nil {
		r.Fail("E11.cap-join", "canvas.Path.offset|if closed", c.Pos(fd.Pos()), "no `if closed { … } else if strokeOpen { … }` statement at the end of offset")
		return
	}
	var openBranch *ast.IfStmt
	if ei, ok := closedIf.Else.(*ast.IfStmt); ok {
		if id, ok := core.Unparen(ei.Cond).(*ast.Ident); ok && core.ObjOf(info, id) == soObj {
			openBranch = ei
		}
	}
	for i, call := range caps {
		key := fmt.Sprintf("canvas.Path.offset|Cap call #%d", i+1)
		if openBranch != nil && call.Pos() >= openBranch.Body.Pos() && call.End() <= openBranch.Body.End() {
			r.OK("E11.cap-join", key, c.Pos(call.Pos()), "inside `else if strokeOpen` of `if closed`")
		} else {
			r.Fail("E11.cap-join", key, c.Pos(call.Pos()), "a cap is added outside the `!closed && strokeOpen` branch: closed sub-paths (or pure offsets) would get caps")
		}
	}
	norm := c.Norm(p, fd)
	if len(caps) == 2 {
		_, seq := core.AlphaSeq(norm, "$cr.Cap($rhs,$hw,$st[len($st)-1].p1,$st[len($st)-1].n1)", "$cr.Cap($rhs,$hw,$st[0].p0,$st[0].n0.Neg())")
		if seq {
			r.OK("E11.cap-join", "canvas.Path.offset|cap positions", c.Pos(caps[0].Pos()), "end cap at last p1/n1, start cap at first p0/-n0")
		} else {
			r.Fail("E11.cap-join", "canvas.Path.offset|cap positions", c.Pos(caps[0].Pos()), "the two caps are not placed at (last end point, last normal) and (first start point, negated first normal)")
		}
	} else {
		r.Fail("E11.cap-join", "canvas.Path.offset|cap positions", c.Pos(fd.Pos()), fmt.Sprintf("expected two Cap calls (end and start), found %d", len(caps)))
	}
	// closed branch closes both sides
	cb := c.Norm(p, closedIf.Body)
	if core.AlphaContains("$rhs.Close();$lhs.Close()", cb) {
		r.OK("E11.cap-join", "canvas.Path.offset|closed branch closes both curves", c.Pos(closedIf.Pos()), "")
	} else {
		r.Fail("E11.cap-join", "canvas.Path.offset|closed branch closes both curves", c.Pos(closedIf.Pos()), "a closed sub-path must yield closed right- and left-hand offset curves")
	}
	// (b) wrap-around join
	if core.AlphaContains("if $i+1<len($st)||$closed{$next:=$st[0];if $i+1<len($st){$next=$st[$i+1]}", norm) {
		r.OK("E11.cap-join", "canvas.Path.offset|wrap-around join", c.Pos(fd.Pos()), "join when i+1 < len(states) || closed, with next = states[0] at the end of a closed sub-path")
	} else {
		r.Fail("E11.cap-join", "canvas.Path.offset|wrap-around join", c.Pos(fd.Pos()), "the Joiner is not applied between the last and the first segment of a closed sub-path (condition `i+1 < len(states) || closed`, next = states[0])")
	}
	// (d) callers
	for fn, want := range map[string]string{"Path.Stroke": "$pi.offset($hw,$cr,$jr,true,$tol)", "Path.Offset": "$pi.offset($w,ButtCap,RoundJoin,false,$tol)"} {
		f2 := core.MustFuncDecl(p, fn)
		key := "canvas." + fn + "|offset call"
		ok := core.AlphaContains(want, c.Norm(p, f2))
		// Stroke must forward its own capper/joiner parameters
		if ok && fn == "Path.Stroke" {
			ok = false
			ast.Inspect(f2.Body, func(n ast.Node) bool {
				if call, isCall := n.(*ast.CallExpr); isCall && len(call.Args) == 5 {
					if f := core.CalleeOf(info, call); f != nil && f.Name() == "offset" {
						a1, _ := core.Unparen(call.Args[1]).(*ast.Ident)
						a2, _ := core.Unparen(call.Args[2]).(*ast.Ident)
						if a1 != nil && a2 != nil && core.ObjOf(info, a1) == paramObj(info, f2, 1) && core.ObjOf(info, a2) == paramObj(info, f2, 2) {
							ok = true
						}
					}
				}
				return true
			})
		}
		if ok {
			r.OK("E11.cap-join", key, c.Pos(f2.Pos()), want)
		} else {
			r.Fail("E11.cap-join", key, c.Pos(f2.Pos()), fmt.Sprintf("does not call `%s` (Stroke caps open sub-paths with its own capper/joiner, Offset never caps)", want))
		}
	}
	r.Floor("E11.cap-calls", 2)
}

// E11DashIndependence: in Dash the per-sub-path state is re-initialised in every iteration.
func E11DashIndependence(c *core.Ctx, r *core.Report) {
	r.Rule("E11.dash-independent", "Path.Dash: every variable assigned inside the `for … range p.Split()` loop and read in it is declared inside the loop, except the output accumulator; so the phase, pattern index and cut list of one sub-path cannot depend on the previous sub-path (each starts from the same i0/pos0)")
	p := c.MustPkg("")
	info := p.TypesInfo
	fd := core.MustFuncDecl(p, "Path.Dash")
	r.Func("canvas.Path.Dash")
	var loop *ast.RangeStmt
	for _, s := range fd.Body.List {
		if rs, ok := s.(*ast.RangeStmt); ok && strings.ReplaceAll(types.ExprString(rs.X), " ", "") == "p.Split()" {
			loop = rs
		}
	}
	if loop == nil {
		panic(core.Infra("Dash: range p.Split() loop not found"))
	}
	// variables assigned in the loop but declared outside it
	carried := map[types.Object]token.Pos{}
	ast.Inspect(loop.Body, func(n ast.Node) bool {
		switch x := n.(type) {
		case *ast.AssignStmt:
			if x.Tok == token.DEFINE {
				return true
			}
			for _, l := range x.Lhs {
				if id, ok := l.(*ast.Ident); ok {
					if o := core.ObjOf(info, id); o != nil && (o.Pos() < loop.Pos() || o.Pos() > loop.End()) {
						carried[o] = x.Pos()
					}
				}
			}
		case *ast.IncDecStmt:
			if id, ok := x.X.(*ast.Ident); ok {
				if o := core.ObjOf(info, id); o != nil && (o.Pos() < loop.Pos() || o.Pos() > loop.End()) {
					carried[o] = x.Pos()
				}
			}
		}
		return true
	})
	// the accumulator: the variable returned by the function
	var acc types.Object
	if ret, ok := fd.Body.List[len(fd.Body.List)-1].(*ast.ReturnStmt); ok && len(ret.Results) == 1 {
		if id, ok := ret.Results[0].(*ast.Ident); ok {
			acc = core.ObjOf(info, id)
		}
	}
	n := 0
	for o, pos := range carried {
		n++
		key := "canvas.Path.Dash|loop-carried " + o.Name()
		if o == acc {
			r.OK("E11.dash-independent", key, c.Pos(pos), "the output accumulator")
		} else {
			r.Fail("E11.dash-independent", key, c.Pos(pos), fmt.Sprintf("`%s` is declared outside the sub-path loop and assigned inside it: the dashing of one sub-path depends on where the previous sub-path ended", o.Name()))
		}
	}
	if acc == nil || carried[acc] == token.NoPos {
		r.Fail("E11.dash-independent", "canvas.Path.Dash|accumulator", c.Pos(loop.Pos()), "the returned path is not accumulated inside the sub-path loop")
	}
	// nothing computed from the whole path may be consulted for an individual sub-path
	recv := recvObj(info, fd)
	derived := map[types.Object]ast.Node{}
	for _, st := range fd.Body.List {
		if st == ast.Stmt(loop) {
			break
		}
		as, ok := st.(*ast.AssignStmt)
		if !ok {
			continue
		}
		mentionsRecv := false
		for _, rhs := range as.Rhs {
			ast.Inspect(rhs, func(m ast.Node) bool {
				if id, ok := m.(*ast.Ident); ok && core.ObjOf(info, id) == recv {
					mentionsRecv = true
				}
				return true
			})
		}
		if mentionsRecv {
			for _, l := range as.Lhs {
				if id, ok := l.(*ast.Ident); ok {
					derived[core.ObjOf(info, id)] = as
				}
			}
		}
	}
	whole := ""
	var wholePos token.Pos
	ast.Inspect(loop.Body, func(m ast.Node) bool {
		if id, ok := m.(*ast.Ident); ok {
			o := core.ObjOf(info, id)
			if o == recv || derived[o] != nil {
				whole, wholePos = id.Name, id.Pos()
			}
		}
		return true
	})
	if whole == "" {
		r.OK("E11.dash-independent", "canvas.Path.Dash|no whole-path value in the sub-path loop", c.Pos(loop.Pos()), "")
	} else {
		r.Fail("E11.dash-independent", "canvas.Path.Dash|no whole-path value in the sub-path loop", c.Pos(wholePos), fmt.Sprintf("`%s`, which is (derived from) the whole receiver path, is consulted inside the loop over its sub-paths: a property of the whole path (e.g. whether its last sub-path is closed) then decides how every sub-path is dashed", whole))
	}
	// the per-sub-path state starts from the pattern start computed once
	_, okStart := core.AlphaSeq(c.Norm(p, fd), "$i0,$pos0:=dashStart(", "for _,$ps:=range $p.Split(){$i:=$i0;$pos:=$pos0;")
	if okStart {
		r.OK("E11.dash-independent", "canvas.Path.Dash|per-sub-path start", c.Pos(loop.Pos()), "i := i0; pos := pos0 at the top of every iteration")
	} else {
		r.Fail("E11.dash-independent", "canvas.Path.Dash|per-sub-path start", c.Pos(loop.Pos()), "the pattern index/phase are not re-initialised from (i0, pos0) for every sub-path")
	}
	r.Count("E11.dash-carried", n)
	r.Floor("E11.dash-carried", 1)
}

// evalFloatWith evaluates an arithmetic expression over constants with one variable bound.
func evalFloatWith(info *types.Info, e ast.Expr, v types.Object, val float64) (float64, bool) {
	e = core.Unparen(e)
	if cv := core.ConstVal(info, e); cv != nil {
		f, _ := constantFloat(cv)
		return f, true
	}
	switch x := e.(type) {
	case *ast.Ident:
		if core.ObjOf(info, x) == v {
			return val, true
		}
	case *ast.BinaryExpr:
		a, ok1 := evalFloatWith(info, x.X, v, val)
		b, ok2 := evalFloatWith(info, x.Y, v, val)
		if !ok1 || !ok2 {
			return 0, false
		}
		switch x.Op {
		case token.MUL:
			return a * b, true
		case token.QUO:
			return a / b, true
		case token.ADD:
			return a + b, true
		case token.SUB:
			return a - b, true
		}
	}
	return 0, false
}

// E11SVGUnits: the unit tables of the SVG importer.
func E11SVGUnits(c *core.Ctx, r *core.Report) {
	r.Rule("E11.svg-dimension", "svgParser.parseDimension: each unit case returns num times the CSS factor to pixels (cm 96/2.54, mm 96/25.4, q 96/101.6, in 96, pc 16, pt 96/72, px 1) or to degrees (deg 1, grad 0.9, rad 180/π, turn 360); evaluated by constant folding with num = 1")
	r.Rule("E11.svg-size", "parseViewBox converts both the explicit width/height (pixels from parseDimension) and the viewBox fallback to millimetres with the same factor 25.4/96; init converts back with the inverse factor, selects the y-down coordinate system CartesianIV, and scales user units by size/viewBox (pixels to millimetres without a viewBox)")
	r.Rule("E11.svg-elements", "drawShape has a case for every basic shape of the property's grammar (rect, circle, ellipse, line, polyline, polygon, path)")
	p := c.MustPkg("")
	info := p.TypesInfo
	fd := core.MustFuncDecl(p, "svgParser.parseDimension")
	r.Func("canvas.svgParser.parseDimension")
	want := map[string]float64{"cm": 96 / 2.54, "mm": 96 / 25.4, "q": 96 / 25.4 / 4, "in": 96, "pc": 16, "pt": 96.0 / 72, "px": 1, "": 1,
		"deg": 1, "grad": 0.9, "rad": 180 / 3.141592653589793, "turn": 360}
	var numObj types.Object
	ast.Inspect(fd.Body, func(n ast.Node) bool {
		if as, ok := n.(*ast.AssignStmt); ok && as.Tok == token.DEFINE && len(as.Lhs) == 2 {
			if id, ok := as.Lhs[0].(*ast.Ident); ok && id.Name == "num" {
				numObj = info.Defs[id]
			}
		}
		return true
	})
	seen := map[string]bool{}
	ast.Inspect(fd.Body, func(n ast.Node) bool {
		cc, ok := n.(*ast.CaseClause)
		if !ok || len(cc.Body) != 1 {
			return true
		}
		ret, ok := cc.Body[0].(*ast.ReturnStmt)
		if !ok || len(ret.Results) != 1 {
			return true
		}
		for _, e := range cc.List {
			unit, ok := constString(info, e)
			if !ok {
				continue
			}
			w, known := want[unit]
			if !known {
				continue
			}
			seen[unit] = true
			r.Count("E11.svg-unit-cases", 1)
			key := fmt.Sprintf("canvas.svgParser.parseDimension|unit %q", unit)
			got, ok := evalFloatWith(info, ret.Results[0], numObj, 1.0)
			if !ok {
				r.Fail("E11.svg-dimension", key, c.Pos(ret.Pos()), "factor expression `"+types.ExprString(ret.Results[0])+"` cannot be folded")
			} else if diff := got - w; diff > 1e-9*w || diff < -1e-9*w {
				r.Fail("E11.svg-dimension", key, c.Pos(ret.Pos()), fmt.Sprintf("1%s is converted to %.10g, CSS defines %.10g", unit, got, w))
			} else {
				r.OK("E11.svg-dimension", key, c.Pos(ret.Pos()), fmt.Sprintf("%.6g", got))
			}
		}
		return true
	})
	for u := range want {
		if !seen[u] {
			r.Fail("E11.svg-dimension", fmt.Sprintf("canvas.svgParser.parseDimension|unit %q", u), c.Pos(fd.Pos()), "no case for this unit")
		}
	}
	r.Floor("E11.svg-unit-cases", 12)
	// parseViewBox: width/height in mm on both branches
	vb := core.MustFuncDecl(p, "svgParser.parseViewBox")
	nosp := func(n ast.Node) string { return squash(c.Src(n)) }
	var retIDs [2]types.Object
	if ret, ok := vb.Body.List[len(vb.Body.List)-1].(*ast.ReturnStmt); ok && len(ret.Results) == 3 {
		for i := 0; i < 2; i++ {
			if id, ok := ret.Results[i].(*ast.Ident); ok {
				retIDs[i] = core.ObjOf(info, id)
			}
		}
	}
	for di, dim := range []string{"width", "height"} {
		var exprs []string
		ast.Inspect(vb.Body, func(n ast.Node) bool {
			if as, ok := n.(*ast.AssignStmt); ok && as.Tok == token.ASSIGN && len(as.Lhs) == 1 {
				if id, ok := as.Lhs[0].(*ast.Ident); ok && retIDs[di] != nil && core.ObjOf(info, id) == retIDs[di] {
					exprs = append(exprs, nosp(as.Rhs[0]))
				}
			}
			return true
		})
		key := "canvas.svgParser.parseViewBox|" + dim + " in millimetres"
		okAll := len(exprs) == 2
		for _, e := range exprs {
			if !strings.HasSuffix(e, "*25.4/96.0") {
				okAll = false
			}
		}
		if okAll {
			r.OK("E11.svg-size", key, c.Pos(vb.Pos()), strings.Join(exprs, " | "))
		} else {
			r.Fail("E11.svg-size", key, c.Pos(vb.Pos()), fmt.Sprintf("the assignments to %s are %v: every branch must convert pixels to millimetres (×25.4/96); otherwise the canvas size is 96/25.4 times too large for documents that state their size", dim, exprs))
		}
	}
	in := core.MustFuncDecl(p, "svgParser.init")
	body := c.Norm(p, in)
	checks := []struct{ key, needle, msg string }{
		{"inverse factor", "$s.width,$s.height=$w*96.0/25.4,$h*96.0/25.4", "init must convert the millimetre size back to pixels with the inverse factor 96/25.4 (percentages resolve against it)"},
		{"y-down", "$s.ctx.SetCoordSystem(CartesianIV)", "SVG's y axis points down: the importer must select CartesianIV"},
		{"canvas size", "$s.c=New($w,$h)", "the canvas must be created with the millimetre size"},
		{"pixel user units", "Identity.Scale(25.4/96.0,25.4/96.0)", "without a viewBox user units are pixels and must be scaled to millimetres"},
	}
	for _, ck := range checks {
		key := "canvas.svgParser.init|" + ck.key
		if core.AlphaContains(ck.needle, body) {
			r.OK("E11.svg-size", key, c.Pos(in.Pos()), ck.needle)
		} else {
			r.Fail("E11.svg-size", key, c.Pos(in.Pos()), ck.msg)
		}
	}
	// viewBox scale, structurally: Scale(W/vb[2], H/vb[3]) then Translate(-vb[0], -vb[1]) — the viewBox
	// attribute is `min-x min-y width height`, so elements 2 and 3 are extents, not maxima
	{
		key := "canvas.svgParser.init|viewBox scale"
		info := p.TypesInfo
		vbIndex := func(e ast.Expr) (int64, bool) {
			ie, ok := core.Unparen(e).(*ast.IndexExpr)
			if !ok {
				return 0, false
			}
			if t := info.TypeOf(ie.X); t == nil || t.String() != "[4]float64" {
				return 0, false
			}
			return core.ConstInt(info, ie.Index)
		}
		okScale, okTrans := false, false
		ast.Inspect(in.Body, func(m ast.Node) bool {
			call, ok := m.(*ast.CallExpr)
			if !ok || len(call.Args) != 2 {
				return true
			}
			se, ok := call.Fun.(*ast.SelectorExpr)
			if !ok {
				return true
			}
			switch se.Sel.Name {
			case "Scale":
				good := 0
				for i, a := range call.Args {
					if be, ok := core.Unparen(a).(*ast.BinaryExpr); ok && be.Op == token.QUO {
						if k, ok := vbIndex(be.Y); ok && k == int64(2+i) {
							good++
						}
					}
				}
				if good == 2 {
					okScale = true
				}
			case "Translate":
				good := 0
				for i, a := range call.Args {
					if u, ok := core.Unparen(a).(*ast.UnaryExpr); ok && u.Op == token.SUB {
						if k, ok := vbIndex(u.X); ok && k == int64(i) {
							good++
						}
					}
				}
				if good == 2 {
					okTrans = true
				}
			}
			return true
		})
		if okScale && okTrans {
			r.OK("E11.svg-size", key, c.Pos(in.Pos()), "Scale(W/viewBox[2], H/viewBox[3]).Translate(-viewBox[0], -viewBox[1])")
		} else {
			r.Fail("E11.svg-size", key, c.Pos(in.Pos()), fmt.Sprintf("user units must be scaled by size/viewBox extent (elements 2 and 3 of `min-x min-y width height`) and shifted by the viewBox origin (scale recognised: %v, shift recognised: %v)", okScale, okTrans))
		}
		// no difference viewBox[2|3] - viewBox[0|1] anywhere in the file
		nvb := 0
		for _, fd2 := range core.AllFuncDecls(p) {
			if fd2.Body == nil || !strings.HasSuffix(c.Fset.Position(fd2.Pos()).Filename, "/svg.go") {
				continue
			}
			ast.Inspect(fd2.Body, func(m ast.Node) bool {
				if ie, ok := m.(*ast.IndexExpr); ok {
					if _, isVB := vbIndex(ie); isVB {
						nvb++
					}
				}
				be, ok := m.(*ast.BinaryExpr)
				if !ok || be.Op != token.SUB {
					return true
				}
				a, ok1 := vbIndex(be.X)
				b, ok2 := vbIndex(be.Y)
				if ok1 && ok2 && a >= 2 && b < 2 {
					r.Fail("E11.viewbox-extent", fmt.Sprintf("canvas.%s|viewBox[%d] used as an extent, not as a maximum", core.FuncName(fd2), a), c.Pos(be.Pos()), fmt.Sprintf("`%s` treats the viewBox as min-x min-y max-x max-y; the attribute is `min-x min-y width height`, so with a non-zero origin the drawing is scaled by width/(width−min-x)", c.Src(be)))
				}
				return true
			})
		}
		r.Rule("E11.viewbox-extent", "svg.go: the viewBox attribute is `min-x min-y width height`. Elements 2 and 3 of the parsed array are extents: no expression subtracts element 0 or 1 from them")
		r.OK("E11.viewbox-extent", "canvas svg.go|viewBox elements 2 and 3 are never reduced by the origin", c.Pos(in.Pos()), fmt.Sprintf("%d uses of the viewBox array", nvb))
		r.Count("E11.viewbox-uses", nvb)
		r.Floor("E11.viewbox-uses", 8)
	}
	// elements
	ds := core.MustFuncDecl(p, "svgParser.drawShape")
	tags := map[string]bool{}
	ast.Inspect(ds.Body, func(n ast.Node) bool {
		if cc, ok := n.(*ast.CaseClause); ok {
			for _, e := range cc.List {
				if s, ok := constString(info, e); ok {
					tags[s] = true
				}
			}
		}
		return true
	})
	for _, t := range []string{"rect", "circle", "ellipse", "line", "polyline", "polygon", "path"} {
		key := "canvas.svgParser.drawShape|<" + t + ">"
		if tags[t] {
			r.OK("E11.svg-elements", key, c.Pos(ds.Pos()), "")
		} else {
			r.Fail("E11.svg-elements", key, c.Pos(ds.Pos()), "no case draws <"+t+"> elements")
		}
	}
}

// E11Subsetter: glyph subsetter invariants.
func E11Subsetter(c *core.Ctx, r *core.Report) {
	r.Rule("E11.subsetter", "FontSubsetter: the constructor's literal puts .notdef (glyph 0) at index 0 of IDs and maps 0→0. Get, over every path of its body: a path on which the lookup in IDMap succeeded returns the looked-up code and neither appends nor records; a path on which it failed appends the glyph to IDs exactly once, records IDMap[glyph] = code and returns that code, where code was taken from len(IDs) before the append (one stable code per glyph, equal to the glyph's index in IDs). List returns IDs (or a copy) without reordering")
	p := c.MustPkg("")
	info := p.TypesInfo
	// constructor
	ctor := core.MustFuncDecl(p, "NewFontSubsetter")
	{
		okIDs, okMap := false, false
		ast.Inspect(ctor.Body, func(m ast.Node) bool {
			cl, ok := m.(*ast.CompositeLit)
			if !ok {
				return true
			}
			if t := info.TypeOf(cl); t == nil || !strings.HasSuffix(t.String(), "FontSubsetter") {
				return true
			}
			for _, el := range cl.Elts {
				kv, ok := el.(*ast.KeyValueExpr)
				if !ok {
					continue
				}
				k, _ := kv.Key.(*ast.Ident)
				v, isLit := core.Unparen(kv.Value).(*ast.CompositeLit)
				if k == nil || !isLit {
					continue
				}
				switch k.Name {
				case "IDs":
					if len(v.Elts) == 1 {
						if z, ok := core.ConstInt(info, v.Elts[0]); ok && z == 0 {
							okIDs = true
						}
					}
				case "IDMap":
					if len(v.Elts) == 1 {
						if e, ok := v.Elts[0].(*ast.KeyValueExpr); ok {
							a, ok1 := core.ConstInt(info, e.Key)
							b, ok2 := core.ConstInt(info, e.Value)
							if ok1 && ok2 && a == 0 && b == 0 {
								okMap = true
							}
						}
					}
				}
			}
			return true
		})
		if okIDs && okMap {
			r.OK("E11.subsetter", "canvas.NewFontSubsetter|.notdef at zero", c.Pos(ctor.Pos()), "IDs: {0}, IDMap: {0: 0}")
		} else {
			r.Fail("E11.subsetter", "canvas.NewFontSubsetter|.notdef at zero", c.Pos(ctor.Pos()), "the subsetter does not start with glyph 0 (.notdef) at code 0")
		}
	}
	get := core.MustFuncDecl(p, "FontSubsetter.Get")
	r.Func("canvas.FontSubsetter.Get")
	{
		recv := recvObj(info, get)
		glyph := paramObj(info, get, 0)
		isF := func(e ast.Expr, name string) bool {
			names, rooted := ctxFieldPath(info, e, recv)
			_, isIdx := core.Unparen(e).(*ast.IndexExpr)
			return rooted && !isIdx && len(names) == 1 && names[0] == name
		}
		isGlyph := func(e ast.Expr) bool {
			id, ok := core.Unparen(e).(*ast.Ident)
			return ok && core.ObjOf(info, id) == glyph
		}
		isLookup := func(e ast.Expr) bool {
			ie, ok := core.Unparen(e).(*ast.IndexExpr)
			return ok && isF(ie.X, "IDMap") && isGlyph(ie.Index)
		}
		type st struct {
			hit                 tri
			appended, recorded  int
			recordedOK          bool
			lookupV, okV, codeV types.Object // codeV: len(IDs) taken before any append
		}
		bad := ""
		n := 0
		finish := func(a st, ret ast.Expr, pos token.Pos) {
			if bad != "" {
				return
			}
			n++
			id, _ := core.Unparen(ret).(*ast.Ident)
			var ro types.Object
			if id != nil {
				ro = core.ObjOf(info, id)
			}
			switch a.hit {
			case tTrue:
				if a.appended != 0 || a.recorded != 0 {
					bad = "a glyph that already has a code is appended or recorded again: its code changes"
				} else if ro == nil || ro != a.lookupV {
					bad = "on a hit the returned value is not the code found in IDMap"
				}
			case tFalse:
				switch {
				case a.appended != 1:
					bad = fmt.Sprintf("a new glyph is appended to IDs %d times", a.appended)
				case a.recorded != 1 || !a.recordedOK:
					bad = "a new glyph's code is not recorded in IDMap as len(IDs) taken before the append"
				case ro == nil || ro != a.codeV:
					bad = "the code returned for a new glyph is not the one recorded (len(IDs) before the append)"
				}
			default:
				bad = "a path returns without having tested whether the glyph already has a code"
			}
			_ = pos
		}
		var walk func(stmts []ast.Stmt, a st)
		walk = func(stmts []ast.Stmt, a st) {
			for i, s0 := range stmts {
				switch x := s0.(type) {
				case *ast.ReturnStmt:
					if len(x.Results) == 1 {
						finish(a, x.Results[0], x.Pos())
					}
					return
				case *ast.BlockStmt:
					walk(append(append([]ast.Stmt{}, x.List...), stmts[i+1:]...), a)
					return
				case *ast.IfStmt:
					b := a
					if as, ok := x.Init.(*ast.AssignStmt); ok && len(as.Lhs) == 2 && len(as.Rhs) == 1 && isLookup(as.Rhs[0]) {
						if v, ok := as.Lhs[0].(*ast.Ident); ok {
							b.lookupV = core.ObjOf(info, v)
						}
						if v, ok := as.Lhs[1].(*ast.Ident); ok {
							b.okV = core.ObjOf(info, v)
						}
					}
					val := tUnknown
					cond := core.Unparen(x.Cond)
					neg := false
					if u, ok := cond.(*ast.UnaryExpr); ok && u.Op == token.NOT {
						cond, neg = core.Unparen(u.X), true
					}
					if id, ok := cond.(*ast.Ident); ok && b.okV != nil && core.ObjOf(info, id) == b.okV {
						val = triOf(!neg)
					}
					t, e := b, b
					if val != tUnknown {
						t.hit = val
						if val == tTrue {
							e.hit = tFalse
						} else {
							e.hit = tTrue
						}
					}
					walk(append(append([]ast.Stmt{}, x.Body.List...), stmts[i+1:]...), t)
					switch el := x.Else.(type) {
					case nil:
						walk(stmts[i+1:], e)
					case *ast.BlockStmt:
						walk(append(append([]ast.Stmt{}, el.List...), stmts[i+1:]...), e)
					case *ast.IfStmt:
						walk(append([]ast.Stmt{el}, stmts[i+1:]...), e)
					}
					return
				case *ast.AssignStmt:
					if len(x.Lhs) == 2 && len(x.Rhs) == 1 && isLookup(x.Rhs[0]) {
						if v, ok := x.Lhs[0].(*ast.Ident); ok {
							a.lookupV = core.ObjOf(info, v)
						}
						if v, ok := x.Lhs[1].(*ast.Ident); ok {
							a.okV = core.ObjOf(info, v)
						}
						continue
					}
					if len(x.Lhs) != 1 || len(x.Rhs) != 1 {
						continue
					}
					// code := uint16(len(s.IDs)) / len(s.IDs)
					hasLen := false
					ast.Inspect(x.Rhs[0], func(k ast.Node) bool {
						if call, ok := k.(*ast.CallExpr); ok && len(call.Args) == 1 {
							if fn, ok := core.Unparen(call.Fun).(*ast.Ident); ok && fn.Name == "len" && isF(call.Args[0], "IDs") {
								hasLen = true
							}
						}
						return true
					})
					if id, ok := x.Lhs[0].(*ast.Ident); ok && hasLen {
						if a.appended == 0 {
							a.codeV = core.ObjOf(info, id)
						} else if core.ObjOf(info, id) == a.codeV {
							a.codeV = nil
						}
						continue
					}
					if isF(x.Lhs[0], "IDs") {
						if call, ok := core.Unparen(x.Rhs[0]).(*ast.CallExpr); ok && len(call.Args) == 2 && !call.Ellipsis.IsValid() {
							if fn, ok := core.Unparen(call.Fun).(*ast.Ident); ok && fn.Name == "append" && isF(call.Args[0], "IDs") && isGlyph(call.Args[1]) {
								a.appended++
								continue
							}
						}
						a.appended += 2 // any other store into IDs
						continue
					}
					if isLookup(x.Lhs[0]) {
						a.recorded++
						id, ok := core.Unparen(x.Rhs[0]).(*ast.Ident)
						a.recordedOK = ok && a.codeV != nil && core.ObjOf(info, id) == a.codeV
						continue
					}
					if ie, ok := core.Unparen(x.Lhs[0]).(*ast.IndexExpr); ok && (isF(ie.X, "IDMap") || isF(ie.X, "IDs")) {
						a.recorded += 2 // a store under another key or into IDs by index
					}
				}
			}
			if bad == "" {
				bad = "a path leaves the function body without a return"
			}
		}
		walk(get.Body.List, st{})
		if bad == "" && n >= 2 {
			r.OK("E11.subsetter", "canvas.FontSubsetter.Get|stable codes", c.Pos(get.Pos()), fmt.Sprintf("%d paths: hit returns the code; miss: code = len(IDs) before the append, append once, record, return", n))
		} else {
			if bad == "" {
				bad = "fewer than two paths (hit and miss) through Get"
			}
			r.Fail("E11.subsetter", "canvas.FontSubsetter.Get|stable codes", c.Pos(get.Pos()), bad+": codes could be reassigned or disagree with the order of List()")
		}
	}
	list := core.MustFuncDecl(p, "FontSubsetter.List")
	{
		recv := recvObj(info, list)
		good, sorted := false, false
		ast.Inspect(list.Body, func(m ast.Node) bool {
			switch x := m.(type) {
			case *ast.ReturnStmt:
				if len(x.Results) == 1 {
					e := core.Unparen(x.Results[0])
					src := func(e ast.Expr) bool {
						names, rooted := ctxFieldPath(info, e, recv)
						return rooted && len(names) == 1 && names[0] == "IDs"
					}
					if src(e) {
						good = true
					}
					if call, ok := e.(*ast.CallExpr); ok {
						for _, a := range call.Args {
							if src(a) {
								if f := core.CalleeOf(info, call); f != nil && f.Name() == "Clone" {
									good = true
								}
								if fn, ok := core.Unparen(call.Fun).(*ast.Ident); ok && fn.Name == "append" && call.Ellipsis.IsValid() {
									good = true
								}
							}
						}
					}
				}
			case *ast.CallExpr:
				if f := core.CalleeOf(info, x); f != nil && f.Pkg() != nil && (f.Pkg().Path() == "sort" || strings.HasPrefix(f.Name(), "Sort") || f.Name() == "Reverse") {
					sorted = true
				}
			}
			return true
		})
		if good && !sorted {
			r.OK("E11.subsetter", "canvas.FontSubsetter.List", c.Pos(list.Pos()), "returns IDs in code order")
		} else {
			r.Fail("E11.subsetter", "canvas.FontSubsetter.List", c.Pos(list.Pos()), "List does not return the glyphs in the order of their codes")
		}
	}
}

func constantFloat(v constant.Value) (float64, bool) {
	return constant.Float64Val(constant.ToFloat(v))
}

// squash removes all whitespace.
func squash(s string) string { return strings.Join(strings.Fields(s), "") }

// E11SweepFlip: Transform negates the sweep flag exactly when the matrix reverses orientation.
func E11SweepFlip(c *core.Ctx, r *core.Report) {
	r.Rule("E11.sweep-flip", "Path.Transform negates an arc's sweep flag under a condition on the sign of the determinant of the matrix: the product of the two axis scales returned by m.Decompose() (or m.Det()) compared with zero; the diagonal entries of the matrix do not decide orientation (rotations and shears move the sign off the diagonal)")
	p := c.MustPkg("")
	info := p.TypesInfo
	fd := core.MustFuncDecl(p, "Path.Transform")
	r.Func("canvas.Path.Transform")
	mObj := paramObj(info, fd, 0)
	// results of m.Decompose()
	scale := map[types.Object]int{}
	ast.Inspect(fd.Body, func(n ast.Node) bool {
		as, ok := n.(*ast.AssignStmt)
		if !ok || len(as.Rhs) != 1 {
			return true
		}
		call, ok := core.Unparen(as.Rhs[0]).(*ast.CallExpr)
		if !ok {
			return true
		}
		f := core.CalleeOf(info, call)
		if f == nil || core.QualifiedCallee(f) != core.Module+".Matrix.Decompose" {
			return true
		}
		if rid, ok := core.Unparen(call.Fun.(*ast.SelectorExpr).X).(*ast.Ident); !ok || core.ObjOf(info, rid) != mObj {
			return true
		}
		for i, l := range as.Lhs {
			if id, ok := l.(*ast.Ident); ok && id.Name != "_" {
				scale[core.ObjOf(info, id)] = i
			}
		}
		return true
	})
	n := 0
	ast.Inspect(fd.Body, func(nd ast.Node) bool {
		is, ok := nd.(*ast.IfStmt)
		if !ok || len(is.Body.List) != 1 {
			return true
		}
		as, ok := is.Body.List[0].(*ast.AssignStmt)
		if !ok || len(as.Lhs) != 1 || len(as.Rhs) != 1 {
			return true
		}
		un, ok := core.Unparen(as.Rhs[0]).(*ast.UnaryExpr)
		if !ok || un.Op != token.NOT || types.ExprString(un.X) != types.ExprString(as.Lhs[0]) {
			return true
		}
		if b, ok := info.TypeOf(as.Lhs[0]).Underlying().(*types.Basic); !ok || b.Info()&types.IsBoolean == 0 {
			return true
		}
		n++
		key := fmt.Sprintf("canvas.Path.Transform|sweep negation #%d", n)
		okCond := false
		if be, ok := core.Unparen(is.Cond).(*ast.BinaryExpr); ok && (be.Op == token.LSS || be.Op == token.GTR) {
			lhs, rhs := be.X, be.Y
			if be.Op == token.GTR {
				lhs, rhs = rhs, lhs
			}
			if z, isC := core.ConstVal(info, rhs).(interface{ String() string }); isC && (z.String() == "0" || z.String() == "0.0") {
				switch x := core.Unparen(lhs).(type) {
				case *ast.BinaryExpr:
					if x.Op == token.MUL {
						a, _ := core.Unparen(x.X).(*ast.Ident)
						b, _ := core.Unparen(x.Y).(*ast.Ident)
						if a != nil && b != nil {
							ia, okA := scale[core.ObjOf(info, a)]
							ib, okB := scale[core.ObjOf(info, b)]
							if okA && okB && ((ia == 3 && ib == 4) || (ia == 4 && ib == 3)) {
								okCond = true
							}
						}
					}
				case *ast.CallExpr:
					if f := core.CalleeOf(info, x); f != nil && core.QualifiedCallee(f) == core.Module+".Matrix.Det" {
						okCond = true
					}
				}
			}
		}
		if okCond {
			r.OK("E11.sweep-flip", key, c.Pos(is.Pos()), types.ExprString(is.Cond))
		} else {
			r.Fail("E11.sweep-flip", key, c.Pos(is.Pos()), fmt.Sprintf("the sweep flag is negated under `%s`, which is not the sign of the determinant (product of the axis scales of m.Decompose(), or m.Det()): for matrices with rotation or shear the arc is drawn on the wrong side of its chord", types.ExprString(is.Cond)))
		}
		return true
	})
	r.Count("E11.sweep-negations", n)
	r.Floor("E11.sweep-negations", 1)
}

// E11ReuseAfterEscape: a slice that has been stored into a longer-lived value is not truncated with
// its capacity kept and refilled (x = x[:0]; append): the stored copy shares the backing array.
func E11ReuseAfterEscape(c *core.Ctx, r *core.Report, fileSuffix string) {
	r.Rule("E11.reuse-after-escape", "in the SVG importer, a slice variable that escapes into a stored value (composite literal field, element appended to another slice, struct field) is never reset by the capacity-keeping `x = x[:0]` and refilled; it is reset with a fresh or zero-capacity slice (`x[:0:0]`), otherwise the value stored earlier (e.g. the selectors of the previous CSS rule) is overwritten by the next one")
	p := c.MustPkg("")
	info := p.TypesInfo
	sites := 0
	for _, fd := range core.AllFuncDecls(p) {
		if !strings.HasSuffix(c.Fset.Position(fd.Pos()).Filename, fileSuffix) {
			continue
		}
		// resets
		type reset struct {
			o     types.Object
			pos   token.Pos
			keeps bool
		}
		var resets []reset
		ast.Inspect(fd.Body, func(n ast.Node) bool {
			as, ok := n.(*ast.AssignStmt)
			if !ok || len(as.Lhs) != 1 || len(as.Rhs) != 1 {
				return true
			}
			lid, ok := as.Lhs[0].(*ast.Ident)
			if !ok {
				return true
			}
			se, ok := core.Unparen(as.Rhs[0]).(*ast.SliceExpr)
			if !ok || se.Low != nil || se.High == nil {
				return true
			}
			rid, ok := core.Unparen(se.X).(*ast.Ident)
			if !ok || core.ObjOf(info, rid) != core.ObjOf(info, lid) {
				return true
			}
			if v, ok := core.ConstInt(info, se.High); !ok || v != 0 {
				return true
			}
			keeps := !se.Slice3
			if se.Slice3 {
				if v, ok := core.ConstInt(info, se.Max); !ok || v != 0 {
					keeps = true
				}
			}
			resets = append(resets, reset{core.ObjOf(info, lid), as.Pos(), keeps})
			return true
		})
		for _, rs := range resets {
			sites++
			// does the variable escape anywhere in the function?
			escapes := ""
			isV := func(e ast.Expr) bool {
				id, ok := core.Unparen(e).(*ast.Ident)
				return ok && core.ObjOf(info, id) == rs.o
			}
			ast.Inspect(fd.Body, func(n ast.Node) bool {
				switch x := n.(type) {
				case *ast.CompositeLit:
					for _, el := range x.Elts {
						v := el
						if kv, ok := el.(*ast.KeyValueExpr); ok {
							v = kv.Value
						}
						if isV(v) {
							escapes = "stored in a composite literal at " + c.Pos(x.Pos())
						}
					}
				case *ast.CallExpr:
					if id, ok := x.Fun.(*ast.Ident); ok && id.Name == "append" && len(x.Args) >= 2 && !x.Ellipsis.IsValid() {
						for _, a := range x.Args[1:] {
							if isV(a) {
								escapes = "appended as an element at " + c.Pos(x.Pos())
							}
						}
					}
				case *ast.AssignStmt:
					for i, l := range x.Lhs {
						if _, isSel := core.Unparen(l).(*ast.SelectorExpr); isSel && i < len(x.Rhs) && isV(x.Rhs[i]) {
							escapes = "stored in a field at " + c.Pos(x.Pos())
						}
					}
				}
				return true
			})
			key := fmt.Sprintf("canvas.%s|reset of a slice buffer #%d", core.FuncName(fd), sites)
			switch {
			case escapes == "":
				r.OK("E11.reuse-after-escape", key, c.Pos(rs.pos), "the buffer never escapes")
			case !rs.keeps:
				r.OK("E11.reuse-after-escape", key, c.Pos(rs.pos), "escapes ("+escapes+") but is reset with zero capacity")
			default:
				r.Fail("E11.reuse-after-escape", key, c.Pos(rs.pos), fmt.Sprintf("the slice is %s and later reset with `x = x[:0]`, which keeps the backing array: the next append overwrites what was stored", escapes))
			}
		}
	}
	r.Count("E11.slice-resets", sites)
	r.Floor("E11.slice-resets", 1)
}

// E11BreakWidth: the width recorded for a line that ends at a penalty includes the penalty's width.
func E11BreakWidth(c *core.Ctx, r *core.Report) {
	r.Rule("E11.break-width", "linebreaker: the natural width of a line ending at item b is the running sum W plus, when item b is a penalty, the penalty's width (the hyphen that is shown at the break). computeAdjustmentRatio fits the line with that width; every Breakpoint created for a feasible break in mainLoop records the same quantity in Width (ToText positions right-aligned and centred lines from it), by the same guarded addition on the same item index as its Position. The overflow break (created after `overflows = true`) is exempt: Overflows is reported for it")
	p := c.MustPkg("text")
	info := p.TypesInfo
	// the running-sum field: selector W on the receiver
	isField := func(e ast.Expr, recv types.Object, name string) bool {
		sel, ok := core.Unparen(e).(*ast.SelectorExpr)
		if !ok || sel.Sel.Name != name {
			return false
		}
		id, ok := core.Unparen(sel.X).(*ast.Ident)
		return ok && core.ObjOf(info, id) == recv
	}
	// items[idx].Field on the receiver
	itemField := func(e ast.Expr, recv types.Object, field string) (ast.Expr, bool) {
		sel, ok := core.Unparen(e).(*ast.SelectorExpr)
		if !ok || sel.Sel.Name != field {
			return nil, false
		}
		ie, ok := core.Unparen(sel.X).(*ast.IndexExpr)
		if !ok || !isField(ie.X, recv, "items") {
			return nil, false
		}
		return ie.Index, true
	}
	// penaltyAdd finds, in a statement list, `if recv.items[IDX].Type == PenaltyType { V += recv.items[IDX].Width }` for variable v
	penaltyAdd := func(list []ast.Stmt, recv, v types.Object) (string, bool) {
		for _, s := range list {
			is, ok := s.(*ast.IfStmt)
			if !ok || is.Else != nil || len(is.Body.List) != 1 {
				continue
			}
			be, ok := core.Unparen(is.Cond).(*ast.BinaryExpr)
			if !ok || be.Op != token.EQL || core.ConstName(info, be.Y) != "PenaltyType" {
				continue
			}
			idx, ok := itemField(be.X, recv, "Type")
			if !ok {
				continue
			}
			as, ok := is.Body.List[0].(*ast.AssignStmt)
			if !ok || as.Tok != token.ADD_ASSIGN || len(as.Lhs) != 1 {
				continue
			}
			id, ok := as.Lhs[0].(*ast.Ident)
			if !ok || core.ObjOf(info, id) != v {
				continue
			}
			idx2, ok := itemField(as.Rhs[0], recv, "Width")
			if !ok || types.ExprString(idx) != types.ExprString(idx2) {
				continue
			}
			if iid, ok := core.Unparen(idx).(*ast.Ident); ok {
				return "param:" + itoaObj(info, iid), true
			}
		}
		return "", false
	}
	_ = penaltyAdd
	// reference: computeAdjustmentRatio
	ref := core.MustFuncDecl(p, "linebreaker.computeAdjustmentRatio")
	refRecv := recvObj(info, ref)
	r.Func("text.linebreaker.computeAdjustmentRatio")
	refOK := false
	for _, s := range ref.Body.List {
		as, ok := s.(*ast.AssignStmt)
		if !ok || as.Tok != token.DEFINE || len(as.Lhs) != 1 {
			continue
		}
		sub, ok := core.Unparen(as.Rhs[0]).(*ast.BinaryExpr)
		if !ok || sub.Op != token.SUB || !isField(sub.X, refRecv, "W") {
			continue
		}
		v := core.ObjOf(info, as.Lhs[0].(*ast.Ident))
		if _, ok := penaltyAdd(ref.Body.List, refRecv, v); ok {
			refOK = true
		}
	}
	if refOK {
		r.OK("E11.break-width", "text.linebreaker.computeAdjustmentRatio|line width", c.Pos(ref.Pos()), "L := W - active.W; if items[b].Type == PenaltyType { L += items[b].Width }")
	} else {
		r.Fail("E11.break-width", "text.linebreaker.computeAdjustmentRatio|line width", c.Pos(ref.Pos()), "the fitted line width is no longer the running sum plus the guarded penalty width; the rule's reference shape is gone")
	}
	// Breakpoint literals in mainLoop and in Linebreak (which holds the linebreaker in a local)
	n := 0
	var classes []string // per literal: "total" (running total, the parent's total is subtracted later) or "net"
	var classPos []token.Pos
	for _, fname := range []string{"linebreaker.mainLoop", "Linebreak"} {
		fd := core.MustFuncDecl(p, fname)
		recv := recvObj(info, fd)
		if recv == nil {
			ast.Inspect(fd.Body, func(m ast.Node) bool {
				if as, ok := m.(*ast.AssignStmt); ok && as.Tok == token.DEFINE && len(as.Lhs) == 1 && recv == nil {
					if id, ok := as.Lhs[0].(*ast.Ident); ok {
						if o := core.ObjOf(info, id); o != nil {
							if pt, ok := o.Type().(*types.Pointer); ok {
								if nt, ok := pt.Elem().(*types.Named); ok && nt.Obj().Name() == "linebreaker" {
									recv = o
								}
							}
						}
					}
				}
				return true
			})
		}
		if recv == nil {
			panic(core.Infra("E11.break-width: no linebreaker variable in " + fname))
		}
		r.Func("text." + fname)
		k := 0
		var visit func(list []ast.Stmt, overflow bool)
		checkLit := func(cl *ast.CompositeLit, list []ast.Stmt, overflow bool) {
			var width, pos ast.Expr
			for _, el := range cl.Elts {
				if kv, ok := el.(*ast.KeyValueExpr); ok {
					if k, ok := kv.Key.(*ast.Ident); ok {
						switch k.Name {
						case "Width":
							width = kv.Value
						case "Position":
							pos = kv.Value
						}
					}
				}
			}
			if width == nil || pos == nil {
				return
			}
			n++
			k++
			key := fmt.Sprintf("text.%s|Breakpoint #%d|Width", fname, k)
			// the parent's total may be subtracted right here (net width) instead of later in Linebreak
			class := "total"
			if sub, ok := core.Unparen(width).(*ast.BinaryExpr); ok && sub.Op == token.SUB {
				if se, ok := core.Unparen(sub.Y).(*ast.SelectorExpr); ok && se.Sel.Name == "W" && !isField(sub.Y, recv, "W") {
					class = "net"
					width = sub.X
				}
			}
			classes = append(classes, class)
			classPos = append(classPos, cl.Pos())
			if overflow {
				r.OK("E11.break-width", key, c.Pos(cl.Pos()), "overflow break: Overflows is reported ("+class+" width)")
				return
			}
			id, ok := core.Unparen(width).(*ast.Ident)
			if !ok {
				r.Fail("E11.break-width", key, c.Pos(cl.Pos()), fmt.Sprintf("the Width of a feasible break is %s, not a local holding W plus the guarded penalty width", types.ExprString(width)))
				return
			}
			v := core.ObjOf(info, id)
			// v := recv.W in an enclosing list, followed by the guarded addition on the Position index
			defined := false
			var addIdx string
			ast.Inspect(fd.Body, func(m ast.Node) bool {
				if blk, ok := m.(*ast.BlockStmt); ok {
					for _, s := range blk.List {
						if as, ok := s.(*ast.AssignStmt); ok && as.Tok == token.DEFINE && len(as.Lhs) == 1 && len(as.Rhs) == 1 {
							if l, ok := as.Lhs[0].(*ast.Ident); ok && core.ObjOf(info, l) == v && isField(as.Rhs[0], recv, "W") {
								defined = true
								if ix, ok := penaltyAdd(blk.List, recv, v); ok {
									addIdx = ix
								}
							}
						}
					}
				}
				return true
			})
			pid, _ := core.Unparen(pos).(*ast.Ident)
			switch {
			case !defined:
				r.Fail("E11.break-width", key, c.Pos(cl.Pos()), "the Width local is not initialised from the running sum W")
			case addIdx == "":
				r.Fail("E11.break-width", key, c.Pos(cl.Pos()), "the width recorded for the break does not add the penalty's width when the break item is a penalty: a line broken at a soft hyphen is one hyphen wider than recorded, so right-aligned and centred lines are misplaced and stick out of the box while Overflows is false")
			case pid == nil || addIdx != "param:"+itoaObj(info, pid):
				r.Fail("E11.break-width", key, c.Pos(cl.Pos()), "the penalty width is taken from a different item than the break's Position")
			default:
				r.OK("E11.break-width", key, c.Pos(cl.Pos()), "Width = W + penalty width of item Position")
			}
		}
		visit = func(list []ast.Stmt, overflow bool) {
			for _, s := range list {
				if as, ok := s.(*ast.AssignStmt); ok && len(as.Lhs) == 1 && len(as.Rhs) == 1 {
					if id, ok := as.Lhs[0].(*ast.Ident); ok && id.Name != "_" {
						if rid, ok := as.Rhs[0].(*ast.Ident); ok && rid.Name == "true" {
							if o := core.ObjOf(info, id); o != nil && isOverflowFlag(info, fd, o) {
								overflow = true
							}
						}
					}
				}
				ast.Inspect(s, func(m ast.Node) bool {
					switch x := m.(type) {
					case *ast.BlockStmt:
						visit(x.List, overflow)
						return false
					case *ast.CompositeLit:
						if t := info.TypeOf(x); t != nil {
							if nt, ok := t.(*types.Named); ok && nt.Obj().Name() == "Breakpoint" {
								checkLit(x, list, overflow)
							}
						}
					}
					return true
				})
			}
		}
		visit(fd.Body.List, false)
	}
	// the parent's total is subtracted exactly once: in every constructor, or afterwards for all of them
	{
		lfd := core.MustFuncDecl(p, "Linebreak")
		later := false
		ast.Inspect(lfd.Body, func(m ast.Node) bool {
			if as, ok := m.(*ast.AssignStmt); ok && as.Tok == token.SUB_ASSIGN && len(as.Lhs) == 1 && len(as.Rhs) == 1 {
				l, ok1 := core.Unparen(as.Lhs[0]).(*ast.SelectorExpr)
				rr, ok2 := core.Unparen(as.Rhs[0]).(*ast.SelectorExpr)
				if ok1 && ok2 && l.Sel.Name == "Width" && rr.Sel.Name == "W" {
					later = true
				}
			}
			return true
		})
		key := "text.Linebreak|the start of the line is subtracted from its Width exactly once"
		nets, totals := 0, 0
		for _, cl := range classes {
			if cl == "net" {
				nets++
			} else {
				totals++
			}
		}
		switch {
		case nets > 0 && totals > 0:
			r.Fail("E11.break-width", key, c.Pos(classPos[0]), fmt.Sprintf("%d constructor(s) of a break store the width of the line (the parent's total already subtracted) and %d store the running total: whichever way Linebreak treats them afterwards, one kind reports a width that is not the line's", nets, totals))
		case totals > 0 && !later:
			r.Fail("E11.break-width", key, c.Pos(lfd.Pos()), "the breaks store running totals, and Linebreak no longer subtracts the total at the start of the line (`breaks[…].Width -= b.W`): every line but the first reports the width of the text up to its end")
		case nets > 0 && later:
			r.Fail("E11.break-width", key, c.Pos(lfd.Pos()), "the breaks store the width of their line already, and Linebreak subtracts the start of the line again")
		default:
			r.OK("E11.break-width", key, c.Pos(lfd.Pos()), map[bool]string{true: "running totals, subtracted afterwards", false: "net widths at creation"}[later])
		}
	}
	r.Count("E11.break-width-literals", n)
	r.Floor("E11.break-width-literals", 2)
}

// isOverflowFlag: the variable is the one the linebreaker returns/stores as its overflow indication
// (assigned `true` only in the no-feasible-solution branch): identified as a bool local of mainLoop
// that is stored into a field or returned.
func isOverflowFlag(info *types.Info, fd *ast.FuncDecl, o types.Object) bool {
	v, ok := o.(*types.Var)
	if !ok {
		return false
	}
	b, ok := v.Type().Underlying().(*types.Basic)
	return ok && b.Kind() == types.Bool
}

func itoaObj(info *types.Info, id *ast.Ident) string {
	o := core.ObjOf(info, id)
	if o == nil {
		return "?"
	}
	return fmt.Sprintf("%p", o)
}

// E11ConstIndexInLoop: a counted loop over a slice does not pick a fixed later element where the
// running element is meant.
func E11ConstIndexInLoop(c *core.Ctx, r *core.Report) {
	r.Rule("E11.const-index-in-loop", "in a loop `for i := …; i < …len(S)…; …` whose body indexes S with the loop variable, no other access S[k] in the body has a constant index k >= 1 (the first element, S[0], is a legitimate reference point): a fixed later element inside a per-element loop is the per-element value written with the wrong index — e.g. the Bounds array of a stitched PDF gradient function must list stops[i].Offset, not stops[1].Offset, for gradients with more than three stops")
	loops, sites := 0, 0
	for _, rel := range modulePkgRels {
		p := c.Pkg(rel)
		if p == nil {
			continue
		}
		info := p.TypesInfo
		for _, fd := range core.AllFuncDecls(p) {
			if fd.Body == nil || strings.HasSuffix(c.Fset.Position(fd.Pos()).Filename, "_test.go") {
				continue
			}
			fname := p.Types.Name() + "." + core.FuncName(fd)
			ord := 0
			ast.Inspect(fd.Body, func(n ast.Node) bool {
				fs, ok := n.(*ast.ForStmt)
				if !ok || fs.Cond == nil {
					return true
				}
				be, ok := core.Unparen(fs.Cond).(*ast.BinaryExpr)
				if !ok || (be.Op != token.LSS && be.Op != token.LEQ) {
					return true
				}
				iv, ok := core.Unparen(be.X).(*ast.Ident)
				if !ok {
					return true
				}
				var S ast.Expr
				ast.Inspect(be.Y, func(m ast.Node) bool {
					if call, ok := m.(*ast.CallExpr); ok && len(call.Args) == 1 {
						if id, ok := call.Fun.(*ast.Ident); ok && id.Name == "len" {
							S = call.Args[0]
						}
					}
					return true
				})
				if S == nil {
					return true
				}
				sameS := func(e ast.Expr) bool {
					if types.ExprString(e) != types.ExprString(S) {
						return false
					}
					a, b := core.RootIdent(e), core.RootIdent(S)
					return a != nil && b != nil && core.ObjOf(info, a) == core.ObjOf(info, b)
				}
				usesI := false
				var consts []*ast.IndexExpr
				ast.Inspect(fs.Body, func(m ast.Node) bool {
					ie, ok := m.(*ast.IndexExpr)
					if !ok || !sameS(ie.X) {
						return true
					}
					mentions := false
					ast.Inspect(ie.Index, func(k ast.Node) bool {
						if id, ok := k.(*ast.Ident); ok && core.ObjOf(info, id) == core.ObjOf(info, iv) {
							mentions = true
						}
						return true
					})
					if mentions {
						usesI = true
					} else if v, ok := core.ConstInt(info, ie.Index); ok && v >= 1 {
						consts = append(consts, ie)
					}
					return true
				})
				if !usesI {
					return true
				}
				loops++
				ord++
				key := fmt.Sprintf("%s|counted loop #%d over a %s", fname, ord, types.TypeString(info.TypeOf(S), func(*types.Package) string { return "" }))
				if len(consts) == 0 {
					r.OK("E11.const-index-in-loop", key, c.Pos(fs.Pos()), "")
					return true
				}
				sites += len(consts)
				r.Fail("E11.const-index-in-loop", key, c.Pos(consts[0].Pos()), fmt.Sprintf("the loop runs over %s with %s, but its body reads the fixed element `%s`: every iteration uses the same element where the running one is meant", types.ExprString(S), iv.Name, types.ExprString(consts[0])))
				return true
			})
		}
	}
	r.Count("E11.counted-loops", loops)
	r.Floor("E11.counted-loops", 50)
}

// E11FitStroke: Fit grows every stroked path's bounds by half the stroke width, whatever the bounds are.
func E11FitStroke(c *core.Ctx, r *core.Report) {
	r.Rule("E11.fit-stroke", "(clause `caps and joins`: the expansion of a stroked path accounts for miter tips and square caps, by taking the bounds of the Path.Stroke outline or by consulting the capper and joiner) Canvas.Fit: the bounds of a path layer are grown on all four sides by half the stroke width under the sole condition that the style has a stroke. A further condition on the bounds themselves (Rect.Empty is true for any rectangle of zero width or height) drops exactly horizontal and vertical stroked lines from the fit, and content then lies outside the canvas")
	p := c.MustPkg("")
	info := p.TypesInfo
	fd := core.MustFuncDecl(p, "Canvas.Fit")
	r.Func("canvas.Canvas.Fit")
	isHasStroke := func(e ast.Expr) bool {
		call, ok := core.Unparen(e).(*ast.CallExpr)
		if !ok {
			return false
		}
		f := core.CalleeOf(info, call)
		return f != nil && core.QualifiedCallee(f) == core.Module+".Style.HasStroke"
	}
	var guards []*ast.IfStmt
	ast.Inspect(fd.Body, func(n ast.Node) bool {
		if is, ok := n.(*ast.IfStmt); ok {
			found := false
			ast.Inspect(is.Cond, func(m ast.Node) bool {
				if e, ok := m.(ast.Expr); ok && isHasStroke(e) {
					found = true
				}
				return true
			})
			if found {
				guards = append(guards, is)
			}
		}
		return true
	})
	if len(guards) == 0 {
		r.Fail("E11.fit-stroke", "canvas.Canvas.Fit|stroke expansion", c.Pos(fd.Pos()), "no statement of Fit depends on the style having a stroke: stroked paths are fitted by their centre line")
		return
	}
	for i, g := range guards {
		key := fmt.Sprintf("canvas.Canvas.Fit|stroke expansion #%d", i+1)
		if !isHasStroke(g.Cond) {
			r.Fail("E11.fit-stroke", key+"|condition", c.Pos(g.Pos()), fmt.Sprintf("the stroke expansion is guarded by `%s`, not by the style having a stroke alone: paths for which the extra condition fails (zero-width or zero-height bounds are Empty) are fitted without their stroke or not at all", types.ExprString(g.Cond)))
		} else {
			r.OK("E11.fit-stroke", key+"|condition", c.Pos(g.Pos()), "HasStroke() only")
		}
		// four sides or Expand, by an amount derived from StrokeWidth / 2
		sides := map[string]bool{}
		half := func(e ast.Expr) bool {
			ok := false
			ast.Inspect(e, func(m ast.Node) bool {
				be, isB := m.(*ast.BinaryExpr)
				if !isB {
					return true
				}
				isWidth := func(x ast.Expr) bool {
					sel, isS := core.Unparen(x).(*ast.SelectorExpr)
					return isS && sel.Sel.Name == "StrokeWidth"
				}
				isConst := func(x ast.Expr, want float64) bool {
					f, isC := constantFloat(core.ConstVal(info, x))
					tv, has := info.Types[x]
					return has && tv.Value != nil && isC && f == want
				}
				switch be.Op {
				case token.QUO: // StrokeWidth / 2
					if isWidth(be.X) && isConst(be.Y, 2) {
						ok = true
					}
				case token.MUL: // StrokeWidth * 0.5, either order
					if isWidth(be.X) && isConst(be.Y, 0.5) || isWidth(be.Y) && isConst(be.X, 0.5) {
						ok = true
					}
				}
				return true
			})
			return ok
		}
		halfVars := map[types.Object]bool{}
		for _, s := range g.Body.List {
			if as, ok := s.(*ast.AssignStmt); ok && as.Tok == token.DEFINE && len(as.Lhs) == 1 && len(as.Rhs) == 1 && half(as.Rhs[0]) {
				halfVars[core.ObjOf(info, as.Lhs[0].(*ast.Ident))] = true
			}
		}
		isHalf := func(e ast.Expr) bool {
			if id, ok := core.Unparen(e).(*ast.Ident); ok && halfVars[core.ObjOf(info, id)] {
				return true
			}
			return half(e)
		}
		for _, s := range g.Body.List {
			as, ok := s.(*ast.AssignStmt)
			if !ok || len(as.Lhs) != 1 || len(as.Rhs) != 1 {
				continue
			}
			if sel, ok := as.Lhs[0].(*ast.SelectorExpr); ok && isHalf(as.Rhs[0]) {
				switch {
				case as.Tok == token.SUB_ASSIGN && (sel.Sel.Name == "X0" || sel.Sel.Name == "Y0"):
					sides[sel.Sel.Name] = true
				case as.Tok == token.ADD_ASSIGN && (sel.Sel.Name == "X1" || sel.Sel.Name == "Y1"):
					sides[sel.Sel.Name] = true
				}
			}
			if call, ok := core.Unparen(as.Rhs[0]).(*ast.CallExpr); ok && len(call.Args) == 1 && isHalf(call.Args[0]) {
				if f := core.CalleeOf(info, call); f != nil && core.QualifiedCallee(f) == core.Module+".Rect.Expand" {
					sides["X0"], sides["Y0"], sides["X1"], sides["Y1"] = true, true, true, true
				}
			}
		}
		// the stroke of a path reaches further than half its width where it has miter joins (up to the
		// miter limit times the half width) or square caps (√2 times): either the bounds are those of the
		// stroke outline (a Path.Stroke call in the block) or the block looks at the capper and the joiner
		usesOutline := false
		ast.Inspect(g.Body, func(m ast.Node) bool {
			switch x := m.(type) {
			case *ast.CallExpr:
				if f := core.CalleeOf(info, x); f != nil && core.QualifiedCallee(f) == core.Module+".Path.Stroke" {
					usesOutline = true
				}
			case *ast.SelectorExpr:
				if x.Sel.Name == "StrokeCapper" || x.Sel.Name == "StrokeJoiner" {
					usesOutline = true
				}
			}
			return true
		})
		if usesOutline {
			r.OK("E11.fit-stroke", key+"|caps and joins", c.Pos(g.Pos()), "")
			if len(sides) != 4 {
				// the outline's own bounds replace the four-sided expansion
				sides = map[string]bool{"X0": true, "Y0": true, "X1": true, "Y1": true}
			}
		} else {
			r.Fail("E11.fit-stroke", key+"|caps and joins", c.Pos(g.Pos()), "the bounds of a stroked path are grown by half the stroke width on all sides, whatever its caps and joins: the tip of a miter join and the corners of a square cap lie outside the fitted canvas")
		}
		if len(sides) == 4 {
			r.OK("E11.fit-stroke", key+"|four sides", c.Pos(g.Pos()), "X0, Y0 lowered and X1, Y1 raised by StrokeWidth/2")
		} else {
			r.Fail("E11.fit-stroke", key+"|four sides", c.Pos(g.Pos()), fmt.Sprintf("only %d of the four sides are moved outwards by StrokeWidth/2", len(sides)))
		}
	}
}

// E11SVGTransformTable: the transform functions of the SVG importer follow the SVG specification's table.
func E11SVGTransformTable(c *core.Ctx, r *core.Report) {
	r.Rule("E11.svg-transform", "svgParser.parseTransform, evaluated symbolically per transform function and argument count (the argument list as symbols a0…an, conditions on len(d) and on the function name decided, appends to the list followed): matrix(a0…a5) multiplies by [[a0 a2 a4][a1 a3 a5]]; translate(a0) = Translate(a0, 0) and translate(a0,a1) = Translate(a0,a1); scale(a0) = Scale(a0,a0) and scale(a0,a1) = Scale(a0,a1); rotate(a0) = Rotate(a0) and rotate(a0,a1,a2) = RotateAbout(a0,a1,a2) (SVG 1.1 §7.6); any other argument count applies no transformation and records an error")
	p := c.MustPkg("")
	info := p.TypesInfo
	fd := core.MustFuncDecl(p, "svgParser.parseTransform")
	r.Func("canvas.svgParser.parseTransform")
	// the switch over the function name and the argument list variable
	var sw *ast.SwitchStmt
	ast.Inspect(fd.Body, func(n ast.Node) bool {
		if s, ok := n.(*ast.SwitchStmt); ok && sw == nil && s.Tag != nil {
			if t := info.TypeOf(s.Tag); t != nil {
				if b, ok := t.Underlying().(*types.Basic); ok && b.Kind() == types.String {
					sw = s
				}
			}
		}
		return true
	})
	if sw == nil {
		panic(core.Infra("E11.svg-transform: switch over the transform function not found"))
	}
	funObj := core.ObjOf(info, core.Unparen(sw.Tag).(*ast.Ident))
	// d: the []float64 local indexed in the cases
	var dObj types.Object
	ast.Inspect(sw, func(n ast.Node) bool {
		if ie, ok := n.(*ast.IndexExpr); ok && dObj == nil {
			if id, ok := core.Unparen(ie.X).(*ast.Ident); ok {
				if sl, ok := info.TypeOf(id).Underlying().(*types.Slice); ok {
					if b, ok := sl.Elem().Underlying().(*types.Basic); ok && b.Kind() == types.Float64 {
						dObj = core.ObjOf(info, id)
					}
				}
			}
		}
		return true
	})
	if dObj == nil {
		panic(core.Infra("E11.svg-transform: argument list variable not found"))
	}
	type result struct {
		calls []string
		err   bool
		bad   string
	}
	var term func(e ast.Expr, d []string) string
	term = func(e ast.Expr, d []string) string {
		e = core.Unparen(e)
		if tv, ok := info.Types[e]; ok && tv.Value != nil {
			return tv.Value.String()
		}
		switch x := e.(type) {
		case *ast.IndexExpr:
			if id, ok := core.Unparen(x.X).(*ast.Ident); ok && core.ObjOf(info, id) == dObj {
				if k, ok := core.ConstInt(info, x.Index); ok && int(k) < len(d) {
					return d[k]
				}
				return "out-of-range"
			}
		case *ast.UnaryExpr:
			if x.Op == token.SUB {
				return "-" + term(x.X, d)
			}
		case *ast.CompositeLit:
			var rows []string
			for _, el := range x.Elts {
				rows = append(rows, term(el, d))
			}
			return "[" + strings.Join(rows, " ") + "]"
		}
		return "?" + types.ExprString(e)
	}
	var evalCond func(e ast.Expr, fun string, d []string) int
	evalCond = func(e ast.Expr, fun string, d []string) int {
		e = core.Unparen(e)
		be, ok := e.(*ast.BinaryExpr)
		if !ok {
			return -1
		}
		switch be.Op {
		case token.LAND:
			a, b := evalCond(be.X, fun, d), evalCond(be.Y, fun, d)
			if a == 0 || b == 0 {
				return 0
			}
			if a == 1 && b == 1 {
				return 1
			}
			return -1
		case token.LOR:
			a, b := evalCond(be.X, fun, d), evalCond(be.Y, fun, d)
			if a == 1 || b == 1 {
				return 1
			}
			if a == 0 && b == 0 {
				return 0
			}
			return -1
		}
		// len(d) <op> const
		val := func(x ast.Expr) (int64, bool) {
			x = core.Unparen(x)
			if v, ok := core.ConstInt(info, x); ok {
				return v, true
			}
			if call, ok := x.(*ast.CallExpr); ok && len(call.Args) == 1 {
				if id, ok := call.Fun.(*ast.Ident); ok && id.Name == "len" {
					if a, ok := core.Unparen(call.Args[0]).(*ast.Ident); ok && core.ObjOf(info, a) == dObj {
						return int64(len(d)), true
					}
				}
			}
			return 0, false
		}
		if a, ok1 := val(be.X); ok1 {
			if b, ok2 := val(be.Y); ok2 {
				var res bool
				switch be.Op {
				case token.EQL:
					res = a == b
				case token.NEQ:
					res = a != b
				case token.LSS:
					res = a < b
				case token.GTR:
					res = a > b
				case token.LEQ:
					res = a <= b
				case token.GEQ:
					res = a >= b
				default:
					return -1
				}
				if res {
					return 1
				}
				return 0
			}
		}
		// fun == "name"
		if id, ok := core.Unparen(be.X).(*ast.Ident); ok && core.ObjOf(info, id) == funObj {
			if tv, ok := info.Types[be.Y]; ok && tv.Value != nil && (be.Op == token.EQL || be.Op == token.NEQ) {
				eq := strings.Trim(tv.Value.ExactString(), "\"") == fun
				if (be.Op == token.EQL) == eq {
					return 1
				}
				return 0
			}
		}
		return -1
	}
	var run func(list []ast.Stmt, fun string, d []string, res *result) []string
	run = func(list []ast.Stmt, fun string, d []string, res *result) []string {
		for _, st := range list {
			switch x := st.(type) {
			case *ast.BlockStmt:
				d = run(x.List, fun, d, res)
			case *ast.IfStmt:
				switch evalCond(x.Cond, fun, d) {
				case 1:
					d = run(x.Body.List, fun, d, res)
				case 0:
					if x.Else != nil {
						d = run([]ast.Stmt{x.Else}, fun, d, res)
					}
				default:
					res.bad = "condition `" + types.ExprString(x.Cond) + "` cannot be decided"
				}
			case *ast.AssignStmt:
				if len(x.Lhs) != 1 || len(x.Rhs) != 1 {
					res.bad = "unsupported assignment"
					continue
				}
				if sel, ok := x.Lhs[0].(*ast.SelectorExpr); ok && sel.Sel.Name == "err" {
					res.err = true
					continue
				}
				lid, ok := x.Lhs[0].(*ast.Ident)
				if !ok {
					res.bad = "unsupported assignment"
					continue
				}
				if core.ObjOf(info, lid) == dObj {
					call, ok := core.Unparen(x.Rhs[0]).(*ast.CallExpr)
					if id, isId := call.Fun.(*ast.Ident); ok && isId && id.Name == "append" && len(call.Args) >= 1 {
						for _, a := range call.Args[1:] {
							d = append(append([]string{}, d...), term(a, d))
						}
						continue
					}
					res.bad = "the argument list is rewritten in a way the rule does not follow"
					continue
				}
				// m = m.Method(args)
				if call, ok := core.Unparen(x.Rhs[0]).(*ast.CallExpr); ok {
					if f := core.CalleeOf(info, call); f != nil && strings.HasPrefix(core.QualifiedCallee(f), core.Module+".Matrix.") {
						var args []string
						for _, a := range call.Args {
							args = append(args, term(a, d))
						}
						res.calls = append(res.calls, f.Name()+"("+strings.Join(args, ",")+")")
						continue
					}
				}
				res.bad = "unsupported statement `" + c.Src(x) + "`"
			case *ast.EmptyStmt:
			default:
				res.bad = "unsupported statement"
			}
		}
		return d
	}
	spec := map[string]map[int]string{
		"matrix":    {6: "Mul([[a0 a2 a4] [a1 a3 a5]])"},
		"translate": {1: "Translate(a0,0)", 2: "Translate(a0,a1)"},
		"scale":     {1: "Scale(a0,a0)", 2: "Scale(a0,a1)"},
		"rotate":    {1: "Rotate(a0)", 3: "RotateAbout(a0,a1,a2)"},
	}
	n := 0
	for _, cs := range sw.Body.List {
		cc := cs.(*ast.CaseClause)
		for _, ke := range cc.List {
			tv, ok := info.Types[ke]
			if !ok || tv.Value == nil {
				continue
			}
			fun := strings.Trim(tv.Value.ExactString(), "\"")
			table, known := spec[fun]
			if !known {
				continue // skewX/skewY are not implemented (TODO in the source): nothing to compare
			}
			max := 0
			for k := range table {
				if k > max {
					max = k
				}
			}
			for arity := 0; arity <= max+1; arity++ {
				d := make([]string, arity)
				for k := range d {
					d[k] = fmt.Sprintf("a%d", k)
				}
				res := &result{}
				run(cc.Body, fun, d, res)
				n++
				key := fmt.Sprintf("canvas.svgParser.parseTransform|%s with %d arguments", fun, arity)
				want, valid := table[arity]
				got := strings.Join(res.calls, ";")
				switch {
				case res.bad != "":
					r.Fail("E11.svg-transform", key, c.Pos(cc.Pos()), "the case cannot be evaluated: "+res.bad)
				case valid && (got != want || res.err):
					r.Fail("E11.svg-transform", key, c.Pos(cc.Pos()), fmt.Sprintf("%s(%s) applies %s (error recorded: %v), the SVG specification says %s", fun, strings.Join(d, ","), orNone(got), res.err, want))
				case !valid && (got != "" || !res.err):
					r.Fail("E11.svg-transform", key, c.Pos(cc.Pos()), fmt.Sprintf("%s with %d arguments is not valid SVG but applies %s (error recorded: %v)", fun, arity, orNone(got), res.err))
				default:
					r.OK("E11.svg-transform", key, c.Pos(cc.Pos()), want)
				}
			}
		}
	}
	r.Count("E11.svg-transform-cases", n)
	r.Floor("E11.svg-transform-cases", 15)
}

func orNone(s string) string {
	if s == "" {
		return "nothing"
	}
	return s
}

// E11DashParity: the parity of a dash index is only used on an even-length (doubled) array.
func E11DashParity(c *core.Ctx, r *core.Report) {
	r.Rule("E11.dash-parity", "dashStart returns an index into the array it is given; a caller that decides dash-or-gap from the parity of that index (i%2) must have given it an array of even length, i.e. the array argument is doubled when odd (`if len(X)%2 == 1 { X = append(X, X...) }` or a doubled copy) before the call, as the SVG/PDF dash semantics and Path.Dash do. On an odd-length array every second period has the parities exchanged, so checkDash and Dash disagree on whether a short path is stroked")
	p := c.MustPkg("")
	info := p.TypesInfo
	n := 0
	for _, fd := range core.AllFuncDecls(p) {
		if fd.Body == nil {
			continue
		}
		fname := "canvas." + core.FuncName(fd)
		ast.Inspect(fd.Body, func(m ast.Node) bool {
			as, ok := m.(*ast.AssignStmt)
			if !ok || len(as.Rhs) != 1 || len(as.Lhs) != 2 {
				return true
			}
			call, ok := core.Unparen(as.Rhs[0]).(*ast.CallExpr)
			if !ok || len(call.Args) != 2 {
				return true
			}
			f := core.CalleeOf(info, call)
			if f == nil || f.Name() != "dashStart" || f.Pkg() != p.Types {
				return true
			}
			idxID, ok := as.Lhs[0].(*ast.Ident)
			if !ok {
				return true
			}
			idx := core.ObjOf(info, idxID)
			// parity use of the index or of a variable initialised from it
			derived := map[types.Object]bool{idx: true}
			ast.Inspect(fd.Body, func(k ast.Node) bool {
				if a2, ok := k.(*ast.AssignStmt); ok && len(a2.Lhs) == 1 && len(a2.Rhs) == 1 {
					if rid, ok := core.Unparen(a2.Rhs[0]).(*ast.Ident); ok && derived[core.ObjOf(info, rid)] {
						if lid, ok := a2.Lhs[0].(*ast.Ident); ok {
							derived[core.ObjOf(info, lid)] = true
						}
					}
				}
				return true
			})
			parity := false
			ast.Inspect(fd.Body, func(k ast.Node) bool {
				if be, ok := k.(*ast.BinaryExpr); ok && be.Op == token.REM {
					if id, ok := core.Unparen(be.X).(*ast.Ident); ok && derived[core.ObjOf(info, id)] {
						if v, ok := core.ConstInt(info, be.Y); ok && v == 2 {
							parity = true
						}
					}
				}
				return true
			})
			if !parity {
				return true
			}
			n++
			key := fname + "|dash index parity"
			arg, ok := core.Unparen(call.Args[1]).(*ast.Ident)
			if !ok {
				r.Fail("E11.dash-parity", key, c.Pos(call.Pos()), "the array handed to dashStart is not a variable; its evenness cannot be established")
				return true
			}
			arr := core.ObjOf(info, arg)
			// a guard `if len(Y)%2 == 1 { arr = append(…Y…, Y...) }` before the call
			doubled := false
			ast.Inspect(fd.Body, func(k ast.Node) bool {
				is, ok := k.(*ast.IfStmt)
				if !ok || is.End() > call.Pos() {
					return true
				}
				be, ok := core.Unparen(is.Cond).(*ast.BinaryExpr)
				if !ok || be.Op != token.EQL {
					return true
				}
				rem, ok := core.Unparen(be.X).(*ast.BinaryExpr)
				if !ok || rem.Op != token.REM {
					return true
				}
				if v, ok := core.ConstInt(info, be.Y); !ok || v != 1 {
					return true
				}
				for _, s := range is.Body.List {
					if a2, ok := s.(*ast.AssignStmt); ok && len(a2.Lhs) == 1 && len(a2.Rhs) == 1 {
						if lid, ok := a2.Lhs[0].(*ast.Ident); ok && core.ObjOf(info, lid) == arr {
							if ap, ok := core.Unparen(a2.Rhs[0]).(*ast.CallExpr); ok && ap.Ellipsis.IsValid() {
								if fid, ok := ap.Fun.(*ast.Ident); ok && fid.Name == "append" {
									doubled = true
								}
							}
						}
					}
				}
				return true
			})
			if doubled {
				r.OK("E11.dash-parity", key, c.Pos(call.Pos()), "the array is doubled when odd before dashStart")
			} else {
				r.Fail("E11.dash-parity", key, c.Pos(call.Pos()), fmt.Sprintf("%s decides dash-or-gap from the parity of the index dashStart returns, but the array it passes may have odd length (no `if len(…)%%2 == 1 { … = append(…, …...) }` before the call): in every second period of an odd-length pattern the parities are exchanged", fname))
			}
			return true
		})
	}
	r.Count("E11.dash-parity-uses", n)
	r.Floor("E11.dash-parity-uses", 2)
}

// E11DrawLoopState: the style one path is drawn with does not depend on the paths drawn before it.
func E11DrawLoopState(c *core.Ctx, r *core.Report) {
	r.Rule("E11.draw-loop-state", "Context.DrawPath draws each of its paths with the context's style: inside the loop over the paths no variable declared outside the loop is assigned under a condition unless the same location is also assigned unconditionally earlier in every iteration (a per-iteration copy declared inside the loop is the other accepted form). A conditional write to the shared style — dropping the stroke of a path that falls into a dash gap — otherwise persists for all later paths of the call")
	p := c.MustPkg("")
	info := p.TypesInfo
	fd := core.MustFuncDecl(p, "Context.DrawPath")
	r.Func("canvas.Context.DrawPath")
	n := 0
	ast.Inspect(fd.Body, func(m ast.Node) bool {
		rs, ok := m.(*ast.RangeStmt)
		if !ok {
			return true
		}
		n++
		// unconditional assignments at the top level of the body
		uncond := map[string]bool{}
		bad := ""
		var badPos ast.Node
		var visit func(list []ast.Stmt, conditional bool)
		check := func(as *ast.AssignStmt, conditional bool) {
			for _, l := range as.Lhs {
				root := core.RootIdent(l)
				if root == nil || root.Name == "_" {
					continue
				}
				o := core.ObjOf(info, root)
				if o == nil || o.Pos() >= rs.Pos() {
					continue // declared inside the loop: per-iteration
				}
				loc := types.ExprString(l)
				if !conditional {
					uncond[loc] = true
				} else if !uncond[loc] && bad == "" {
					bad = loc
					badPos = as
				}
			}
		}
		visit = func(list []ast.Stmt, conditional bool) {
			for _, s := range list {
				switch x := s.(type) {
				case *ast.AssignStmt:
					check(x, conditional)
				case *ast.IfStmt:
					visit(x.Body.List, true)
					if eb, ok := x.Else.(*ast.BlockStmt); ok {
						visit(eb.List, true)
					} else if ei, ok := x.Else.(*ast.IfStmt); ok {
						visit([]ast.Stmt{ei}, true)
					}
				case *ast.BlockStmt:
					visit(x.List, conditional)
				case *ast.ForStmt:
					visit(x.Body.List, true)
				case *ast.RangeStmt:
					visit(x.Body.List, true)
				case *ast.SwitchStmt:
					for _, cs := range x.Body.List {
						visit(cs.(*ast.CaseClause).Body, true)
					}
				}
			}
		}
		visit(rs.Body.List, false)
		key := fmt.Sprintf("canvas.Context.DrawPath|loop #%d|no conditional write to state shared by the iterations", n)
		if bad == "" {
			r.OK("E11.draw-loop-state", key, c.Pos(rs.Pos()), "")
		} else {
			r.Fail("E11.draw-loop-state", key, c.Pos(badPos.Pos()), fmt.Sprintf("`%s` is declared outside the loop over the paths and is assigned only under a condition inside it: once the condition holds for one path the value stays for every later path of the same DrawPath call", bad))
		}
		return true
	})
	r.Count("E11.draw-loops", n)
	r.Floor("E11.draw-loops", 1)
}

// E11SpanShift: alignment moves the spans of a line together; it does not give them one position.
func E11SpanShift(c *core.Ctx, r *core.Report) {
	r.Rule("E11.span-shift", "text layout (NewTextLine, RichText.ToText): a loop over the spans of a line that writes the spans' X either shifts it (X -= c, X += c, X = X ± c) or assigns a value that depends on the span (its index, its own fields, or a running sum updated in the loop). Assigning one loop-invariant value to every span puts all spans of the line at the same place, so the spans of a centred or right-aligned line with more than one script run overlap")
	p := c.MustPkg("")
	info := p.TypesInfo
	n := 0
	for _, fname := range []string{"NewTextLine", "RichText.ToText"} {
		fd := core.MustFuncDecl(p, fname)
		r.Func("canvas." + fname)
		ord := 0
		ast.Inspect(fd.Body, func(m ast.Node) bool {
			var body *ast.BlockStmt
			var loopVars []types.Object
			var loopPos token.Pos
			switch x := m.(type) {
			case *ast.RangeStmt:
				body, loopPos = x.Body, x.Pos()
				for _, e := range []ast.Expr{x.Key, x.Value} {
					if id, ok := e.(*ast.Ident); ok && id.Name != "_" {
						loopVars = append(loopVars, core.ObjOf(info, id))
					}
				}
			case *ast.ForStmt:
				body, loopPos = x.Body, x.Pos()
				if as, ok := x.Init.(*ast.AssignStmt); ok {
					for _, l := range as.Lhs {
						if id, ok := l.(*ast.Ident); ok {
							loopVars = append(loopVars, core.ObjOf(info, id))
						}
					}
				}
			default:
				return true
			}
			// variables assigned anywhere in the loop body vary with the iteration
			varying := map[types.Object]bool{}
			for _, o := range loopVars {
				varying[o] = true
			}
			ast.Inspect(body, func(k ast.Node) bool {
				switch a := k.(type) {
				case *ast.AssignStmt:
					for _, l := range a.Lhs {
						if id, ok := l.(*ast.Ident); ok {
							varying[core.ObjOf(info, id)] = true
						}
					}
				case *ast.IncDecStmt:
					if id, ok := a.X.(*ast.Ident); ok {
						varying[core.ObjOf(info, id)] = true
					}
				}
				return true
			})
			for _, st := range body.List {
				as, ok := st.(*ast.AssignStmt)
				if !ok || len(as.Lhs) != 1 || len(as.Rhs) != 1 {
					continue
				}
				sel, ok := as.Lhs[0].(*ast.SelectorExpr)
				if !ok || sel.Sel.Name != "X" {
					continue
				}
				// the X of a TextSpan element selected with a loop variable
				if t := info.TypeOf(sel.X); t == nil || !isNamed(t, "tdewolff/canvas", "TextSpan") {
					continue
				}
				ie, ok := core.Unparen(sel.X).(*ast.IndexExpr)
				if !ok {
					continue
				}
				byLoopVar := false
				ast.Inspect(ie.Index, func(k ast.Node) bool {
					if id, ok := k.(*ast.Ident); ok {
						for _, o := range loopVars {
							if core.ObjOf(info, id) == o {
								byLoopVar = true
							}
						}
					}
					return true
				})
				if !byLoopVar {
					continue
				}
				n++
				ord++
				key := fmt.Sprintf("canvas.%s|span position write #%d", fname, ord)
				if as.Tok != token.ASSIGN {
					r.OK("E11.span-shift", key, c.Pos(as.Pos()), "shift ("+as.Tok.String()+")")
					continue
				}
				dep := false
				ast.Inspect(as.Rhs[0], func(k ast.Node) bool {
					if id, ok := k.(*ast.Ident); ok && varying[core.ObjOf(info, id)] {
						dep = true
					}
					return true
				})
				if dep {
					r.OK("E11.span-shift", key, c.Pos(as.Pos()), "depends on the span")
				} else {
					r.Fail("E11.span-shift", key, c.Pos(as.Pos()), fmt.Sprintf("every span of the line is given the same position `%s`: with more than one span (mixed scripts or directions) the spans overlap instead of following each other", types.ExprString(as.Rhs[0])))
				}
			}
			_ = loopPos
			return true
		})
	}
	r.Count("E11.span-position-writes", n)
	r.Floor("E11.span-position-writes", 2)
}

// E11CopyStore: a presentation attribute is not stored into a throw-away copy.
func E11CopyStore(c *core.Ctx, r *core.Report) {
	r.Rule("E11.copy-store", "in the SVG importer (svg.go) a field store `v.F = e` on a local `v` that is a value copy — bound by a type assertion to a non-pointer struct type, by a range value or by a plain assignment from a field/element — is followed by a use of v (typically storing it back); otherwise the attribute being processed has no effect. E.g. stroke-miterlimit must reach the context's joiner, not the copy the type assertion returned")
	p := c.MustPkg("")
	info := p.TypesInfo
	n := 0
	for _, fd := range core.AllFuncDecls(p) {
		if fd.Body == nil || filepathBase(c.Fset.Position(fd.Pos()).Filename) != "svg.go" {
			continue
		}
		fname := "canvas." + core.FuncName(fd)
		ord := 0
		// value copies: objects defined by `v, ok := x.(T)` with T a struct value type
		copies := map[types.Object]bool{}
		ast.Inspect(fd.Body, func(m ast.Node) bool {
			as, ok := m.(*ast.AssignStmt)
			if !ok || as.Tok != token.DEFINE || len(as.Rhs) != 1 {
				return true
			}
			if ta, ok := core.Unparen(as.Rhs[0]).(*ast.TypeAssertExpr); ok && ta.Type != nil {
				if t := info.TypeOf(ta.Type); t != nil {
					if _, isStruct := t.Underlying().(*types.Struct); isStruct {
						if id, ok := as.Lhs[0].(*ast.Ident); ok && id.Name != "_" {
							copies[core.ObjOf(info, id)] = true
						}
					}
				}
			}
			return true
		})
		// … and the per-clause objects of `switch v := x.(type) { case T: … }` with T a struct value type
		ast.Inspect(fd.Body, func(m ast.Node) bool {
			ts, ok := m.(*ast.TypeSwitchStmt)
			if !ok {
				return true
			}
			if _, binds := ts.Assign.(*ast.AssignStmt); !binds {
				return true
			}
			for _, cs := range ts.Body.List {
				if o := info.Implicits[cs]; o != nil {
					if _, isStruct := o.Type().Underlying().(*types.Struct); isStruct {
						copies[o] = true
					}
				}
			}
			return true
		})
		if len(copies) == 0 {
			continue
		}
		ast.Inspect(fd.Body, func(m ast.Node) bool {
			as, ok := m.(*ast.AssignStmt)
			if !ok || len(as.Lhs) != 1 {
				return true
			}
			sel, ok := as.Lhs[0].(*ast.SelectorExpr)
			if !ok {
				return true
			}
			id, ok := core.Unparen(sel.X).(*ast.Ident)
			if !ok || !copies[core.ObjOf(info, id)] {
				return true
			}
			o := core.ObjOf(info, id)
			n++
			ord++
			key := fmt.Sprintf("%s|store into a copied %s #%d", fname, types.TypeString(o.Type(), func(*types.Package) string { return "" }), ord)
			used := false
			ast.Inspect(fd.Body, func(k ast.Node) bool {
				if uid, ok := k.(*ast.Ident); ok && uid.Pos() > as.End() && core.ObjOf(info, uid) == o {
					used = true
				}
				return true
			})
			if used {
				r.OK("E11.copy-store", key, c.Pos(as.Pos()), "the copy is used afterwards")
			} else {
				r.Fail("E11.copy-store", key, c.Pos(as.Pos()), fmt.Sprintf("`%s` writes a field of the copy that the type assertion produced and the copy is never used again: the value never reaches the drawing state, the attribute is ignored", c.Src(as)))
			}
			return true
		})
	}
	r.Count("E11.copy-stores", n)
	r.Floor("E11.copy-stores", 1)
}

func filepathBase(s string) string {
	if i := strings.LastIndex(s, "/"); i >= 0 {
		return s[i+1:]
	}
	return s
}

// E11GlyphCursor: a glyph cursor kept in step with an item walk advances once per item, whatever its type.
func E11GlyphCursor(c *core.Ctx, r *core.Report) {
	r.Rule("E11.glyph-cursor", "RichText.ToText walks the line breaker's items while keeping an offset into the glyph slice; every item (box, glue, penalty — a soft hyphen is a penalty that owns a glyph) owns Size glyphs. In a loop over the items in which an integer variable is advanced by an item's Size and also bounds or indexes the glyphs, every path through one iteration that does not leave the loop advances that variable by the item's Size exactly once. Advancing it only for some item types puts the glue stretch of a justified line on the wrong glyphs")
	p := c.MustPkg("")
	info := p.TypesInfo
	fd := core.MustFuncDecl(p, "RichText.ToText")
	r.Func("canvas.RichText.ToText")
	n := 0
	isSizeOfItem := func(e ast.Expr) bool {
		sel, ok := core.Unparen(e).(*ast.SelectorExpr)
		if !ok || sel.Sel.Name != "Size" {
			return false
		}
		t := info.TypeOf(sel.X)
		return t != nil && isNamed(t, "canvas/text", "Item")
	}
	ast.Inspect(fd.Body, func(m ast.Node) bool {
		var body *ast.BlockStmt
		switch x := m.(type) {
		case *ast.ForStmt:
			body = x.Body
		case *ast.RangeStmt:
			body = x.Body
		default:
			return true
		}
		// candidates: V += <item>.Size directly in this loop's own body (not in nested loops)
		cands := map[types.Object]bool{}
		var collect func(list []ast.Stmt)
		collect = func(list []ast.Stmt) {
			for _, s := range list {
				switch x := s.(type) {
				case *ast.AssignStmt:
					if x.Tok == token.ADD_ASSIGN && len(x.Lhs) == 1 && isSizeOfItem(x.Rhs[0]) {
						if id, ok := x.Lhs[0].(*ast.Ident); ok {
							cands[core.ObjOf(info, id)] = true
						}
					}
				case *ast.IfStmt:
					collect(x.Body.List)
					if eb, ok := x.Else.(*ast.BlockStmt); ok {
						collect(eb.List)
					} else if ei, ok := x.Else.(*ast.IfStmt); ok {
						collect([]ast.Stmt{ei})
					}
				case *ast.BlockStmt:
					collect(x.List)
				}
			}
		}
		collect(body.List)
		for v := range cands {
			// used to bound or index the glyphs inside this loop?
			uses := false
			ast.Inspect(body, func(k ast.Node) bool {
				switch x := k.(type) {
				case *ast.ForStmt:
					if be, ok := x.Cond.(*ast.BinaryExpr); ok {
						if id, ok := core.Unparen(be.Y).(*ast.Ident); ok && core.ObjOf(info, id) == v {
							// the inner loop's variable indexes glyphs
							ast.Inspect(x.Body, func(q ast.Node) bool {
								if ie, ok := q.(*ast.IndexExpr); ok {
									if t := info.TypeOf(ie.X); t != nil {
										if sl, ok := t.Underlying().(*types.Slice); ok && isNamed(sl.Elem(), "canvas/text", "Glyph") {
											uses = true
										}
									}
								}
								return true
							})
						}
					}
				case *ast.IndexExpr:
					if t := info.TypeOf(x.X); t != nil {
						if sl, ok := t.Underlying().(*types.Slice); ok && isNamed(sl.Elem(), "canvas/text", "Glyph") {
							ast.Inspect(x.Index, func(q ast.Node) bool {
								if id, ok := q.(*ast.Ident); ok && core.ObjOf(info, id) == v {
									uses = true
								}
								return true
							})
						}
					}
				}
				return true
			})
			if !uses {
				continue
			}
			n++
			// enumerate paths: min and max number of advances of v per iteration that stays in the loop
			var count func(list []ast.Stmt) (int, int, bool) // min, max, leaves
			count = func(list []ast.Stmt) (int, int, bool) {
				lo, hi := 0, 0
				for _, s := range list {
					switch x := s.(type) {
					case *ast.AssignStmt:
						if x.Tok == token.ADD_ASSIGN && len(x.Lhs) == 1 && isSizeOfItem(x.Rhs[0]) {
							if id, ok := x.Lhs[0].(*ast.Ident); ok && core.ObjOf(info, id) == v {
								lo++
								hi++
							}
						}
					case *ast.BranchStmt:
						return lo, hi, true
					case *ast.ReturnStmt:
						return lo, hi, true
					case *ast.BlockStmt:
						a, b, lv := count(x.List)
						lo, hi = lo+a, hi+b
						if lv {
							return lo, hi, true
						}
					case *ast.IfStmt:
						a1, b1, l1 := count(x.Body.List)
						a2, b2, l2 := 0, 0, false
						if eb, ok := x.Else.(*ast.BlockStmt); ok {
							a2, b2, l2 = count(eb.List)
						} else if ei, ok := x.Else.(*ast.IfStmt); ok {
							a2, b2, l2 = count([]ast.Stmt{ei})
						}
						switch {
						case l1 && l2:
							return lo, hi, true
						case l1:
							lo, hi = lo+a2, hi+b2
						case l2:
							lo, hi = lo+a1, hi+b1
						default:
							if a2 < a1 {
								a1 = a2
							}
							if b2 > b1 {
								b1 = b2
							}
							lo, hi = lo+a1, hi+b1
						}
					}
				}
				return lo, hi, false
			}
			lo, hi, _ := count(body.List)
			key := fmt.Sprintf("canvas.RichText.ToText|glyph cursor #%d advances once per item", n)
			if lo == 1 && hi == 1 {
				r.OK("E11.glyph-cursor", key, c.Pos(body.Pos()), "")
			} else {
				r.Fail("E11.glyph-cursor", key, c.Pos(body.Pos()), fmt.Sprintf("`%s` bounds or indexes the glyphs but is advanced by the item's Size between %d and %d times on the paths through one iteration: items of some type (a penalty owning the glyph of a soft hyphen) are not counted, and everything after them on the line is applied to the wrong glyphs", v.Name(), lo, hi))
			}
		}
		return true
	})
	r.Count("E11.glyph-cursors", n)
	r.Floor("E11.glyph-cursors", 1)
}

// E11ReturnedScratch: a function of the SVG importer does not hand out its reusable scratch buffer.
func E11ReturnedScratch(c *core.Ctx, r *core.Report, fileSuffix string) {
	r.Rule("E11.returned-scratch", "(scope: files of package canvas ending in "+fileSuffix+") no function returns a slice built on the capacity-keeping reslice `B[:0]` of a buffer B that outlives the call (a field of the receiver or a package variable): callers keep such results (the dash array goes into the drawing state, which Push copies by value), and the next call overwrites them in place. Every []float64/[]string-returning function of the file is examined")
	p := c.MustPkg("")
	info := p.TypesInfo
	n := 0
	for _, fd := range core.AllFuncDecls(p) {
		if fd.Body == nil || !strings.HasSuffix(c.Fset.Position(fd.Pos()).Filename, fileSuffix) {
			continue
		}
		if fd.Type.Results == nil {
			continue
		}
		returnsSlice := false
		for _, fl := range fd.Type.Results.List {
			if t := info.TypeOf(fl.Type); t != nil {
				if _, ok := t.Underlying().(*types.Slice); ok {
					returnsSlice = true
				}
			}
		}
		if !returnsSlice {
			continue
		}
		n++
		fname := "canvas." + core.FuncName(fd)
		// taint: locals initialised from <long-lived>[:0]
		longLived := func(e ast.Expr) bool {
			e = core.Unparen(e)
			switch x := e.(type) {
			case *ast.SelectorExpr:
				if sel := info.Selections[x]; sel != nil && sel.Kind() == types.FieldVal {
					return true
				}
			case *ast.Ident:
				if o := core.ObjOf(info, x); o != nil && o.Parent() == p.Types.Scope() {
					return true
				}
			}
			return false
		}
		taint := map[types.Object]ast.Expr{}
		changed := true
		for changed {
			changed = false
			ast.Inspect(fd.Body, func(m ast.Node) bool {
				as, ok := m.(*ast.AssignStmt)
				if !ok || len(as.Lhs) != len(as.Rhs) {
					return true
				}
				for i, l := range as.Lhs {
					id, ok := l.(*ast.Ident)
					if !ok {
						continue
					}
					o := core.ObjOf(info, id)
					if o == nil || taint[o] != nil {
						continue
					}
					rh := core.Unparen(as.Rhs[i])
					if se, ok := rh.(*ast.SliceExpr); ok && se.Max == nil && !se.Slice3 && longLived(se.X) {
						if hv, ok := core.ConstInt(info, se.High); ok && hv == 0 {
							taint[o] = se.X
							changed = true
						}
					}
					// v = append(w, …) with w tainted
					if call, ok := rh.(*ast.CallExpr); ok && len(call.Args) > 0 {
						if f, ok := call.Fun.(*ast.Ident); ok && f.Name == "append" {
							if w, ok := core.Unparen(call.Args[0]).(*ast.Ident); ok {
								if src := taint[core.ObjOf(info, w)]; src != nil {
									taint[o] = src
									changed = true
								}
							}
						}
					}
				}
				return true
			})
		}
		key := fname + "|result does not alias a reusable buffer"
		var bad ast.Expr
		var badPos token.Pos
		ast.Inspect(fd.Body, func(m ast.Node) bool {
			rs, ok := m.(*ast.ReturnStmt)
			if !ok {
				return true
			}
			for _, e := range rs.Results {
				if id, ok := core.Unparen(e).(*ast.Ident); ok {
					if src := taint[core.ObjOf(info, id)]; src != nil && bad == nil {
						bad, badPos = src, rs.Pos()
					}
				}
			}
			return true
		})
		if bad == nil {
			r.OK("E11.returned-scratch", key, c.Pos(fd.Pos()), "")
		} else {
			r.Fail("E11.returned-scratch", key, c.Pos(badPos), fmt.Sprintf("the returned slice is built on `%s[:0]`, a buffer that is reused by the next call: a caller that keeps the result (stroke-dasharray stores it in the drawing state) sees it overwritten by the next number list that is parsed", types.ExprString(bad)))
		}
	}
	r.Count("E11.slice-returning-functions", n)
	r.Floor("E11.slice-returning-functions", 1)
}

// E11SVGSmooth: the smooth curve commands of ParseSVGPath follow the SVG rule for the implied control point.
func E11SVGSmooth(c *core.Ctx, r *core.Report) {
	r.Rule("E11.svg-smooth", "ParseSVGPath, cases S/s and T/t, evaluated abstractly for both letter cases and for each of the twenty command letters as predecessor (points as terms over Add/Sub/Mul, conditions and switches on cmd and prevCmd decided): the first control point handed to CubeTo/QuadTo is the reflection 2·p0 − m of the remembered control point m when the previous command was C/c/S/s (resp. Q/q/T/t) and the current point p0 otherwise (SVG 1.1 §8.3.6–8.3.7), and after the case the remembered control point is the control point next to the end point of the curve just drawn")
	p := c.MustPkg("")
	info := p.TypesInfo
	fd := core.MustFuncDecl(p, "ParseSVGPath")
	r.Func("canvas.ParseSVGPath")
	clauses := map[string]*ast.CaseClause{}
	var cmdObj, prevObj types.Object
	ast.Inspect(fd.Body, func(n ast.Node) bool {
		sw, ok := n.(*ast.SwitchStmt)
		if !ok || sw.Tag == nil {
			return true
		}
		// the command switch is the one with the most letter cases (an inner `switch prevCmd` has a few)
		found := map[string]*ast.CaseClause{}
		for _, cs := range sw.Body.List {
			cc := cs.(*ast.CaseClause)
			for _, e := range cc.List {
				if v, ok := core.ConstInt(info, e); ok && v < 128 {
					found[string(rune(v))] = cc
				}
			}
		}
		if id, ok := core.Unparen(sw.Tag).(*ast.Ident); ok && len(found) > len(clauses) {
			clauses = found
			cmdObj = core.ObjOf(info, id)
		}
		return true
	})
	// prevCmd: the byte variable compared with letters other than the switch tag inside the S case
	if cc := clauses["S"]; cc != nil {
		ast.Inspect(&ast.BlockStmt{List: cc.Body}, func(n ast.Node) bool {
			if be, ok := n.(*ast.BinaryExpr); ok && be.Op == token.EQL {
				if id, ok := core.Unparen(be.X).(*ast.Ident); ok {
					if o := core.ObjOf(info, id); o != cmdObj {
						if _, isConst := core.ConstInt(info, be.Y); isConst {
							prevObj = o
						}
					}
				}
			}
			// the switch form of the same test: `switch prevCmd { case 'C', 'c', … }`
			if sw, ok := n.(*ast.SwitchStmt); ok && sw.Tag != nil {
				if id, ok := core.Unparen(sw.Tag).(*ast.Ident); ok {
					if o := core.ObjOf(info, id); o != nil && o != cmdObj {
						for _, cs := range sw.Body.List {
							for _, e := range cs.(*ast.CaseClause).List {
								if _, isConst := core.ConstInt(info, e); isConst {
									prevObj = o
								}
							}
						}
					}
				}
			}
			return true
		})
	}
	if prevObj == nil && cmdObj != nil {
		// the variable that remembers the command for the next iteration: `prev = cmd`
		ast.Inspect(fd.Body, func(n ast.Node) bool {
			if as, ok := n.(*ast.AssignStmt); ok && as.Tok == token.ASSIGN && len(as.Lhs) == 1 && len(as.Rhs) == 1 {
				if rid, ok := core.Unparen(as.Rhs[0]).(*ast.Ident); ok && core.ObjOf(info, rid) == cmdObj {
					if lid, ok := as.Lhs[0].(*ast.Ident); ok && prevObj == nil {
						prevObj = core.ObjOf(info, lid)
					}
				}
			}
			return true
		})
	}
	if clauses["S"] == nil || clauses["T"] == nil || cmdObj == nil || prevObj == nil {
		panic(core.Infra("E11.svg-smooth: S/T cases or the prevCmd variable of ParseSVGPath not found"))
	}
	type sym = map[types.Object]string
	var term func(e ast.Expr, env sym) string
	term = func(e ast.Expr, env sym) string {
		e = core.Unparen(e)
		switch x := e.(type) {
		case *ast.Ident:
			o := core.ObjOf(info, x)
			if v, ok := env[o]; ok {
				return v
			}
			return x.Name
		case *ast.CompositeLit:
			var parts []string
			for _, el := range x.Elts {
				parts = append(parts, types.ExprString(el))
			}
			return "P(" + strings.Join(parts, ",") + ")"
		case *ast.CallExpr:
			if se, ok := x.Fun.(*ast.SelectorExpr); ok && len(x.Args) == 1 {
				a := term(se.X, env)
				switch se.Sel.Name {
				case "Add":
					return "(" + a + "+" + term(x.Args[0], env) + ")"
				case "Sub":
					return "(" + a + "-" + term(x.Args[0], env) + ")"
				case "Mul":
					if tv, ok := info.Types[x.Args[0]]; ok && tv.Value != nil {
						return tv.Value.String() + "*" + a
					}
				}
			}
		}
		return "?" + types.ExprString(e)
	}
	cond := func(e ast.Expr, cmd, prev byte) int {
		var ev func(e ast.Expr) int
		ev = func(e ast.Expr) int {
			e = core.Unparen(e)
			be, ok := e.(*ast.BinaryExpr)
			if !ok {
				return -1
			}
			switch be.Op {
			case token.LOR:
				a, b := ev(be.X), ev(be.Y)
				if a == 1 || b == 1 {
					return 1
				}
				if a == 0 && b == 0 {
					return 0
				}
				return -1
			case token.LAND:
				a, b := ev(be.X), ev(be.Y)
				if a == 0 || b == 0 {
					return 0
				}
				if a == 1 && b == 1 {
					return 1
				}
				return -1
			case token.EQL, token.NEQ:
				id, ok := core.Unparen(be.X).(*ast.Ident)
				v, okv := core.ConstInt(info, be.Y)
				if !ok || !okv {
					return -1
				}
				var actual byte
				switch core.ObjOf(info, id) {
				case cmdObj:
					actual = cmd
				case prevObj:
					actual = prev
				default:
					return -1
				}
				if (byte(v) == actual) == (be.Op == token.EQL) {
					return 1
				}
				return 0
			}
			return -1
		}
		return ev(e)
	}
	type outcome struct {
		ctrl []string // control points handed to the drawing call, in order
		env  sym
		bad  string
	}
	var run func(list []ast.Stmt, env sym, cmd, prev byte, out *outcome)
	run = func(list []ast.Stmt, env sym, cmd, prev byte, out *outcome) {
		for _, st := range list {
			switch x := st.(type) {
			case *ast.AssignStmt:
				if len(x.Lhs) != len(x.Rhs) {
					continue
				}
				vals := make([]string, len(x.Rhs))
				for i := range x.Rhs {
					vals[i] = term(x.Rhs[i], env)
				}
				for i, l := range x.Lhs {
					if id, ok := l.(*ast.Ident); ok {
						if o := core.ObjOf(info, id); o != nil && isNamed(o.Type(), "tdewolff/canvas", "Point") {
							env[o] = vals[i]
						}
					}
				}
			case *ast.IfStmt:
				switch cond(x.Cond, cmd, prev) {
				case 1:
					run(x.Body.List, env, cmd, prev, out)
				case 0:
					if eb, ok := x.Else.(*ast.BlockStmt); ok {
						run(eb.List, env, cmd, prev, out)
					}
				default:
					out.bad = "condition `" + types.ExprString(x.Cond) + "` cannot be decided"
				}
			case *ast.SwitchStmt:
				var actual byte
				known := false
				if id, ok := core.Unparen(x.Tag).(*ast.Ident); ok && x.Init == nil {
					switch core.ObjOf(info, id) {
					case cmdObj:
						actual, known = cmd, true
					case prevObj:
						actual, known = prev, true
					}
				}
				if !known {
					out.bad = "switch `" + types.ExprString(x.Tag) + "` cannot be decided"
					continue
				}
				var chosen, deflt *ast.CaseClause
				for _, cs := range x.Body.List {
					cl := cs.(*ast.CaseClause)
					if cl.List == nil {
						deflt = cl
					}
					for _, e := range cl.List {
						if v, ok := core.ConstInt(info, e); ok && byte(v) == actual && chosen == nil {
							chosen = cl
						} else if !ok {
							out.bad = "a case of `switch " + types.ExprString(x.Tag) + "` is not a constant"
						}
					}
				}
				if chosen == nil {
					chosen = deflt
				}
				if chosen != nil {
					run(chosen.Body, env, cmd, prev, out)
				}
			case *ast.ExprStmt:
				call, ok := x.X.(*ast.CallExpr)
				if !ok {
					continue
				}
				if f := core.CalleeOf(info, call); f != nil && (f.Name() == "QuadTo" || f.Name() == "CubeTo") {
					for i := 0; i+1 < len(call.Args)-2; i += 2 {
						sx, ok1 := core.Unparen(call.Args[i]).(*ast.SelectorExpr)
						sy, ok2 := core.Unparen(call.Args[i+1]).(*ast.SelectorExpr)
						if !ok1 || !ok2 || sx.Sel.Name != "X" || sy.Sel.Name != "Y" || types.ExprString(sx.X) != types.ExprString(sy.X) {
							out.bad = "control point arguments are not the X and Y of one point"
							continue
						}
						out.ctrl = append(out.ctrl, term(sx.X, env))
					}
				}
			}
		}
	}
	n := 0
	for _, fam := range []struct {
		letter string
		family []byte
		nctrl  int
	}{{"S", []byte("CcSs"), 2}, {"T", []byte("QqTt"), 1}} {
		cc := clauses[fam.letter]
		// the remembered control point: the Point variable on the right of `.Sub(` in the reflection
		var mem types.Object
		ast.Inspect(&ast.BlockStmt{List: cc.Body}, func(k ast.Node) bool {
			if call, ok := k.(*ast.CallExpr); ok && len(call.Args) == 1 {
				if se, ok := call.Fun.(*ast.SelectorExpr); ok && se.Sel.Name == "Sub" {
					if id, ok := core.Unparen(call.Args[0]).(*ast.Ident); ok && mem == nil {
						mem = core.ObjOf(info, id)
					}
				}
			}
			return true
		})
		for _, lower := range []bool{false, true} {
			cmd := fam.letter[0]
			if lower {
				cmd |= 0x20
			}
			for _, prev := range []byte("MmZzLlHhVvCcSsQqTtAa") {
				inFamily := strings.IndexByte(string(fam.family), prev) >= 0
				n++
				key := fmt.Sprintf("canvas.ParseSVGPath|'%c' after '%c'|implied control point", cmd, prev)
				env := sym{}
				out := &outcome{env: env}
				run(cc.Body, env, cmd, prev, out)
				memName := "?"
				if mem != nil {
					memName = mem.Name()
				}
				want := "p0"
				// the current point: the Point variable added for relative commands
				cur := ""
				ast.Inspect(&ast.BlockStmt{List: cc.Body}, func(k ast.Node) bool {
					if call, ok := k.(*ast.CallExpr); ok && len(call.Args) == 1 && cur == "" {
						if se, ok := call.Fun.(*ast.SelectorExpr); ok && se.Sel.Name == "Add" {
							cur = types.ExprString(call.Args[0])
						}
					}
					return true
				})
				if cur == "" {
					cur = "p0"
				}
				want = cur
				if inFamily {
					want = "(2*" + cur + "-" + memName + ")"
				}
				switch {
				case out.bad != "":
					r.Fail("E11.svg-smooth", key, c.Pos(cc.Pos()), "the case cannot be evaluated: "+out.bad)
				case len(out.ctrl) != fam.nctrl:
					r.Fail("E11.svg-smooth", key, c.Pos(cc.Pos()), fmt.Sprintf("expected one drawing call with %d control point(s), found %d", fam.nctrl, len(out.ctrl)))
				case out.ctrl[0] != want:
					r.Fail("E11.svg-smooth", key, c.Pos(cc.Pos()), fmt.Sprintf("the implied control point is %s, the SVG rule gives %s (the reflection of the previous control point only after a command of the same family, the current point otherwise)", out.ctrl[0], want))
				case mem == nil || env[mem] != out.ctrl[len(out.ctrl)-1]:
					got := "unchanged"
					if mem != nil && env[mem] != "" {
						got = env[mem]
					}
					r.Fail("E11.svg-smooth", key, c.Pos(cc.Pos()), fmt.Sprintf("after the case the remembered control point `%s` is %s, not the control point %s next to the curve's end: a following smooth command reflects the wrong point", memName, got, out.ctrl[len(out.ctrl)-1]))
				default:
					r.OK("E11.svg-smooth", key, c.Pos(cc.Pos()), out.ctrl[0])
				}
			}
		}
	}
	r.Count("E11.svg-smooth-cases", n)
	r.Floor("E11.svg-smooth-cases", 80)
}

// doubledBefore: in fd, before pos, there is `if len(…)%2 == 1 { arr = append(…, …...) }` assigning arr.
func doubledBefore(info *types.Info, fd *ast.FuncDecl, arr types.Object, pos token.Pos) bool {
	doubled := false
	ast.Inspect(fd.Body, func(k ast.Node) bool {
		is, ok := k.(*ast.IfStmt)
		if !ok || is.End() > pos {
			return true
		}
		be, ok := core.Unparen(is.Cond).(*ast.BinaryExpr)
		if !ok || be.Op != token.EQL {
			return true
		}
		rem, ok := core.Unparen(be.X).(*ast.BinaryExpr)
		if !ok || rem.Op != token.REM {
			return true
		}
		if v, ok := core.ConstInt(info, be.Y); !ok || v != 1 {
			return true
		}
		for _, s := range is.Body.List {
			if a2, ok := s.(*ast.AssignStmt); ok && len(a2.Lhs) == 1 && len(a2.Rhs) == 1 {
				if lid, ok := a2.Lhs[0].(*ast.Ident); ok && core.ObjOf(info, lid) == arr {
					if ap, ok := core.Unparen(a2.Rhs[0]).(*ast.CallExpr); ok && ap.Ellipsis.IsValid() {
						if fid, ok := ap.Fun.(*ast.Ident); ok && fid.Name == "append" {
							doubled = true
						}
					}
				}
			}
		}
		return true
	})
	return doubled
}

// E11DashPeriod: the period of a dash pattern is the sum of the doubled array.
func E11DashPeriod(c *core.Ctx, r *core.Report) {
	r.Rule("E11.dash-period", "package canvas: an odd-length dash array is used twice in sequence, so its period is twice its sum. A function that sums a dash array (a []float64 parameter) and combines the sum with the dash offset (math.Mod, += / -= in a loop, or an addition) works on an even-length array: either it doubles an odd array itself before the sum, or every call site passes an array that was doubled in the caller before the call. With the undoubled sum the offset is reduced by half a period for every odd multiple, and dashes and gaps change places")
	p := c.MustPkg("")
	info := p.TypesInfo
	n := 0
	decls := map[*types.Func]*ast.FuncDecl{}
	for _, fd := range core.AllFuncDecls(p) {
		if f, ok := info.Defs[fd.Name].(*types.Func); ok {
			decls[f] = fd
		}
	}
	for f, fd := range decls {
		if fd.Body == nil || strings.HasSuffix(c.Fset.Position(fd.Pos()).Filename, "_test.go") {
			continue
		}
		// []float64 parameters with their index
		type prm struct {
			o   types.Object
			idx int
		}
		var arrs []prm
		var offs []types.Object
		idx := 0
		for _, fl := range fd.Type.Params.List {
			for _, nm := range fl.Names {
				o := info.Defs[nm]
				if o != nil {
					if sl, ok := o.Type().Underlying().(*types.Slice); ok {
						if bt, ok := sl.Elem().Underlying().(*types.Basic); ok && bt.Kind() == types.Float64 {
							arrs = append(arrs, prm{o, idx})
						}
					} else if bt, ok := o.Type().Underlying().(*types.Basic); ok && bt.Kind() == types.Float64 {
						offs = append(offs, o)
					}
				}
				idx++
			}
		}
		if len(arrs) == 0 || len(offs) == 0 {
			continue
		}
		for _, a := range arrs {
			// total := Σ a
			var total types.Object
			var sumPos token.Pos
			ast.Inspect(fd.Body, func(m ast.Node) bool {
				rs, ok := m.(*ast.RangeStmt)
				if !ok {
					return true
				}
				id, ok := core.Unparen(rs.X).(*ast.Ident)
				if !ok || core.ObjOf(info, id) != a.o {
					return true
				}
				for _, s := range rs.Body.List {
					if as, ok := s.(*ast.AssignStmt); ok && as.Tok == token.ADD_ASSIGN && len(as.Lhs) == 1 {
						if lid, ok := as.Lhs[0].(*ast.Ident); ok {
							total, sumPos = core.ObjOf(info, lid), rs.Pos()
						}
					}
				}
				return true
			})
			if total == nil {
				continue
			}
			// combined with a float parameter (the offset)?
			combined := false
			ast.Inspect(fd.Body, func(m ast.Node) bool {
				mentions := func(e ast.Node, o types.Object) bool {
					found := false
					ast.Inspect(e, func(k ast.Node) bool {
						if id, ok := k.(*ast.Ident); ok && core.ObjOf(info, id) == o {
							found = true
						}
						return true
					})
					return found
				}
				switch x := m.(type) {
				case *ast.BinaryExpr:
					if x.Op == token.ADD || x.Op == token.SUB {
						for _, of := range offs {
							if mentions(x, total) && mentions(x, of) {
								combined = true
							}
						}
					}
				case *ast.AssignStmt:
					if (x.Tok == token.ADD_ASSIGN || x.Tok == token.SUB_ASSIGN) && len(x.Lhs) == 1 {
						for _, of := range offs {
							if mentions(x.Lhs[0], of) && mentions(x.Rhs[0], total) {
								combined = true
							}
						}
					}
				case *ast.CallExpr:
					if name, _ := core.MathFunc(info, x); name == "Mod" && mentions(x, total) {
						combined = true
					}
				}
				return true
			})
			if !combined {
				continue
			}
			n++
			key := "canvas." + core.FuncName(fd) + "|period of the dash array"
			if doubledBefore(info, fd, a.o, sumPos) {
				r.OK("E11.dash-period", key, c.Pos(sumPos), "doubled in the function before the sum")
				continue
			}
			// call-site contract
			bad := ""
			sites := 0
			for _, cfd := range decls {
				if cfd.Body == nil {
					continue
				}
				ast.Inspect(cfd.Body, func(m ast.Node) bool {
					call, ok := m.(*ast.CallExpr)
					if !ok || core.CalleeOf(info, call) != f || a.idx >= len(call.Args) {
						return true
					}
					sites++
					aid, ok := core.Unparen(call.Args[a.idx]).(*ast.Ident)
					if !ok || !doubledBefore(info, cfd, core.ObjOf(info, aid), call.Pos()) {
						if bad == "" {
							bad = fmt.Sprintf("canvas.%s passes `%s`, which is not doubled when odd before the call", core.FuncName(cfd), types.ExprString(call.Args[a.idx]))
						}
					}
					return true
				})
			}
			switch {
			case bad != "":
				r.Fail("E11.dash-period", key, c.Pos(sumPos), "the function combines the sum of the dash array with the offset without doubling an odd-length array first, and "+bad+": for an odd-length pattern the sum is half the period")
			case sites == 0:
				r.Fail("E11.dash-period", key, c.Pos(sumPos), "the function combines the sum of the dash array with the offset without doubling an odd-length array first, and it has no call site in the package that could establish an even length")
			default:
				r.OK("E11.dash-period", key, c.Pos(sumPos), fmt.Sprintf("every one of its %d call sites passes a doubled array", sites))
			}
		}
	}
	r.Count("E11.dash-period-functions", n)
	r.Floor("E11.dash-period-functions", 1)
}

// E11DashOffsetRange: a negative dash offset is brought into range for any number of periods.
func E11DashOffsetRange(c *core.Ctx, r *core.Report) {
	r.Rule("E11.dash-offset-range", "wherever a negative dash offset (phase) is normalised with the sum of the pattern — canvas.dashStart, the PDF page writer's SetDashes — the sum is added until the offset is no longer negative (a `for offset < 0` loop) or the offset is reduced with math.Mod; a single addition under `if offset < 0` handles offsets down to minus one period only, and the pattern then starts with a first dash that is too long")
	n := 0
	for _, rel := range []string{"", "renderers/pdf", "renderers/ps", "renderers/svg"} {
		p := c.MustPkg(rel)
		info := p.TypesInfo
		for _, fd := range core.AllFuncDecls(p) {
			if fd.Body == nil || strings.HasSuffix(c.Fset.Position(fd.Pos()).Filename, "_test.go") {
				continue
			}
			fname := p.Types.Name() + "." + core.FuncName(fd)
			ast.Inspect(fd.Body, func(m ast.Node) bool {
				is, ok := m.(*ast.IfStmt)
				if !ok {
					return true
				}
				be, ok := core.Unparen(is.Cond).(*ast.BinaryExpr)
				if !ok || be.Op != token.LSS {
					return true
				}
				oid, ok := core.Unparen(be.X).(*ast.Ident)
				if !ok {
					return true
				}
				if v, ok := core.ConstVal(info, be.Y).(interface{ String() string }); !ok || (v.String() != "0" && v.String() != "0.0") {
					return true
				}
				off := core.ObjOf(info, oid)
				// the body sums a []float64 into a local
				var total types.Object
				ast.Inspect(is.Body, func(k ast.Node) bool {
					if rs, ok := k.(*ast.RangeStmt); ok {
						if t := info.TypeOf(rs.X); t != nil {
							if sl, ok := t.Underlying().(*types.Slice); ok {
								if bt, ok := sl.Elem().Underlying().(*types.Basic); ok && bt.Kind() == types.Float64 {
									for _, s := range rs.Body.List {
										if as, ok := s.(*ast.AssignStmt); ok && as.Tok == token.ADD_ASSIGN && len(as.Lhs) == 1 {
											if lid, ok := as.Lhs[0].(*ast.Ident); ok {
												total = core.ObjOf(info, lid)
											}
										}
									}
								}
							}
						}
					}
					return true
				})
				if total == nil {
					return true
				}
				n++
				key := fname + "|negative offset normalised for any number of periods"
				mentions := func(e ast.Node, o types.Object) bool {
					found := false
					ast.Inspect(e, func(k ast.Node) bool {
						if id, ok := k.(*ast.Ident); ok && core.ObjOf(info, id) == o {
							found = true
						}
						return true
					})
					return found
				}
				okForm := false
				ast.Inspect(is.Body, func(k ast.Node) bool {
					switch x := k.(type) {
					case *ast.ForStmt:
						// for off < 0 { off += total }
						if x.Cond != nil && mentions(x.Cond, off) && mentions(x.Body, total) && mentions(x.Body, off) {
							okForm = true
						}
					case *ast.CallExpr:
						if name, _ := core.MathFunc(info, x); name == "Mod" && mentions(x, off) && mentions(x, total) {
							okForm = true
						}
					}
					return true
				})
				// with math.Mod, the value stored is non-negative by construction: math.Mod keeps the sign of its dividend
				isTotal := func(e ast.Expr) bool {
					id, ok := core.Unparen(e).(*ast.Ident)
					return ok && core.ObjOf(info, id) == total
				}
				var nonneg func(e ast.Expr) bool
				nonneg = func(e ast.Expr) bool {
					e = core.Unparen(e)
					if name, call := core.MathFunc(info, e); call != nil {
						switch name {
						case "Abs":
							return true
						case "Mod":
							return len(call.Args) == 2 && nonneg(call.Args[0])
						}
					}
					if be, ok := e.(*ast.BinaryExpr); ok && be.Op == token.ADD {
						for _, pr := range [][2]ast.Expr{{be.X, be.Y}, {be.Y, be.X}} {
							if name, call := core.MathFunc(info, pr[0]); name == "Mod" && len(call.Args) == 2 && isTotal(call.Args[1]) && isTotal(pr[1]) {
								return true // Mod(x, T) lies in (-T, T)
							}
						}
						return nonneg(be.X) && nonneg(be.Y)
					}
					return isTotal(e)
				}
				usesMod, lastRHS := false, ast.Expr(nil)
				ast.Inspect(is.Body, func(k ast.Node) bool {
					switch x := k.(type) {
					case *ast.ForStmt:
						return false
					case *ast.AssignStmt:
						if len(x.Lhs) == 1 && len(x.Rhs) == 1 && x.Tok == token.ASSIGN {
							if lid, ok := x.Lhs[0].(*ast.Ident); ok && core.ObjOf(info, lid) == off {
								lastRHS = x.Rhs[0]
								ast.Inspect(x.Rhs[0], func(q ast.Node) bool {
									if ce, ok := q.(*ast.CallExpr); ok {
										if name, _ := core.MathFunc(info, ce); name == "Mod" {
											usesMod = true
										}
									}
									return true
								})
							}
						}
					}
					return true
				})
				if okForm && usesMod && lastRHS != nil && !nonneg(lastRHS) {
					r.Fail("E11.dash-offset-range", key, c.Pos(lastRHS.Pos()), fmt.Sprintf("under `%s` the offset becomes `%s`, which is not non-negative by construction: math.Mod keeps the sign of its dividend, so for an offset below minus one period the result is still negative (accepted forms: math.Mod(x, T) + T, or math.Mod of such a value); the first dash then starts before the path and comes out too long", types.ExprString(is.Cond), types.ExprString(lastRHS)))
				} else if okForm {
					r.OK("E11.dash-offset-range", key, c.Pos(is.Pos()), "")
				} else {
					r.Fail("E11.dash-offset-range", key, c.Pos(is.Pos()), fmt.Sprintf("under `%s` the pattern length is combined with the offset without a loop or math.Mod: offsets below minus one period stay out of range", types.ExprString(is.Cond)))
				}
				return true
			})
		}
	}
	r.Count("E11.negative-offset-sites", n)
	r.Floor("E11.negative-offset-sites", 2)
}

// E11DashCover: the end of the element dashStart points at is pos + d[i].
func E11DashCover(c *core.Ctx, r *core.Report) {
	r.Rule("E11.dash-cover", "dashStart returns the index i of the current dash or gap and the position pos <= 0 at which it started, so it ends at pos + d[i]. Every caller that combines the two (Path.Dash walks `pos+d[i] < length`, checkDash tests whether the first element covers the whole path) adds them; a difference d[i] - pos counts the consumed part twice")
	p := c.MustPkg("")
	info := p.TypesInfo
	n := 0
	for _, fd := range core.AllFuncDecls(p) {
		if fd.Body == nil {
			continue
		}
		fname := "canvas." + core.FuncName(fd)
		var idx, pos, arr types.Object
		ast.Inspect(fd.Body, func(m ast.Node) bool {
			as, ok := m.(*ast.AssignStmt)
			if !ok || len(as.Lhs) != 2 || len(as.Rhs) != 1 {
				return true
			}
			call, ok := core.Unparen(as.Rhs[0]).(*ast.CallExpr)
			if !ok || len(call.Args) != 2 {
				return true
			}
			if f := core.CalleeOf(info, call); f == nil || f.Name() != "dashStart" || f.Pkg() != p.Types {
				return true
			}
			if a, ok := as.Lhs[0].(*ast.Ident); ok {
				idx = core.ObjOf(info, a)
			}
			if b, ok := as.Lhs[1].(*ast.Ident); ok {
				pos = core.ObjOf(info, b)
			}
			if a, ok := core.Unparen(call.Args[1]).(*ast.Ident); ok {
				arr = core.ObjOf(info, a)
			}
			return true
		})
		if idx == nil || pos == nil || arr == nil {
			continue
		}
		// variables initialised from idx/pos count as the same quantities (i := i0; pos := pos0)
		alias := map[types.Object]types.Object{idx: idx, pos: pos}
		ast.Inspect(fd.Body, func(m ast.Node) bool {
			if as, ok := m.(*ast.AssignStmt); ok && len(as.Lhs) == len(as.Rhs) {
				for i, l := range as.Lhs {
					if rid, ok := core.Unparen(as.Rhs[i]).(*ast.Ident); ok {
						if root, ok := alias[core.ObjOf(info, rid)]; ok {
							if lid, ok := l.(*ast.Ident); ok {
								alias[core.ObjOf(info, lid)] = root
							}
						}
					}
				}
			}
			return true
		})
		isPos := func(e ast.Expr) bool {
			id, ok := core.Unparen(e).(*ast.Ident)
			return ok && alias[core.ObjOf(info, id)] == pos
		}
		isElem := func(e ast.Expr) bool {
			ie, ok := core.Unparen(e).(*ast.IndexExpr)
			if !ok {
				return false
			}
			a, ok1 := core.Unparen(ie.X).(*ast.Ident)
			k, ok2 := core.Unparen(ie.Index).(*ast.Ident)
			return ok1 && ok2 && core.ObjOf(info, a) == arr && alias[core.ObjOf(info, k)] == idx
		}
		ord := 0
		ast.Inspect(fd.Body, func(m ast.Node) bool {
			be, ok := m.(*ast.BinaryExpr)
			if !ok || (be.Op != token.ADD && be.Op != token.SUB) {
				return true
			}
			if !(isPos(be.X) && isElem(be.Y) || isElem(be.X) && isPos(be.Y)) {
				return true
			}
			n++
			ord++
			key := fmt.Sprintf("%s|end of the current dash element #%d", fname, ord)
			if be.Op == token.ADD {
				r.OK("E11.dash-cover", key, c.Pos(be.Pos()), types.ExprString(be))
			} else {
				r.Fail("E11.dash-cover", key, c.Pos(be.Pos()), fmt.Sprintf("`%s` subtracts the start position from the element's length: the element that started at pos <= 0 ends at pos + d[i]", types.ExprString(be)))
			}
			return true
		})
		// an ordering comparison that looks at the element's length takes its start position into account
		cmp := 0
		ast.Inspect(fd.Body, func(m ast.Node) bool {
			be, ok := m.(*ast.BinaryExpr)
			if !ok || (be.Op != token.LSS && be.Op != token.LEQ && be.Op != token.GTR && be.Op != token.GEQ) {
				return true
			}
			hasElem, hasPos := false, false
			ast.Inspect(be, func(k ast.Node) bool {
				if e, ok := k.(ast.Expr); ok {
					if isElem(e) {
						hasElem = true
					}
					if isPos(e) {
						hasPos = true
					}
				}
				return true
			})
			if !hasElem {
				return true
			}
			n++
			cmp++
			key := fmt.Sprintf("%s|comparison with the current dash element #%d", fname, cmp)
			if hasPos {
				r.OK("E11.dash-cover", key, c.Pos(be.Pos()), types.ExprString(be))
			} else {
				r.Fail("E11.dash-cover", key, c.Pos(be.Pos()), fmt.Sprintf("`%s` compares the length of the element dashStart points at without the position at which it started: with an offset inside the element (pos < 0) it ends at pos + d[i], earlier than d[i], so a path that ends between the two is taken to lie inside one dash or gap and is not cut", types.ExprString(be)))
			}
			return true
		})
	}
	r.Count("E11.dash-cover-sites", n)
	r.Floor("E11.dash-cover-sites", 2)
}

// E11SubpathLoops: Stroke and Offset treat every sub-path by its own properties.
func E11SubpathLoops(c *core.Ctx, r *core.Report) {
	r.Rule("E11.subpath-loop", "Path.Stroke and Path.Offset work sub-path by sub-path (`for … range p.Split()`): inside that loop neither the whole receiver nor a local computed from it before the loop is consulted — orientation (CCW), closedness and the like are properties of the sub-path at hand. A whole-path value (Path.CCW looks at the first sub-path only) applies the first contour's orientation to every contour, and a hole is then settled with the wrong fill rule and disappears")
	p := c.MustPkg("")
	info := p.TypesInfo
	n := 0
	for _, fname := range []string{"Path.Stroke", "Path.Offset"} {
		fd := core.MustFuncDecl(p, fname)
		r.Func("canvas." + fname)
		recv := recvObj(info, fd)
		var loop *ast.RangeStmt
		for _, st := range fd.Body.List {
			if rs, ok := st.(*ast.RangeStmt); ok {
				if call, ok := core.Unparen(rs.X).(*ast.CallExpr); ok {
					if se, ok := call.Fun.(*ast.SelectorExpr); ok && se.Sel.Name == "Split" {
						if id, ok := core.Unparen(se.X).(*ast.Ident); ok && core.ObjOf(info, id) == recv {
							loop = rs
						}
					}
				}
			}
		}
		key := "canvas." + fname + "|no whole-path value in the sub-path loop"
		if loop == nil {
			r.Fail("E11.subpath-loop", key, c.Pos(fd.Pos()), "the loop over the receiver's sub-paths was not found")
			continue
		}
		n++
		derived := map[types.Object]bool{}
		for _, st := range fd.Body.List {
			if st == ast.Stmt(loop) {
				break
			}
			as, ok := st.(*ast.AssignStmt)
			if !ok {
				continue
			}
			mentions := false
			for _, rhs := range as.Rhs {
				ast.Inspect(rhs, func(m ast.Node) bool {
					if id, ok := m.(*ast.Ident); ok && (core.ObjOf(info, id) == recv || derived[core.ObjOf(info, id)]) {
						mentions = true
					}
					return true
				})
			}
			if mentions {
				for _, l := range as.Lhs {
					if id, ok := l.(*ast.Ident); ok {
						derived[core.ObjOf(info, id)] = true
					}
				}
			}
		}
		whole := ""
		var wholePos token.Pos
		ast.Inspect(loop.Body, func(m ast.Node) bool {
			if id, ok := m.(*ast.Ident); ok && whole == "" {
				o := core.ObjOf(info, id)
				if o == recv || derived[o] {
					whole, wholePos = id.Name, id.Pos()
				}
			}
			return true
		})
		if whole == "" {
			r.OK("E11.subpath-loop", key, c.Pos(loop.Pos()), "")
		} else {
			r.Fail("E11.subpath-loop", key, c.Pos(wholePos), fmt.Sprintf("`%s`, which is (derived from) the whole receiver path, is consulted inside the loop over its sub-paths: what is true of the first sub-path decides how every sub-path is offset", whole))
		}
	}
	r.Count("E11.subpath-loops", n)
	r.Floor("E11.subpath-loops", 2)
}

// E11ViewBoxMirror: the width and the height of the SVG canvas are computed by mirror-image statements.
func E11ViewBoxMirror(c *core.Ctx, r *core.Report) {
	r.Rule("E11.viewbox-mirror", "svgParser.parseViewBox computes the canvas width from (attrWidth, viewbox[0], viewbox[2]) and the height from (attrHeight, viewbox[1], viewbox[3]) by two statements that are mirror images: after renaming of locals (alpha-normalisation numbers them by first occurrence, so a stray reference to the other axis' attribute changes the numbering) and mapping the viewBox indices 0→1, 2→3 they are identical. A width attribute consulted in the height statement makes the height depend on whether the *width* is a percentage")
	p := c.MustPkg("")
	fd := core.MustFuncDecl(p, "svgParser.parseViewBox")
	r.Func("canvas.svgParser.parseViewBox")
	// the two top-level if statements that assign the two float results
	var ifs []*ast.IfStmt
	for _, st := range fd.Body.List {
		if is, ok := st.(*ast.IfStmt); ok && is.Else != nil {
			assignsFloat := false
			ast.Inspect(is.Body, func(n ast.Node) bool {
				if as, ok := n.(*ast.AssignStmt); ok && as.Tok == token.ASSIGN && len(as.Lhs) == 1 {
					if id, ok := as.Lhs[0].(*ast.Ident); ok {
						if t := p.TypesInfo.TypeOf(id); t != nil {
							if b, ok := t.Underlying().(*types.Basic); ok && b.Kind() == types.Float64 {
								assignsFloat = true
							}
						}
					}
				}
				return true
			})
			if assignsFloat {
				ifs = append(ifs, is)
			}
		}
	}
	key := "canvas.svgParser.parseViewBox|width and height statements are mirror images"
	if len(ifs) != 2 {
		r.Fail("E11.viewbox-mirror", key, c.Pos(fd.Pos()), fmt.Sprintf("expected two if/else statements assigning the width and the height, found %d", len(ifs)))
		return
	}
	a := c.Norm(p, ifs[0])
	b := c.Norm(p, ifs[1])
	mapped := strings.NewReplacer("[0]", "[1]", "[2]", "[3]").Replace(a)
	if mapped == b {
		r.OK("E11.viewbox-mirror", key, c.Pos(ifs[1].Pos()), "")
	} else {
		r.Fail("E11.viewbox-mirror", key, c.Pos(ifs[1].Pos()), fmt.Sprintf("the height statement is not the mirror image of the width statement (width, indices mapped: %s; height: %s)", mapped, b))
	}
	r.Count("E11.viewbox-mirror", 1)
}

// E11DerivedScale: FontFace.MmPerEm is computed from the final FontFace.Size.
func E11DerivedScale(c *core.Ctx, r *core.Report) {
	r.Rule("E11.derived-scale", "a FontFace stores its scale twice: Size (used by the PDF Tf operator, the SVG font size and the line breaker's glyph size) and MmPerEm = Size / unitsPerEm (used by TextWidth, span widths and positions, toPath). In every function that assigns MmPerEm from Size no assignment to that face's Size follows it: a later `Size *= scale` (sub- and superscripts) leaves the two scales different, and the PDF pen then advances by a different amount than the layout and the path rendering")
	p := c.MustPkg("")
	info := p.TypesInfo
	n := 0
	for _, fd := range core.AllFuncDecls(p) {
		if fd.Body == nil || strings.HasSuffix(c.Fset.Position(fd.Pos()).Filename, "_test.go") {
			continue
		}
		fname := "canvas." + core.FuncName(fd)
		ord := 0
		ast.Inspect(fd.Body, func(m ast.Node) bool {
			as, ok := m.(*ast.AssignStmt)
			if !ok || len(as.Lhs) != 1 || len(as.Rhs) != 1 {
				return true
			}
			sel, ok := as.Lhs[0].(*ast.SelectorExpr)
			if !ok || sel.Sel.Name != "MmPerEm" {
				return true
			}
			if t := info.TypeOf(sel.X); t == nil || !isNamed(t, "tdewolff/canvas", "FontFace") {
				return true
			}
			base := types.ExprString(sel.X)
			fromSize := false
			ast.Inspect(as.Rhs[0], func(k ast.Node) bool {
				if s2, ok := k.(*ast.SelectorExpr); ok && s2.Sel.Name == "Size" && types.ExprString(s2.X) == base {
					fromSize = true
				}
				return true
			})
			if !fromSize {
				return true
			}
			n++
			ord++
			key := fmt.Sprintf("%s|MmPerEm #%d computed from the final Size", fname, ord)
			var later ast.Node
			ast.Inspect(fd.Body, func(k ast.Node) bool {
				a2, ok := k.(*ast.AssignStmt)
				if !ok || a2.Pos() <= as.End() {
					return true
				}
				for _, l := range a2.Lhs {
					if s2, ok := l.(*ast.SelectorExpr); ok && s2.Sel.Name == "Size" && types.ExprString(s2.X) == base && later == nil {
						later = a2
					}
				}
				return true
			})
			if later == nil {
				r.OK("E11.derived-scale", key, c.Pos(as.Pos()), "")
			} else {
				r.Fail("E11.derived-scale", key, c.Pos(later.Pos()), fmt.Sprintf("`%s` changes the face's Size after MmPerEm was derived from it: the two scales of the face disagree", c.Src(later)))
			}
			return true
		})
	}
	r.Count("E11.derived-scale-sites", n)
	r.Floor("E11.derived-scale-sites", 1)
}

// E11ItemsCoverGlyphs: GlyphsToItems gives every glyph to exactly one item.
func E11ItemsCoverGlyphs(c *core.Ctx, r *core.Report) {
	r.Rule("E11.items-cover-glyphs", "text.GlyphsToItems turns the glyphs of a paragraph into line-breaker items, and an item's Size is the number of glyphs it owns — the only link RichText.ToText has from an item back to the glyph slice. In the loop over the glyphs every path through one iteration increments the Size of exactly one item exactly once, for each alignment RichText.ToText passes (the constants assigned to the argument at the call site; conditions on the alignment are decided per value, all other conditions are followed both ways). A glyph that no item owns (the \\n of a \\r\\n pair skipped by an early continue) shifts every later line by one glyph")
	tp := c.MustPkg("text")
	tinfo := tp.TypesInfo
	fd := core.MustFuncDecl(tp, "GlyphsToItems")
	r.Func("text.GlyphsToItems")
	// the alignment parameter and the values the canvas package passes
	var alignObj types.Object
	for _, fl := range fd.Type.Params.List {
		for _, nm := range fl.Names {
			if o := tinfo.Defs[nm]; o != nil && isNamed(o.Type(), "canvas/text", "Align") {
				alignObj = o
			}
		}
	}
	if alignObj == nil {
		panic(core.Infra("E11.items-cover-glyphs: alignment parameter not found"))
	}
	root := c.MustPkg("")
	values := map[string]bool{}
	for _, cfd := range core.AllFuncDecls(root) {
		if cfd.Body == nil {
			continue
		}
		ast.Inspect(cfd.Body, func(m ast.Node) bool {
			call, ok := m.(*ast.CallExpr)
			if !ok || len(call.Args) != 3 {
				return true
			}
			f := core.CalleeOf(root.TypesInfo, call)
			if f == nil || f.Name() != "GlyphsToItems" {
				return true
			}
			arg := core.Unparen(call.Args[2])
			if cn := core.ConstName(root.TypesInfo, arg); cn != "" {
				values[cn] = true
				return true
			}
			if id, ok := arg.(*ast.Ident); ok {
				o := core.ObjOf(root.TypesInfo, id)
				ast.Inspect(cfd.Body, func(k ast.Node) bool {
					if as, ok := k.(*ast.AssignStmt); ok && len(as.Lhs) == len(as.Rhs) {
						for i, l := range as.Lhs {
							if lid, ok := l.(*ast.Ident); ok && core.ObjOf(root.TypesInfo, lid) == o {
								if cn := core.ConstName(root.TypesInfo, as.Rhs[i]); cn != "" {
									values[cn] = true
								}
							}
						}
					}
					return true
				})
			}
			return true
		})
	}
	if len(values) == 0 {
		panic(core.Infra("E11.items-cover-glyphs: no call of GlyphsToItems with constant alignments found in package canvas"))
	}
	// the loop over glyphs: a for statement whose body starts with `g := glyphs[i]`
	var loop *ast.ForStmt
	for _, st := range fd.Body.List {
		if fs, ok := st.(*ast.ForStmt); ok && len(fs.Body.List) > 0 {
			// the loop whose body starts with `g := glyphs[i]`
			if as, ok := fs.Body.List[0].(*ast.AssignStmt); ok && as.Tok == token.DEFINE && len(as.Rhs) == 1 {
				if ie, ok := core.Unparen(as.Rhs[0]).(*ast.IndexExpr); ok {
					if t := tinfo.TypeOf(ie.X); t != nil {
						if sl, ok := t.Underlying().(*types.Slice); ok && isNamed(sl.Elem(), "canvas/text", "Glyph") {
							loop = fs
						}
					}
				}
			}
		}
	}
	if loop == nil {
		panic(core.Infra("E11.items-cover-glyphs: glyph loop not found"))
	}
	isSizeInc := func(st ast.Stmt) bool {
		switch x := st.(type) {
		case *ast.IncDecStmt:
			if sel, ok := x.X.(*ast.SelectorExpr); ok && sel.Sel.Name == "Size" && x.Tok == token.INC {
				return true
			}
		case *ast.AssignStmt:
			if x.Tok == token.ADD_ASSIGN && len(x.Lhs) == 1 {
				if sel, ok := x.Lhs[0].(*ast.SelectorExpr); ok && sel.Sel.Name == "Size" {
					if v, ok := core.ConstInt(tinfo, x.Rhs[0]); ok && v == 1 {
						return true
					}
				}
			}
		}
		return false
	}
	var vals []string
	for v := range values {
		vals = append(vals, v)
	}
	sort.Strings(vals)
	for _, av := range vals {
		condVal := func(e ast.Expr) int {
			var ev func(e ast.Expr) int
			ev = func(e ast.Expr) int {
				e = core.Unparen(e)
				be, ok := e.(*ast.BinaryExpr)
				if !ok {
					return -1
				}
				switch be.Op {
				case token.LOR:
					a, b := ev(be.X), ev(be.Y)
					if a == 1 || b == 1 {
						return 1
					}
					if a == 0 && b == 0 {
						return 0
					}
				case token.LAND:
					a, b := ev(be.X), ev(be.Y)
					if a == 0 || b == 0 {
						return 0
					}
					if a == 1 && b == 1 {
						return 1
					}
				case token.EQL, token.NEQ:
					if id, ok := core.Unparen(be.X).(*ast.Ident); ok && core.ObjOf(tinfo, id) == alignObj {
						if cn := core.ConstName(tinfo, be.Y); cn != "" {
							if (cn == av) == (be.Op == token.EQL) {
								return 1
							}
							return 0
						}
					}
				}
				return -1
			}
			return ev(e)
		}
		// min/max number of Size increments over the paths of one iteration
		var count func(list []ast.Stmt) (int, int, bool)
		count = func(list []ast.Stmt) (int, int, bool) {
			lo, hi := 0, 0
			for _, s := range list {
				if isSizeInc(s) {
					lo++
					hi++
					continue
				}
				switch x := s.(type) {
				case *ast.BranchStmt:
					return lo, hi, true
				case *ast.ReturnStmt:
					return lo, hi, true
				case *ast.BlockStmt:
					a, b, lv := count(x.List)
					lo, hi = lo+a, hi+b
					if lv {
						return lo, hi, true
					}
				case *ast.IfStmt:
					v := condVal(x.Cond)
					a1, b1, l1 := count(x.Body.List)
					a2, b2, l2 := 0, 0, false
					switch e := x.Else.(type) {
					case *ast.BlockStmt:
						a2, b2, l2 = count(e.List)
					case *ast.IfStmt:
						a2, b2, l2 = count([]ast.Stmt{e})
					}
					switch v {
					case 1:
						lo, hi = lo+a1, hi+b1
						if l1 {
							return lo, hi, true
						}
					case 0:
						lo, hi = lo+a2, hi+b2
						if l2 {
							return lo, hi, true
						}
					default:
						// a path that leaves the iteration early ends here with what it has counted
						if l1 && l2 {
							if a2 < a1 {
								a1 = a2
							}
							if b2 > b1 {
								b1 = b2
							}
							return lo + a1, hi + b1, true
						}
						if l1 {
							// the leaving path is a complete iteration: it must already have its increment
							if lo+a1 < 1 || hi+b1 > 1 {
								return lo + a1, hi + b1, true
							}
							lo, hi = lo+a2, hi+b2
							continue
						}
						if l2 {
							if lo+a2 < 1 || hi+b2 > 1 {
								return lo + a2, hi + b2, true
							}
							lo, hi = lo+a1, hi+b1
							continue
						}
						if a2 < a1 {
							a1 = a2
						}
						if b2 > b1 {
							b1 = b2
						}
						lo, hi = lo+a1, hi+b1
					}
				case *ast.SwitchStmt:
					// cases of other switches: no Size increments expected inside; take min/max over cases
					mn, mx := 0, 0
					for _, cs := range x.Body.List {
						a, b, _ := count(cs.(*ast.CaseClause).Body)
						if b > mx {
							mx = b
						}
						if a < mn {
							mn = a
						}
					}
					lo, hi = lo+mn, hi+mx
				}
			}
			return lo, hi, false
		}
		lo, hi, _ := count(loop.Body.List)
		key := "text.GlyphsToItems|alignment " + av + "|one Size increment per glyph"
		if lo == 1 && hi == 1 {
			r.OK("E11.items-cover-glyphs", key, c.Pos(loop.Pos()), "")
		} else {
			r.Fail("E11.items-cover-glyphs", key, c.Pos(loop.Pos()), fmt.Sprintf("with alignment %s the paths through one iteration of the glyph loop increment an item's Size between %d and %d times: some glyph is owned by no item (or by two), and RichText.ToText maps every later item to the wrong glyphs", av, lo, hi))
		}
	}
	r.Count("E11.alignments-evaluated", len(vals))
	r.Floor("E11.alignments-evaluated", 2)
}

// E11PrecisionUnit: canvas.Precision counts significant digits, not decimals.
func E11PrecisionUnit(c *core.Ctx, r *core.Report) {
	r.Rule("E11.precision-unit", "canvas.Precision is \"the number of significant digits\" of printed numbers. In the module's format calls it may be the `*` of a %.*g verb (significant digits) and the precision argument of minify.Number/Decimal, but not the `*` of a %.*f verb, which counts decimals: text with more significant digits than Precision makes minify.Decimal round with a carry, and its carry into a new integer digit drops a digit (dec(99.9999996) printed \"10.\", so ToPDF/ToPS wrote a coordinate ten times too small)")
	n := 0
	for _, rel := range modulePkgRels {
		p := c.Pkg(rel)
		if p == nil {
			continue
		}
		info := p.TypesInfo
		for _, fd := range core.AllFuncDecls(p) {
			if fd.Body == nil || strings.HasSuffix(c.Fset.Position(fd.Pos()).Filename, "_test.go") {
				continue
			}
			fname := p.Types.Name() + "." + core.FuncName(fd)
			ord := 0
			ast.Inspect(fd.Body, func(m ast.Node) bool {
				call, ok := m.(*ast.CallExpr)
				if !ok {
					return true
				}
				f := core.CalleeOf(info, call)
				if f == nil || f.Pkg() == nil || f.Pkg().Path() != "fmt" {
					return true
				}
				fi := 0
				switch f.Name() {
				case "Sprintf":
					fi = 0
				case "Fprintf":
					fi = 1
				default:
					return true
				}
				if fi >= len(call.Args) {
					return true
				}
				tv, ok := info.Types[call.Args[fi]]
				if !ok || tv.Value == nil {
					return true
				}
				format := constantStringVal(tv.Value)
				// walk the verbs, pairing `*` with arguments
				arg := fi + 1
				for i := 0; i < len(format); i++ {
					if format[i] != '%' {
						continue
					}
					j := i + 1
					star := -1
					for j < len(format) && strings.IndexByte("+-# 0123456789.*", format[j]) >= 0 {
						if format[j] == '*' {
							star = arg
							arg++
						}
						j++
					}
					if j >= len(format) {
						break
					}
					verb := format[j]
					if verb == '%' {
						i = j
						continue
					}
					if star >= 0 && star < len(call.Args) {
						if isPrecisionVar(info, call.Args[star]) {
							n++
							ord++
							key := fmt.Sprintf("%s|Precision as the width of a verb #%d", fname, ord)
							if verb == 'f' || verb == 'F' {
								r.Fail("E11.precision-unit", key, c.Pos(call.Pos()), fmt.Sprintf("`%s` prints Precision *decimals* (%%.*%c): Precision counts significant digits", types.ExprString(call), verb))
							} else {
								r.OK("E11.precision-unit", key, c.Pos(call.Pos()), "%.*"+string(verb))
							}
						}
					}
					arg++
					i = j
				}
				return true
			})
		}
	}
	r.Count("E11.precision-verbs", n)
	r.Floor("E11.precision-verbs", 1)
}

func isPrecisionVar(info *types.Info, e ast.Expr) bool {
	var id *ast.Ident
	switch x := core.Unparen(e).(type) {
	case *ast.Ident:
		id = x
	case *ast.SelectorExpr:
		id = x.Sel
	}
	if id == nil {
		return false
	}
	o := core.ObjOf(info, id)
	return o != nil && o.Name() == "Precision" && o.Pkg() != nil && o.Pkg().Path() == core.Module && o.Parent() == o.Pkg().Scope()
}

// E11StateSliceReuse: the SVG importer does not refill a slice of the drawing state in place.
func E11StateSliceReuse(c *core.Ctx, r *core.Report) {
	r.Rule("E11.state-slice-reuse", "svg.go: the drawing state (Context.Style, saved by value on Push for every nested element) shares the backing arrays of its slices with the saved copies. No statement resets a slice-typed field with the capacity-keeping `F = F[:0]` (or builds on `F[:0]`): the values appended afterwards overwrite what the saved parent state still refers to, so after the element is closed the group's dash pattern has the child's values. Every assignment to a slice field in the file is examined")
	p := c.MustPkg("")
	info := p.TypesInfo
	n := 0
	for _, fd := range core.AllFuncDecls(p) {
		if fd.Body == nil || !strings.HasSuffix(c.Fset.Position(fd.Pos()).Filename, "/svg.go") {
			continue
		}
		fname := "canvas." + core.FuncName(fd)
		ord := 0
		ast.Inspect(fd.Body, func(m ast.Node) bool {
			as, ok := m.(*ast.AssignStmt)
			if !ok {
				return true
			}
			for i, l := range as.Lhs {
				sel, ok := core.Unparen(l).(*ast.SelectorExpr)
				if !ok || i >= len(as.Rhs) {
					continue
				}
				s := info.Selections[sel]
				if s == nil || s.Kind() != types.FieldVal {
					continue
				}
				if _, isSlice := s.Obj().Type().Underlying().(*types.Slice); !isSlice {
					continue
				}
				n++
				ord++
				key := fmt.Sprintf("%s|slice field %s assignment #%d", fname, sel.Sel.Name, ord)
				lhs := types.ExprString(sel)
				bad := false
				ast.Inspect(as.Rhs[i], func(k ast.Node) bool {
					if se, ok := k.(*ast.SliceExpr); ok && !se.Slice3 && types.ExprString(se.X) == lhs {
						if hv, ok := core.ConstInt(info, se.High); ok && hv == 0 {
							bad = true
						}
					}
					return true
				})
				if bad {
					r.Fail("E11.state-slice-reuse", key, c.Pos(as.Pos()), fmt.Sprintf("`%s` keeps the backing array of `%s`, which the states saved by Push still refer to: what is appended next overwrites the parent element's values", c.Src(as), lhs))
				} else {
					r.OK("E11.state-slice-reuse", key, c.Pos(as.Pos()), "")
				}
			}
			return true
		})
	}
	r.Count("E11.slice-field-assignments", n)
	r.Floor("E11.slice-field-assignments", 3)
}

// E11ReflectCurrentImage: the upright compensation of an image reflects about the image that is drawn.
func E11ReflectCurrentImage(c *core.Ctx, r *core.Report) {
	r.Rule("E11.reflect-image", "Context.DrawImage and Context.FitImage keep an image upright in flipped coordinate systems by reflecting about half the height/width of the image they hand to RenderImage. The argument of ReflectYAbout/ReflectXAbout is computed from that image variable as it is at the call: either it calls Bounds() on it directly, or every local it uses was computed from the image after the image variable's last assignment (FitImage's Cover strategy replaces the image by a cropped sub-image; a size taken before the crop shifts the image by the cropped amount)")
	p := c.MustPkg("")
	info := p.TypesInfo
	n := 0
	for _, fname := range []string{"Context.DrawImage", "Context.FitImage"} {
		fd := core.MustFuncDecl(p, fname)
		r.Func("canvas." + fname)
		// the image variable: first argument of RenderImage
		var img types.Object
		ast.Inspect(fd.Body, func(m ast.Node) bool {
			if call, ok := m.(*ast.CallExpr); ok && len(call.Args) == 2 {
				if se, ok := call.Fun.(*ast.SelectorExpr); ok && se.Sel.Name == "RenderImage" {
					if id, ok := core.Unparen(call.Args[0]).(*ast.Ident); ok {
						img = core.ObjOf(info, id)
					}
				}
			}
			return true
		})
		if img == nil {
			r.Fail("E11.reflect-image", "canvas."+fname+"|image variable", c.Pos(fd.Pos()), "the call of RenderImage was not found")
			continue
		}
		// positions of assignments to img
		var imgAssigns []token.Pos
		ast.Inspect(fd.Body, func(m ast.Node) bool {
			if as, ok := m.(*ast.AssignStmt); ok {
				for _, l := range as.Lhs {
					if id, ok := l.(*ast.Ident); ok && core.ObjOf(info, id) == img {
						imgAssigns = append(imgAssigns, as.Pos())
					}
				}
			}
			return true
		})
		ord := 0
		ast.Inspect(fd.Body, func(m ast.Node) bool {
			call, ok := m.(*ast.CallExpr)
			if !ok || len(call.Args) != 1 {
				return true
			}
			se, ok := call.Fun.(*ast.SelectorExpr)
			if !ok || (se.Sel.Name != "ReflectYAbout" && se.Sel.Name != "ReflectXAbout") {
				return true
			}
			n++
			ord++
			key := fmt.Sprintf("canvas.%s|%s #%d reflects about the image that is drawn", fname, se.Sel.Name, ord)
			bad := ""
			ast.Inspect(call.Args[0], func(k ast.Node) bool {
				id, ok := k.(*ast.Ident)
				if !ok {
					return true
				}
				o := core.ObjOf(info, id)
				if o == nil || o == img {
					return true
				}
				v, isVar := o.(*types.Var)
				if !isVar || v.IsField() || v.Parent() == p.Types.Scope() || v.Parent() == types.Universe {
					return true
				}
				// last definition of the local before the call
				var def *ast.AssignStmt
				ast.Inspect(fd.Body, func(q ast.Node) bool {
					if as, ok := q.(*ast.AssignStmt); ok && as.Pos() < call.Pos() {
						for _, l := range as.Lhs {
							if lid, ok := l.(*ast.Ident); ok && core.ObjOf(info, lid) == o {
								def = as
							}
						}
					}
					return true
				})
				if def == nil {
					return true
				}
				for _, ap := range imgAssigns {
					if def.Pos() < ap && ap < call.Pos() && bad == "" {
						bad = fmt.Sprintf("`%s` was computed at %s, before the image variable is replaced at %s", id.Name, c.Pos(def.Pos()), c.Pos(ap))
					}
				}
				return true
			})
			if bad == "" {
				r.OK("E11.reflect-image", key, c.Pos(call.Pos()), types.ExprString(call.Args[0]))
			} else {
				r.Fail("E11.reflect-image", key, c.Pos(call.Pos()), bad+": the reflection is about the centre of the uncropped image")
			}
			return true
		})
	}
	r.Count("E11.image-reflections", n)
	r.Floor("E11.image-reflections", 4)
}

// E11HyphenGuard: a hyphen is drawn at a break only where the broken glyph is a soft hyphen.
func E11HyphenGuard(c *core.Ctx, r *core.Report) {
	r.Rule("E11.hyphen-guard", "text.GlyphsToItems turns both U+00AD (soft hyphen: break with a hyphen) and U+200B (zero width space: break without) into the same kind of item — a flagged penalty that owns one glyph — and tells them apart only by the penalty's width (the hyphen's advance, computed under `Text == U+00AD` only). Every place that materialises a hyphen at a chosen break (stores the rune '-' in a glyph's Text, or appends a Glyph literal with Text '-') is therefore guarded by a condition that separates the two: a comparison of a glyph's Text with U+00AD, or a test that the item's Width is non-zero. A guard on Flagged/Size alone draws a hyphen at zero width spaces and makes the line wider than the breaker accounted for")
	tp := c.MustPkg("text")
	// producer: the branch that handles both runes
	prod := core.MustFuncDecl(tp, "GlyphsToItems")
	r.Func("text.GlyphsToItems")
	joint := false
	ast.Inspect(prod.Body, func(m ast.Node) bool {
		is, ok := m.(*ast.IfStmt)
		if !ok {
			return true
		}
		has := map[int64]bool{}
		ast.Inspect(is.Cond, func(k ast.Node) bool {
			if be, ok := k.(*ast.BinaryExpr); ok && be.Op == token.EQL {
				for _, e := range []ast.Expr{be.X, be.Y} {
					if v, ok := core.ConstInt(tp.TypesInfo, e); ok {
						has[v] = true
					}
				}
			}
			return true
		})
		if has[0xAD] && has[0x200B] {
			joint = true
		}
		return true
	})
	if !joint {
		r.OK("E11.hyphen-guard", "text.GlyphsToItems|soft hyphen and zero width space share a branch", c.Pos(prod.Pos()), "the producer no longer treats the two runes in one branch; the consumers are not constrained by this rule")
		return
	}
	r.OK("E11.hyphen-guard", "text.GlyphsToItems|soft hyphen and zero width space share a branch", c.Pos(prod.Pos()), "")
	n := 0
	for _, rel := range []string{"", "text"} {
		p := c.MustPkg(rel)
		info := p.TypesInfo
		pkgName := "canvas"
		if rel != "" {
			pkgName = rel
		}
		isHyphen := func(e ast.Expr) bool {
			v, ok := core.ConstInt(info, e)
			if !ok || v != '-' {
				return false
			}
			tv, ok := info.Types[e]
			return ok && tv.Type != nil && (tv.Type.String() == "rune" || tv.Type.String() == "int32" || tv.Type.String() == "untyped rune")
		}
		isGlyphText := func(sel *ast.SelectorExpr) bool {
			if sel.Sel.Name != "Text" {
				return false
			}
			s := info.Selections[sel]
			if s == nil || s.Kind() != types.FieldVal {
				return false
			}
			t := s.Recv()
			if pt, ok := t.(*types.Pointer); ok {
				t = pt.Elem()
			}
			nt, ok := t.(*types.Named)
			return ok && nt.Obj().Name() == "Glyph"
		}
		var separates func(e ast.Expr, depth int) bool
		separates = func(e ast.Expr, depth int) bool {
			found := false
			ast.Inspect(e, func(k ast.Node) bool {
				switch x := k.(type) {
				case *ast.BinaryExpr:
					switch x.Op {
					case token.EQL:
						for _, s := range []ast.Expr{x.X, x.Y} {
							if v, ok := core.ConstInt(info, s); ok && v == 0xAD {
								found = true
							}
						}
					case token.NEQ, token.LSS, token.GTR:
						// Width != 0, 0 < Width, Width > 0
						for i, s := range []ast.Expr{x.X, x.Y} {
							o := []ast.Expr{x.Y, x.X}[i]
							se, ok := core.Unparen(s).(*ast.SelectorExpr)
							if !ok || se.Sel.Name != "Width" {
								continue
							}
							tv := info.Types[se.X]
							if tv.Type == nil || !strings.HasSuffix(strings.TrimPrefix(tv.Type.String(), "*"), "text.Item") {
								continue
							}
							if f, ok := constantFloat(core.ConstVal(info, o)); ok && f == 0 {
								if x.Op == token.NEQ || (x.Op == token.LSS && i == 1) || (x.Op == token.GTR && i == 0) {
									found = true
								}
							}
						}
					}
				case *ast.CallExpr:
					if depth < 1 {
						if fn := core.CalleeOf(info, x); fn != nil && fn.Pkg() != nil {
							for _, q := range c.Pkgs {
								if q.Types == fn.Pkg() {
									if cd := core.FuncDecl(q, fn.Name()); cd != nil && cd.Body != nil {
										ast.Inspect(cd.Body, func(z ast.Node) bool {
											if be, ok := z.(*ast.BinaryExpr); ok && be.Op == token.EQL {
												for _, s := range []ast.Expr{be.X, be.Y} {
													if v, ok := core.ConstInt(q.TypesInfo, s); ok && v == 0xAD {
														found = true
													}
												}
											}
											return true
										})
									}
								}
							}
						}
					}
				}
				return true
			})
			return found
		}
		for _, fd := range core.AllFuncDecls(p) {
			if fd.Body == nil || strings.HasSuffix(c.Fset.Position(fd.Pos()).Filename, "_test.go") {
				continue
			}
			fname := pkgName + "." + core.FuncName(fd)
			ord := 0
			var stack []ast.Node
			ast.Inspect(fd.Body, func(m ast.Node) bool {
				if m == nil {
					stack = stack[:len(stack)-1]
					return true
				}
				stack = append(stack, m)
				site := false
				switch x := m.(type) {
				case *ast.AssignStmt:
					for i, l := range x.Lhs {
						if se, ok := core.Unparen(l).(*ast.SelectorExpr); ok && i < len(x.Rhs) && isGlyphText(se) && isHyphen(x.Rhs[i]) {
							site = true
						}
					}
				case *ast.CompositeLit:
					if tv := info.Types[x]; tv.Type != nil {
						if nt, ok := tv.Type.(*types.Named); ok && nt.Obj().Name() == "Glyph" {
							for _, el := range x.Elts {
								if kv, ok := el.(*ast.KeyValueExpr); ok {
									if id, ok := kv.Key.(*ast.Ident); ok && id.Name == "Text" && isHyphen(kv.Value) {
										site = true
									}
								}
							}
						}
					}
				}
				if !site {
					return true
				}
				n++
				ord++
				key := fmt.Sprintf("%s|hyphen materialised at a break #%d is guarded by soft-hyphen-ness", fname, ord)
				ok := false
				for i := len(stack) - 2; i >= 0; i-- {
					is, isIf := stack[i].(*ast.IfStmt)
					if !isIf || stack[i+1] != ast.Node(is.Body) {
						continue
					}
					if separates(is.Cond, 0) {
						ok = true
					}
				}
				if ok {
					r.OK("E11.hyphen-guard", key, c.Pos(m.Pos()), "")
				} else {
					r.Fail("E11.hyphen-guard", key, c.Pos(m.Pos()), "a hyphen glyph is materialised here under a guard that does not separate U+00AD from U+200B (neither a comparison with U+00AD nor a non-zero test of the penalty's Width): a break at a zero width space is drawn with a hyphen the breaker did not account for")
				}
				return true
			})
		}
	}
	r.Count("E11.hyphen-sites", n)
	r.Floor("E11.hyphen-sites", 2)
}

// E11RotationMerge: Decompose merges its two rotations only when the scaling between them commutes with a rotation.
func E11RotationMerge(c *core.Ctx, r *core.Report) {
	r.Rule("E11.rotation-merge", "Matrix.Decompose returns (tx, ty, φ, sx, sy, θ) for Translate·Rotate(φ)·Scale(sx,sy)·Rotate(θ). A branch that folds one rotation into the other (adds one returned angle to the other and zeroes it) is sound only if Scale(sx,sy) commutes with rotations, i.e. sx = sy including the sign. Its guard must imply that: both scales compared (Equal or ==) with the same constant, compared with each other, or — for scales defined as A+B and A−B — B compared with zero. A guard on |sx| = |sy| (IsSimilarity, IsRigid) also admits reflections, for which the merged decomposition denotes a different matrix, and ToSVG then prints a transform list that is not the matrix")
	p := c.MustPkg("")
	info := p.TypesInfo
	fd := core.MustFuncDecl(p, "Matrix.Decompose")
	r.Func("canvas.Matrix.Decompose")
	// results by position
	var ret *ast.ReturnStmt
	ast.Inspect(fd.Body, func(m ast.Node) bool {
		if rs, ok := m.(*ast.ReturnStmt); ok && len(rs.Results) == 6 {
			ret = rs
		}
		return true
	})
	if ret == nil {
		r.Fail("E11.rotation-merge", "canvas.Matrix.Decompose|six results", c.Pos(fd.Pos()), "no return statement with six results")
		return
	}
	objOf := func(e ast.Expr) types.Object {
		if id, ok := core.Unparen(e).(*ast.Ident); ok {
			return core.ObjOf(info, id)
		}
		return nil
	}
	rotA, sx, sy, rotB := objOf(ret.Results[2]), objOf(ret.Results[3]), objOf(ret.Results[4]), objOf(ret.Results[5])
	if rotA == nil || rotB == nil || sx == nil || sy == nil {
		r.OK("E11.rotation-merge", "canvas.Matrix.Decompose|rotations merged only under equal scales", c.Pos(ret.Pos()), "results are not plain variables; no merging branch can be identified")
		return
	}
	// sx, sy := A+B, A-B ?
	var diffHalf string
	ast.Inspect(fd.Body, func(m ast.Node) bool {
		as, ok := m.(*ast.AssignStmt)
		if !ok || len(as.Lhs) != 2 || len(as.Rhs) != 2 || objOf(as.Lhs[0]) != sx || objOf(as.Lhs[1]) != sy {
			return true
		}
		a, ok1 := core.Unparen(as.Rhs[0]).(*ast.BinaryExpr)
		b, ok2 := core.Unparen(as.Rhs[1]).(*ast.BinaryExpr)
		if ok1 && ok2 && a.Op == token.ADD && b.Op == token.SUB && types.ExprString(a.X) == types.ExprString(b.X) && types.ExprString(a.Y) == types.ExprString(b.Y) {
			diffHalf = types.ExprString(a.Y)
		}
		return true
	})
	impliesEqual := func(cond ast.Expr) bool {
		// conjuncts
		var conj []ast.Expr
		var split func(e ast.Expr)
		split = func(e ast.Expr) {
			e = core.Unparen(e)
			if be, ok := e.(*ast.BinaryExpr); ok && be.Op == token.LAND {
				split(be.X)
				split(be.Y)
				return
			}
			conj = append(conj, e)
		}
		split(cond)
		eqConst := map[types.Object]string{}
		for _, e := range conj {
			var x, y ast.Expr
			if call, ok := e.(*ast.CallExpr); ok && len(call.Args) == 2 {
				if f := core.CalleeOf(info, call); f != nil && f.Name() == "Equal" {
					x, y = call.Args[0], call.Args[1]
				}
			} else if be, ok := e.(*ast.BinaryExpr); ok && be.Op == token.EQL {
				x, y = be.X, be.Y
			}
			if x == nil {
				continue
			}
			ox, oy := objOf(x), objOf(y)
			if (ox == sx && oy == sy) || (ox == sy && oy == sx) {
				return true
			}
			if diffHalf != "" {
				for i, s := range []ast.Expr{x, y} {
					o := []ast.Expr{y, x}[i]
					if types.ExprString(core.Unparen(s)) == diffHalf {
						if f, ok := constantFloat(core.ConstVal(info, o)); ok && f == 0 {
							return true
						}
					}
				}
			}
			for i, o := range []types.Object{ox, oy} {
				other := []ast.Expr{y, x}[i]
				if (o == sx || o == sy) && core.ConstVal(info, other) != nil {
					eqConst[o] = core.ConstVal(info, other).ExactString()
				}
			}
		}
		a, okA := eqConst[sx]
		b, okB := eqConst[sy]
		return okA && okB && a == b
	}
	n := 0
	ast.Inspect(fd.Body, func(m ast.Node) bool {
		is, ok := m.(*ast.IfStmt)
		if !ok {
			return true
		}
		// merging branch: one rotation is assigned 0 and the other is += it
		zeroed, added := false, false
		for _, st := range is.Body.List {
			as, ok := st.(*ast.AssignStmt)
			if !ok || len(as.Lhs) != 1 || len(as.Rhs) != 1 {
				continue
			}
			l := objOf(as.Lhs[0])
			if l != rotA && l != rotB {
				continue
			}
			if as.Tok == token.ASSIGN {
				if f, ok := constantFloat(core.ConstVal(info, as.Rhs[0])); ok && f == 0 {
					zeroed = true
				}
			}
			if as.Tok == token.ADD_ASSIGN {
				if o := objOf(as.Rhs[0]); (o == rotA || o == rotB) && o != l {
					added = true
				}
			}
		}
		if !zeroed || !added {
			return true
		}
		n++
		key := fmt.Sprintf("canvas.Matrix.Decompose|rotation-merging branch #%d is taken only when the two scales are equal", n)
		if impliesEqual(is.Cond) {
			r.OK("E11.rotation-merge", key, c.Pos(is.Pos()), "")
		} else {
			r.Fail("E11.rotation-merge", key, c.Pos(is.Pos()), "the guard `"+c.Src(is.Cond)+"` does not imply that the two returned scales are equal including their sign: for a reflection (sy = −sx) the scaling does not commute with the rotation and the merged result (φ+θ, sx, sy, 0) is a different matrix")
		}
		return true
	})
	r.Count("E11.rotation-merge-branches", n)
	r.Floor("E11.rotation-merge-branches", 1)
}

// E11OmittedTerm: a term of Matrix.ToSVG's transform list is omitted only when what would be printed is the identity.
func E11OmittedTerm(c *core.Ctx, r *core.Report) {
	r.Rule("E11.omitted-term", "Matrix.ToSVG(h) writes a transform list term by term and leaves a term out when it is the identity. The guard that decides whether a term is written depends on every parameter of ToSVG that the written values depend on: `translate(tx, h−ty)` is the identity only if h−ty is zero, so a guard on the matrix's own translation alone drops the `translate(0,h)` of the y-flip for matrices without translation, and the list then denotes a different transformation than the `matrix(…)` form the same function returns for other inputs")
	p := c.MustPkg("")
	info := p.TypesInfo
	fd := core.MustFuncDecl(p, "Matrix.ToSVG")
	r.Func("canvas.Matrix.ToSVG")
	params := map[types.Object]bool{}
	for _, f := range fd.Type.Params.List {
		for _, nm := range f.Names {
			if o := info.Defs[nm]; o != nil {
				params[o] = true
			}
		}
	}
	mentions := func(e ast.Node) map[types.Object]bool {
		out := map[types.Object]bool{}
		ast.Inspect(e, func(k ast.Node) bool {
			if id, ok := k.(*ast.Ident); ok {
				if o := core.ObjOf(info, id); o != nil && params[o] {
					out[o] = true
				}
			}
			return true
		})
		return out
	}
	n := 0
	ast.Inspect(fd.Body, func(m ast.Node) bool {
		is, ok := m.(*ast.IfStmt)
		if !ok || is.Else != nil || len(is.Body.List) != 1 {
			return true
		}
		es, ok := is.Body.List[0].(*ast.ExprStmt)
		if !ok {
			return true
		}
		call, ok := es.X.(*ast.CallExpr)
		if !ok || !core.IsPkgFunc(info, call, "fmt", "Fprintf") || len(call.Args) < 3 {
			return true
		}
		format := ""
		if v := core.ConstVal(info, call.Args[1]); v != nil && v.Kind() == constant.String {
			format = constant.StringVal(v)
		}
		term := strings.TrimSpace(strings.SplitN(format, "(", 2)[0])
		n++
		key := fmt.Sprintf("canvas.Matrix.ToSVG|term %s is omitted only when the written values are the identity", term)
		need := map[types.Object]bool{}
		for _, a := range call.Args[2:] {
			for o := range mentions(a) {
				need[o] = true
			}
		}
		have := mentions(is.Cond)
		missing := ""
		for o := range need {
			if !have[o] {
				missing = o.Name()
			}
		}
		if missing != "" {
			r.Fail("E11.omitted-term", key, c.Pos(is.Pos()), fmt.Sprintf("the term `%s` is written from the parameter `%s`, but the guard `%s` that decides whether it is written does not depend on `%s`: for a matrix without translation the flip offset translate(0,%s) is dropped", term, missing, c.Src(is.Cond), missing, missing))
		} else {
			r.OK("E11.omitted-term", key, c.Pos(is.Pos()), "")
		}
		return true
	})
	r.Count("E11.tosvg-terms", n)
	r.Floor("E11.tosvg-terms", 4)
}

// E11StaleAfterBreak: a value computed for a candidate element is not used after the loop when the loop can drop the candidate.
func E11StaleAfterBreak(c *core.Ctx, r *core.Report) {
	r.Rule("E11.stale-after-break", "text.go: a loop that builds a candidate element, may `break` before committing it (`S = append(S, candidate)`) and computes per-candidate values before that break must not leave those values in variables that are read after the loop: after the break they describe the dropped candidate, not the last committed element. RichText.ToText measures a line, drops it if it does not fit the box height and afterwards removes the last line's gap — that must be the last kept line's (read from t.lines), or Bottom/Center/Justify alignment is off by the difference between the dropped and the last kept line. Every loop of the file with a break between an assignment and a commit is examined")
	p := c.MustPkg("")
	info := p.TypesInfo
	n := 0
	for _, fd := range core.AllFuncDecls(p) {
		if fd.Body == nil || !strings.HasSuffix(c.Fset.Position(fd.Pos()).Filename, "/text.go") {
			continue
		}
		fname := "canvas." + core.FuncName(fd)
		ord := 0
		ast.Inspect(fd.Body, func(m ast.Node) bool {
			var body *ast.BlockStmt
			switch x := m.(type) {
			case *ast.ForStmt:
				body = x.Body
			case *ast.RangeStmt:
				body = x.Body
			default:
				return true
			}
			loop := m
			outside := func(o types.Object) bool {
				if o == nil || o.Pos() >= loop.Pos() && o.Pos() < loop.End() {
					return false
				}
				v, ok := o.(*types.Var)
				return ok && !v.IsField() && v.Parent() != p.Types.Scope()
			}
			// breaks that leave this loop
			var breaks []token.Pos
			var walk func(n ast.Node, inner bool)
			walk = func(n ast.Node, inner bool) {
				ast.Inspect(n, func(k ast.Node) bool {
					switch y := k.(type) {
					case *ast.FuncLit:
						return false
					case *ast.ForStmt, *ast.RangeStmt, *ast.SwitchStmt, *ast.TypeSwitchStmt, *ast.SelectStmt:
						if k != n {
							return false // an unlabelled break in there leaves that statement
						}
					case *ast.BranchStmt:
						if y.Tok == token.BREAK && y.Label == nil {
							breaks = append(breaks, y.Pos())
						}
					}
					return true
				})
			}
			walk(body, false)
			if len(breaks) == 0 {
				return true
			}
			// commits
			var commits []token.Pos
			ast.Inspect(body, func(k ast.Node) bool {
				as, ok := k.(*ast.AssignStmt)
				if !ok || len(as.Lhs) != 1 || len(as.Rhs) != 1 {
					return true
				}
				call, ok := core.Unparen(as.Rhs[0]).(*ast.CallExpr)
				if !ok {
					return true
				}
				if f, ok := call.Fun.(*ast.Ident); !ok || f.Name != "append" || len(call.Args) < 2 {
					return true
				}
				if types.ExprString(as.Lhs[0]) != types.ExprString(call.Args[0]) {
					return true
				}
				if id := core.RootIdent(as.Lhs[0]); id != nil {
					if o := core.ObjOf(info, id); o != nil && (o.Pos() < loop.Pos() || o.Pos() >= loop.End()) {
						commits = append(commits, as.Pos())
					}
				}
				return true
			})
			if len(commits) == 0 {
				return true
			}
			lastCommit := commits[len(commits)-1]
			// a break before the (last) commit
			var brk token.Pos
			for _, b := range breaks {
				if b < lastCommit && (brk == token.NoPos || b > brk) {
					brk = b
				}
			}
			if brk == token.NoPos {
				return true
			}
			n++
			ord++
			key := fmt.Sprintf("%s|loop #%d that can drop its candidate: no per-candidate value is read after the loop", fname, ord)
			// variables assigned before that break
			cand := map[types.Object]token.Pos{}
			ast.Inspect(body, func(k ast.Node) bool {
				if _, isLit := k.(*ast.FuncLit); isLit {
					return false
				}
				as, ok := k.(*ast.AssignStmt)
				if !ok || as.Pos() > brk {
					return true
				}
				for _, l := range as.Lhs {
					if id, ok := l.(*ast.Ident); ok {
						if o := core.ObjOf(info, id); outside(o) {
							cand[o] = as.Pos()
						}
					}
				}
				return true
			})
			bad := ""
			var badPos, badAssign token.Pos
			ast.Inspect(fd.Body, func(k ast.Node) bool {
				id, ok := k.(*ast.Ident)
				if !ok || id.Pos() < loop.End() {
					return true
				}
				o := core.ObjOf(info, id)
				if _, isCand := cand[o]; !isCand || bad != "" {
					return true
				}
				// a plain re-definition after the loop is not a read
				isDef := false
				ast.Inspect(fd.Body, func(q ast.Node) bool {
					if as, ok := q.(*ast.AssignStmt); ok && as.Tok == token.ASSIGN {
						for _, l := range as.Lhs {
							if l == ast.Expr(id) {
								isDef = true
							}
						}
					}
					return true
				})
				if isDef {
					delete(cand, o) // redefined before any read
					return true
				}
				bad, badPos, badAssign = id.Name, id.Pos(), cand[o]
				return true
			})
			if bad != "" {
				r.Fail("E11.stale-after-break", key, c.Pos(badPos), fmt.Sprintf("`%s` is assigned in the loop at %s before the `break` at %s that drops the candidate, and is read here after the loop: when the loop ended through that break it describes the dropped element, not the last one committed at %s", bad, c.Pos(badAssign), c.Pos(brk), c.Pos(lastCommit)))
			} else {
				r.OK("E11.stale-after-break", key, c.Pos(loop.Pos()), "")
			}
			return true
		})
	}
	r.Count("E11.droppable-candidate-loops", n)
	r.Floor("E11.droppable-candidate-loops", 1)
}

// E11StrokeToleranceView: a stroke that is computed before the view is applied uses a tolerance that accounts for the view.
func E11StrokeToleranceView(c *core.Ctx, r *core.Report) {
	r.Rule("E11.stroke-tolerance-view", "rasterizer.RenderPath: the rasterizer promises a deviation of a fraction of a pixel. Where the outline of a stroke is computed (Path.Stroke with a tolerance) and the result is transformed by the view matrix afterwards, the deviation is multiplied by the view's scale, so the tolerance handed to Stroke must depend on that matrix (its definition, through local assignments, mentions the matrix parameter). A tolerance of PixelTolerance/DPMM alone puts the outline of a curve stroked under Scale(80,80) up to 10 pixels off")
	p := c.MustPkg("renderers/rasterizer")
	info := p.TypesInfo
	fd := core.MustFuncDecl(p, "Rasterizer.RenderPath")
	r.Func("rasterizer.Rasterizer.RenderPath")
	// the matrix parameter: the one of type canvas.Matrix
	var mObj types.Object
	for _, f := range fd.Type.Params.List {
		for _, nm := range f.Names {
			if o := info.Defs[nm]; o != nil && strings.HasSuffix(o.Type().String(), "canvas.Matrix") {
				mObj = o
			}
		}
	}
	if mObj == nil {
		r.Fail("E11.stroke-tolerance-view", "rasterizer.Rasterizer.RenderPath|matrix parameter", c.Pos(fd.Pos()), "no parameter of type canvas.Matrix")
		return
	}
	// depends(e): e mentions mObj directly or through locals' assignments (transitively)
	var depends func(e ast.Node, seen map[types.Object]bool) bool
	depends = func(e ast.Node, seen map[types.Object]bool) bool {
		found := false
		ast.Inspect(e, func(k ast.Node) bool {
			id, ok := k.(*ast.Ident)
			if !ok || found {
				return true
			}
			o := core.ObjOf(info, id)
			if o == mObj {
				found = true
				return true
			}
			if v, ok := o.(*types.Var); ok && !v.IsField() && !seen[o] && o.Pos() > fd.Pos() && o.Pos() < fd.End() {
				seen[o] = true
				ast.Inspect(fd.Body, func(q ast.Node) bool {
					as, ok := q.(*ast.AssignStmt)
					if !ok {
						return true
					}
					for i, l := range as.Lhs {
						if lid, ok := l.(*ast.Ident); ok && core.ObjOf(info, lid) == o {
							if len(as.Lhs) == len(as.Rhs) {
								if depends(as.Rhs[i], seen) {
									found = true
								}
							} else if len(as.Rhs) == 1 && depends(as.Rhs[0], seen) {
								found = true
							}
							// a compound assignment under a condition on m also counts through its RHS only
						}
					}
					return true
				})
				// `if init; cond { v op= … }`: values defined in an if-init that mentions m
				ast.Inspect(fd.Body, func(q ast.Node) bool {
					is, ok := q.(*ast.IfStmt)
					if !ok || is.Init == nil {
						return true
					}
					assignsV := false
					ast.Inspect(is.Body, func(z ast.Node) bool {
						if as, ok := z.(*ast.AssignStmt); ok {
							for _, l := range as.Lhs {
								if lid, ok := l.(*ast.Ident); ok && core.ObjOf(info, lid) == o {
									assignsV = true
								}
							}
						}
						return true
					})
					if assignsV {
						ast.Inspect(is.Init, func(z ast.Node) bool {
							if zid, ok := z.(*ast.Ident); ok && core.ObjOf(info, zid) == mObj {
								found = true
							}
							return true
						})
					}
					return true
				})
			}
			return true
		})
		return found
	}
	n := 0
	ast.Inspect(fd.Body, func(m ast.Node) bool {
		call, ok := m.(*ast.CallExpr)
		if !ok {
			return true
		}
		se, ok := call.Fun.(*ast.SelectorExpr)
		if !ok || se.Sel.Name != "Stroke" || len(call.Args) != 4 {
			return true
		}
		// transformed by the matrix afterwards?
		transformedAfter := false
		ast.Inspect(fd.Body, func(k ast.Node) bool {
			c2, ok := k.(*ast.CallExpr)
			if !ok || c2.Pos() < call.End() {
				return true
			}
			if s2, ok := c2.Fun.(*ast.SelectorExpr); ok && s2.Sel.Name == "Transform" && len(c2.Args) == 1 {
				if id, ok := core.Unparen(c2.Args[0]).(*ast.Ident); ok && core.ObjOf(info, id) == mObj {
					transformedAfter = true
				}
			}
			return true
		})
		if !transformedAfter {
			return true
		}
		n++
		key := fmt.Sprintf("rasterizer.Rasterizer.RenderPath|Stroke call #%d followed by Transform(m): the tolerance depends on m", n)
		if depends(call.Args[3], map[types.Object]bool{}) {
			r.OK("E11.stroke-tolerance-view", key, c.Pos(call.Pos()), "")
		} else {
			r.Fail("E11.stroke-tolerance-view", key, c.Pos(call.Pos()), fmt.Sprintf("the stroke outline is computed with tolerance `%s`, which does not depend on the view matrix `%s`, and is transformed by it afterwards: its deviation in pixels grows with the view's scale", c.Src(call.Args[3]), mObj.Name()))
		}
		return true
	})
	r.Count("E11.stroke-then-transform", n)
	r.Floor("E11.stroke-then-transform", 1)
}

// E11GramConsistency: the orthogonality test of IsRigid/IsSimilarity uses the same two vectors as its length tests.
func E11GramConsistency(c *core.Ctx, r *core.Report) {
	r.Rule("E11.gram-consistency", "Matrix.IsRigid and Matrix.IsSimilarity (which every vector back-end asks whether a stroke may be written natively under the view) test a 2×2 linear part through three numbers: the squared lengths of two vectors and their dot product. The three are entries of one Gram matrix: with a = u·u and b = v·v read off as sums of two squares, the third is u·v — the sum of the products of corresponding components of those same u and v (the rows, or the columns, not one of each). Equal row lengths together with orthogonal columns is not a similarity: Rotate(45°)·Scale(3,1) passes that test and the back-ends then write a uniform stroke width where the rasterizer paints an anisotropic outline")
	p := c.MustPkg("")
	info := p.TypesInfo
	n := 0
	for _, fname := range []string{"Matrix.IsRigid", "Matrix.IsSimilarity"} {
		fd := core.MustFuncDecl(p, fname)
		r.Func("canvas." + fname)
		// locals defined as sums of two products
		type prod struct{ x, y string }
		sums := map[types.Object][2]prod{}
		var order []types.Object
		ast.Inspect(fd.Body, func(m ast.Node) bool {
			as, ok := m.(*ast.AssignStmt)
			if !ok || as.Tok != token.DEFINE || len(as.Lhs) != 1 || len(as.Rhs) != 1 {
				return true
			}
			be, ok := core.Unparen(as.Rhs[0]).(*ast.BinaryExpr)
			if !ok || be.Op != token.ADD {
				return true
			}
			var ps [2]prod
			for i, t := range []ast.Expr{be.X, be.Y} {
				m2, ok := core.Unparen(t).(*ast.BinaryExpr)
				if !ok || m2.Op != token.MUL {
					return true
				}
				ps[i] = prod{squash(types.ExprString(m2.X)), squash(types.ExprString(m2.Y))}
			}
			o := info.Defs[as.Lhs[0].(*ast.Ident)]
			sums[o] = ps
			order = append(order, o)
			return true
		})
		n++
		key := "canvas." + fname + "|squared lengths and dot product belong to the same two vectors"
		// find the two squared lengths and the mixed one
		var sq []types.Object
		var mixed []types.Object
		for _, o := range order {
			ps := sums[o]
			if ps[0].x == ps[0].y && ps[1].x == ps[1].y {
				sq = append(sq, o)
			} else {
				mixed = append(mixed, o)
			}
		}
		if len(sq) != 2 || len(mixed) != 1 {
			r.Fail("E11.gram-consistency", key, c.Pos(fd.Pos()), fmt.Sprintf("expected two sums of squares and one sum of mixed products, found %d and %d", len(sq), len(mixed)))
			continue
		}
		u := [2]string{sums[sq[0]][0].x, sums[sq[0]][1].x}
		v := [2]string{sums[sq[1]][0].x, sums[sq[1]][1].x}
		mp := sums[mixed[0]]
		pair := func(a, b string) string {
			if a > b {
				a, b = b, a
			}
			return a + "*" + b
		}
		want := map[string]bool{pair(u[0], v[0]): true, pair(u[1], v[1]): true}
		got := map[string]bool{pair(mp[0].x, mp[0].y): true, pair(mp[1].x, mp[1].y): true}
		same := len(want) == len(got)
		for k := range want {
			if !got[k] {
				same = false
			}
		}
		if same {
			r.OK("E11.gram-consistency", key, c.Pos(fd.Pos()), fmt.Sprintf("u=(%s,%s) v=(%s,%s)", u[0], u[1], v[0], v[1]))
		} else {
			r.Fail("E11.gram-consistency", key, c.Pos(mixed[0].Pos()), fmt.Sprintf("the lengths are those of u=(%s, %s) and v=(%s, %s), but `%s` is %s*%s + %s*%s, which is not u·v: the function tests the lengths of one pair of vectors and the angle of another", u[0], u[1], v[0], v[1], mixed[0].Name(), mp[0].x, mp[0].y, mp[1].x, mp[1].y))
		}
	}
	r.Count("E11.gram-tests", n)
	r.Floor("E11.gram-tests", 2)
}

// E11AdvanceAxis: a glyph's laid-out advance is compared with the font's advance of the same axis.
func E11AdvanceAxis(c *core.Ctx, r *core.Report) {
	r.Rule("E11.advance-axis", "package canvas, text and the PDF writer: where a laid-out glyph advance (field XAdvance or YAdvance of a Glyph) is compared with or subtracted from an advance looked up in the font, the axes agree: XAdvance goes with SFNT.GlyphAdvance (hmtx), YAdvance with SFNT.GlyphVerticalAdvance (vmtx, one em without it). The PDF TJ adjustment is the difference between the two; taking the vertical one against the horizontal font advance over-advances every upright glyph of vertical text by the difference of its two advances, and the PDF text no longer ends where the layout and the path rendering put it")
	n := 0
	for _, rel := range []string{"", "text", "renderers/pdf"} {
		p := c.MustPkg(rel)
		info := p.TypesInfo
		for _, fd := range core.AllFuncDecls(p) {
			if fd.Body == nil || strings.HasSuffix(c.Fset.Position(fd.Pos()).Filename, "_test.go") {
				continue
			}
			fname := p.Types.Name() + "." + core.FuncName(fd)
			callAxis := func(e ast.Node) string {
				ax := ""
				ast.Inspect(e, func(k ast.Node) bool {
					if call, ok := k.(*ast.CallExpr); ok {
						if se, ok := call.Fun.(*ast.SelectorExpr); ok {
							switch se.Sel.Name {
							case "GlyphAdvance":
								if ax == "" || ax == "h" {
									ax = "h"
								} else {
									ax = "mixed"
								}
							case "GlyphVerticalAdvance":
								if ax == "" || ax == "v" {
									ax = "v"
								} else {
									ax = "mixed"
								}
							}
						}
					}
					return true
				})
				return ax
			}
			local := map[types.Object]string{}
			ast.Inspect(fd.Body, func(m ast.Node) bool {
				as, ok := m.(*ast.AssignStmt)
				if !ok || len(as.Lhs) != len(as.Rhs) {
					return true
				}
				for i, l := range as.Lhs {
					if id, ok := l.(*ast.Ident); ok {
						if ax := callAxis(as.Rhs[i]); ax != "" {
							o := core.ObjOf(info, id)
							if old, seen := local[o]; seen && old != ax {
								local[o] = "mixed"
							} else {
								local[o] = ax
							}
						}
					}
				}
				return true
			})
			sideAxis := func(e ast.Expr) string {
				ax := callAxis(e)
				ast.Inspect(e, func(k ast.Node) bool {
					if id, ok := k.(*ast.Ident); ok {
						if a, ok := local[core.ObjOf(info, id)]; ok {
							if ax == "" || ax == a {
								ax = a
							} else {
								ax = "mixed"
							}
						}
					}
					return true
				})
				return ax
			}
			glyphAxis := func(e ast.Expr) string {
				ax := ""
				ast.Inspect(e, func(k ast.Node) bool {
					se, ok := k.(*ast.SelectorExpr)
					if !ok || (se.Sel.Name != "XAdvance" && se.Sel.Name != "YAdvance") {
						return true
					}
					if t := info.TypeOf(se.X); t == nil || !strings.HasSuffix(strings.TrimPrefix(t.String(), "*"), "Glyph") {
						return true
					}
					a := "h"
					if se.Sel.Name == "YAdvance" {
						a = "v"
					}
					if ax == "" || ax == a {
						ax = a
					} else {
						ax = "mixed"
					}
					return true
				})
				return ax
			}
			ord := 0
			ast.Inspect(fd.Body, func(m ast.Node) bool {
				be, ok := m.(*ast.BinaryExpr)
				if !ok {
					return true
				}
				switch be.Op {
				case token.SUB, token.ADD, token.NEQ, token.EQL, token.LSS, token.GTR, token.LEQ, token.GEQ:
				default:
					return true
				}
				for i, s := range []ast.Expr{be.X, be.Y} {
					o := []ast.Expr{be.Y, be.X}[i]
					ga := glyphAxis(s)
					fa := sideAxis(o)
					if ga == "" || ga == "mixed" || fa == "" || fa == "mixed" || glyphAxis(o) != "" {
						continue
					}
					n++
					ord++
					key := fmt.Sprintf("%s|laid-out advance against font advance #%d: same axis", fname, ord)
					if ga == fa {
						r.OK("E11.advance-axis", key, c.Pos(be.Pos()), "")
					} else {
						names := map[string]string{"h": "horizontal (XAdvance / GlyphAdvance)", "v": "vertical (YAdvance / GlyphVerticalAdvance)"}
						r.Fail("E11.advance-axis", key, c.Pos(be.Pos()), fmt.Sprintf("`%s` combines the %s laid-out advance with the %s advance of the font: the adjustment written for upright vertical glyphs is off by the difference between the glyph's two advances", c.Src(be), names[ga], names[fa]))
					}
					return false
				}
				return true
			})
		}
	}
	r.Count("E11.advance-comparisons", n)
	r.Floor("E11.advance-comparisons", 2)
}

// E11DashPairTogether: the canonical dash array does not leave a function without its canonical offset.
func E11DashPairTogether(c *core.Ctx, r *core.Report) {
	r.Rule("E11.dash-pair", "dashCanonical rewrites a dash pattern and its offset together: the canonical array starts at a different phase than the one given (a leading zero-length dash or merged neighbours move the start), and only the pair (offset', d') is equivalent to (offset, d). A function that calls it may use the pair internally, but if it hands the canonical array out (returns it, other than as the empty `d[:0]`) it must hand out the canonical offset with it. checkDash returned d' alone and DrawPath combined it with the original offset: SetDashes(0, 0,2,3,1) was drawn as `3 3` starting at 0 instead of at 2")
	p := c.MustPkg("")
	info := p.TypesInfo
	n := 0
	for _, fd := range core.AllFuncDecls(p) {
		if fd.Body == nil || strings.HasSuffix(c.Fset.Position(fd.Pos()).Filename, "_test.go") || core.FuncName(fd) == "dashCanonical" {
			continue
		}
		var offObj, arrObj types.Object
		ast.Inspect(fd.Body, func(m ast.Node) bool {
			as, ok := m.(*ast.AssignStmt)
			if !ok || len(as.Lhs) != 2 || len(as.Rhs) != 1 {
				return true
			}
			call, ok := as.Rhs[0].(*ast.CallExpr)
			if !ok {
				return true
			}
			if f := core.CalleeOf(info, call); f == nil || f.Name() != "dashCanonical" || f.Pkg() != p.Types {
				return true
			}
			if id, ok := as.Lhs[0].(*ast.Ident); ok {
				offObj = core.ObjOf(info, id)
			}
			if id, ok := as.Lhs[1].(*ast.Ident); ok {
				arrObj = core.ObjOf(info, id)
			}
			return true
		})
		if arrObj == nil {
			continue
		}
		n++
		fname := "canvas." + core.FuncName(fd)
		key := fname + "|canonical dash array leaves the function only together with the canonical offset"
		bad := token.NoPos
		// returns under `if len(arr) == 0` hand out an empty array, which has no phase
		emptyGuard := map[*ast.ReturnStmt]bool{}
		ast.Inspect(fd.Body, func(m ast.Node) bool {
			is, ok := m.(*ast.IfStmt)
			if !ok {
				return true
			}
			be, ok := core.Unparen(is.Cond).(*ast.BinaryExpr)
			if !ok || be.Op != token.EQL {
				return true
			}
			call, ok := core.Unparen(be.X).(*ast.CallExpr)
			if !ok || len(call.Args) != 1 {
				return true
			}
			if f, ok := call.Fun.(*ast.Ident); !ok || f.Name != "len" {
				return true
			}
			if id, ok := core.Unparen(call.Args[0]).(*ast.Ident); !ok || core.ObjOf(info, id) != arrObj {
				return true
			}
			if v, ok := core.ConstInt(info, be.Y); !ok || v != 0 {
				return true
			}
			for _, st := range is.Body.List {
				if rs, ok := st.(*ast.ReturnStmt); ok {
					emptyGuard[rs] = true
				}
			}
			return true
		})
		ast.Inspect(fd.Body, func(m ast.Node) bool {
			rs, ok := m.(*ast.ReturnStmt)
			if !ok || emptyGuard[rs] {
				return true
			}
			returnsArr, returnsOff := false, false
			for _, res := range rs.Results {
				if id, ok := core.Unparen(res).(*ast.Ident); ok {
					if o := core.ObjOf(info, id); o == arrObj {
						returnsArr = true
					} else if o == offObj && offObj != nil {
						returnsOff = true
					}
				}
			}
			if returnsArr && !returnsOff {
				bad = rs.Pos()
			}
			return true
		})
		if bad != token.NoPos {
			r.Fail("E11.dash-pair", key, c.Pos(bad), "the array canonicalised by dashCanonical is returned without the offset that belongs to it: the caller combines it with the original offset and the pattern starts at the wrong phase")
		} else {
			r.OK("E11.dash-pair", key, c.Pos(fd.Pos()), "")
		}
	}
	r.Count("E11.dash-canonical-callers", n)
	r.Floor("E11.dash-canonical-callers", 2)
}

// E11SVGVocabulary: every property the SVG writer emits for a path is understood by the SVG importer.
func E11SVGVocabulary(c *core.Ctx, r *core.Report) {
	r.Rule("E11.svg-vocabulary", "C19 promises that the SVG the library's own SVG back-end writes for a path drawing is read back to an equivalent drawing. The property names the writer can emit for a path — the `name=\"` attributes and `;name:` style declarations in the constant format strings of SVG.RenderPath — are therefore all handled by the importer: each is a case label of svgParser.setAttribute (or one of the structural attributes d/style/transform/id/class handled elsewhere). A property the writer emits and the reader drops (fill-rule was one) changes the drawing on the round trip")
	wp := c.MustPkg("renderers/svg")
	rp := c.MustPkg("")
	wfd := core.MustFuncDecl(wp, "SVG.RenderPath")
	sa := core.MustFuncDecl(rp, "svgParser.setAttribute")
	r.Func("svg.SVG.RenderPath")
	r.Func("canvas.svgParser.setAttribute")
	handled := map[string]bool{"d": true, "style": true, "transform": true, "id": true, "class": true}
	ast.Inspect(sa.Body, func(m ast.Node) bool {
		if cc, ok := m.(*ast.CaseClause); ok {
			for _, e := range cc.List {
				if v := core.ConstVal(rp.TypesInfo, e); v != nil && v.Kind() == constant.String {
					handled[constant.StringVal(v)] = true
				}
			}
		}
		return true
	})
	emitted := map[string]token.Pos{}
	isName := func(s string) bool {
		if s == "" {
			return false
		}
		for _, ch := range s {
			if !(ch >= 'a' && ch <= 'z' || ch == '-') {
				return false
			}
		}
		return true
	}
	ast.Inspect(wfd.Body, func(m ast.Node) bool {
		e, ok := m.(ast.Expr)
		if !ok {
			return true
		}
		v := core.ConstVal(wp.TypesInfo, e)
		if v == nil || v.Kind() != constant.String {
			return true
		}
		s := constant.StringVal(v)
		// ` name="`  and  `;name:`
		for i := 0; i < len(s); i++ {
			if s[i] == ' ' || s[i] == ';' || s[i] == '<' {
				j := i + 1
				for j < len(s) && (s[j] >= 'a' && s[j] <= 'z' || s[j] == '-') {
					j++
				}
				if j < len(s) && j > i+1 {
					name := s[i+1 : j]
					if (s[i] == ' ' && strings.HasPrefix(s[j:], `="`)) || (s[i] == ';' && s[j] == ':') {
						if isName(name) {
							emitted[name] = e.Pos()
						}
					}
				}
			}
		}
		return false
	})
	var names []string
	for nm := range emitted {
		names = append(names, nm)
	}
	sort.Strings(names)
	for _, nm := range names {
		key := "svg.SVG.RenderPath|property " + nm + " is understood by ParseSVG"
		if handled[nm] {
			r.OK("E11.svg-vocabulary", key, c.Pos(emitted[nm]), "")
		} else {
			r.Fail("E11.svg-vocabulary", key, c.Pos(emitted[nm]), fmt.Sprintf("the SVG writer emits the property `%s` for a path, but svgParser.setAttribute has no case for it: it is dropped when the document is read back", nm))
		}
	}
	r.Count("E11.svg-emitted-properties", len(names))
	r.Floor("E11.svg-emitted-properties", 8)
}

// E11SVGColorGrammar: the colour grammar of the importer covers what CSSColor writes.
func E11SVGColorGrammar(c *core.Ctx, r *core.Report) {
	r.Rule("E11.svg-color-grammar", "svg.go reads back the colours the library writes: CSSColor (used by the SVG renderer) prints translucent colours as `rgba(r,g,b,a)` with a a fraction in [0,1], so in parseColor's rgba branch the fourth component is parsed by a function that uses strconv.ParseFloat (not an integer parser); and wherever a `%` suffix is stripped from a number in svg.go the value is divided by 100 before it is scaled (a percentage of 255 or of a length). An integer-parsed alpha makes ParseSVG fail on the library's own output; a percentage multiplied by 255 directly wraps around")
	p := c.MustPkg("")
	info := p.TypesInfo
	pc := core.MustFuncDecl(p, "svgParser.parseColor")
	r.Func("canvas.svgParser.parseColor")
	// (1) the 4th component of the 4-component branch
	key1 := "canvas.svgParser.parseColor|alpha of rgba() is parsed as a fraction"
	var callee *types.Func
	ast.Inspect(pc.Body, func(m ast.Node) bool {
		call, ok := m.(*ast.CallExpr)
		if !ok || len(call.Args) != 1 {
			return true
		}
		ie, ok := core.Unparen(call.Args[0]).(*ast.IndexExpr)
		if !ok {
			return true
		}
		if v, ok := core.ConstInt(info, ie.Index); ok && v == 3 {
			callee = core.CalleeOf(info, call)
		}
		return true
	})
	if callee == nil {
		r.Fail("E11.svg-color-grammar", key1, c.Pos(pc.Pos()), "no call parsing the fourth component of rgba() was found")
	} else {
		var cfd *ast.FuncDecl
		for _, fd := range core.AllFuncDecls(p) {
			if info.Defs[fd.Name] == types.Object(callee) {
				cfd = fd
			}
		}
		float, integer := false, false
		if cfd != nil && cfd.Body != nil {
			ast.Inspect(cfd.Body, func(m ast.Node) bool {
				if call, ok := m.(*ast.CallExpr); ok {
					if core.IsPkgFunc(info, call, "strconv", "ParseFloat") {
						float = true
					}
					if core.IsPkgFunc(info, call, "strconv", "ParseUint") || core.IsPkgFunc(info, call, "strconv", "ParseInt") || core.IsPkgFunc(info, call, "strconv", "Atoi") {
						integer = true
					}
				}
				return true
			})
		}
		// a function that parses percentages with ParseFloat but plain numbers with ParseUint is an integer parser for `.5`
		if float && !integer {
			r.OK("E11.svg-color-grammar", key1, c.Pos(pc.Pos()), callee.Name())
		} else {
			r.Fail("E11.svg-color-grammar", key1, c.Pos(pc.Pos()), fmt.Sprintf("the alpha of rgba() is parsed by %s, which parses plain numbers as integers: `rgba(255,0,0,.5)`, the form CSSColor writes, is rejected", callee.Name()))
		}
	}
	// (2) percent suffix → /100
	n := 0
	for _, fd := range core.AllFuncDecls(p) {
		if fd.Body == nil || !strings.HasSuffix(c.Fset.Position(fd.Pos()).Filename, "/svg.go") {
			continue
		}
		ast.Inspect(fd.Body, func(m ast.Node) bool {
			is, ok := m.(*ast.IfStmt)
			if !ok {
				return true
			}
			// cond: X[len(X)-1] == '%'
			isPct := false
			ast.Inspect(is.Cond, func(k ast.Node) bool {
				if be, ok := k.(*ast.BinaryExpr); ok && be.Op == token.EQL {
					if v, ok := core.ConstInt(info, be.Y); ok && v == '%' {
						if _, ok := core.Unparen(be.X).(*ast.IndexExpr); ok {
							isPct = true
						}
					}
				}
				return true
			})
			if !isPct {
				return true
			}
			// the branch parses a float; every return/assignment using it must divide by 100 somewhere in the function's percentage handling
			parses := false
			ast.Inspect(is.Body, func(k ast.Node) bool {
				if call, ok := k.(*ast.CallExpr); ok && core.IsPkgFunc(info, call, "strconv", "ParseFloat") {
					parses = true
				}
				return true
			})
			if !parses {
				return true // only strips the suffix; the division is checked where the number is used
			}
			n++
			key := fmt.Sprintf("canvas.%s|percentage #%d is divided by 100", core.FuncName(fd), n)
			div := false
			ast.Inspect(is.Body, func(k ast.Node) bool {
				if be, ok := k.(*ast.BinaryExpr); ok && be.Op == token.QUO {
					if f, ok := constantFloat(core.ConstVal(info, be.Y)); ok && f == 100 {
						div = true
					}
				}
				return true
			})
			if div {
				r.OK("E11.svg-color-grammar", key, c.Pos(is.Pos()), "")
			} else {
				r.Fail("E11.svg-color-grammar", key, c.Pos(is.Pos()), "a number with a `%` suffix is parsed and used without dividing by 100: 50% of 255 becomes 12750 and wraps around")
			}
			return true
		})
	}
	r.Count("E11.svg-percent-branches", n)
	r.Floor("E11.svg-percent-branches", 1)
}

// E11SVGTransformSeparator: the names in a transform list are separated by white space and/or commas.
func E11SVGTransformSeparator(c *core.Ctx, r *core.Report) {
	r.Rule("E11.svg-transform-separator", "svgParser.parseTransform cuts a transform list into `name(args)` items. The SVG grammar separates items by white space and/or a comma, so the name compared in the switch over the transform functions is produced by an expression that removes commas as well as white space (a strings.Trim/TrimLeft/TrimFunc whose cutset or function covers ','). With white space only, the name of every item after a comma is `, name`, matches no case, and the item is skipped without an error")
	p := c.MustPkg("")
	info := p.TypesInfo
	fd := core.MustFuncDecl(p, "svgParser.parseTransform")
	r.Func("canvas.svgParser.parseTransform")
	// the switch tag over string constants matrix/translate/...
	var tag types.Object
	ast.Inspect(fd.Body, func(m ast.Node) bool {
		sw, ok := m.(*ast.SwitchStmt)
		if !ok || sw.Tag == nil {
			return true
		}
		id, ok := core.Unparen(sw.Tag).(*ast.Ident)
		if !ok {
			return true
		}
		for _, cs := range sw.Body.List {
			for _, e := range cs.(*ast.CaseClause).List {
				if v := core.ConstVal(info, e); v != nil && v.Kind() == constant.String && constant.StringVal(v) == "translate" {
					tag = core.ObjOf(info, id)
				}
			}
		}
		return true
	})
	key := "canvas.svgParser.parseTransform|the transform name is cut free of commas"
	if tag == nil {
		r.Fail("E11.svg-transform-separator", key, c.Pos(fd.Pos()), "the switch over the transform names was not found")
		return
	}
	ok := false
	n := 0
	ast.Inspect(fd.Body, func(m ast.Node) bool {
		as, isAs := m.(*ast.AssignStmt)
		if !isAs || len(as.Lhs) != len(as.Rhs) {
			return true
		}
		for i, l := range as.Lhs {
			if id, isId := l.(*ast.Ident); !isId || core.ObjOf(info, id) != tag {
				continue
			}
			n++
			ast.Inspect(as.Rhs[i], func(k ast.Node) bool {
				call, isCall := k.(*ast.CallExpr)
				if !isCall {
					return true
				}
				f := core.CalleeOf(info, call)
				if f == nil || f.Pkg() == nil || f.Pkg().Path() != "strings" {
					return true
				}
				switch f.Name() {
				case "Trim", "TrimLeft", "TrimRight":
					if len(call.Args) == 2 {
						if v := core.ConstVal(info, call.Args[1]); v != nil && v.Kind() == constant.String && strings.Contains(constant.StringVal(v), ",") && strings.Contains(constant.StringVal(v), " ") {
							ok = true
						}
					}
				case "TrimFunc", "TrimLeftFunc", "FieldsFunc":
					ok = true // a predicate: not decided further
				}
				return true
			})
		}
		return true
	})
	if ok {
		r.OK("E11.svg-transform-separator", key, c.Pos(fd.Pos()), "")
	} else {
		r.Fail("E11.svg-transform-separator", key, c.Pos(fd.Pos()), fmt.Sprintf("the name compared with the transform functions is assigned at %d place(s), none of which removes a separating comma: `translate(1,1), scale(2)` loses its second item", n))
	}
	r.Count("E11.transform-name-assignments", n)
	r.Floor("E11.transform-name-assignments", 1)
}

// E11SVGCascade: presentation attributes, then style-sheet rules, then the style attribute.
func E11SVGCascade(c *core.Ctx, r *core.Report) {
	r.Rule("E11.svg-cascade", "svgParser.setStyling applies the three sources of a property in the order of the SVG/CSS cascade, each overriding the previous one: presentation attributes (every attribute other than `style`), then the rules of <style> elements, then the declarations of the style attribute. In the function body the call that applies a non-style attribute therefore precedes the loop over the parser's CSS rules, which precedes the call that applies the parsed style attribute. With attributes applied last in document order, `<rect style=\"fill:red\" fill=\"none\">` is not filled and a CSS rule can never override an attribute")
	p := c.MustPkg("")
	info := p.TypesInfo
	fd := core.MustFuncDecl(p, "svgParser.setStyling")
	r.Func("canvas.svgParser.setStyling")
	var posAttr, posCSS, posStyle token.Pos
	ast.Inspect(fd.Body, func(m ast.Node) bool {
		switch x := m.(type) {
		case *ast.RangeStmt:
			if se, ok := core.Unparen(x.X).(*ast.SelectorExpr); ok {
				if t := info.TypeOf(se); t != nil && strings.Contains(t.String(), "cssRule") {
					posCSS = x.Pos()
				}
			}
			// range over parseStyleAttribute(...)
			if call, ok := core.Unparen(x.X).(*ast.CallExpr); ok {
				if f := core.CalleeOf(info, call); f != nil && f.Name() == "parseStyleAttribute" {
					posStyle = x.Pos()
				}
			}
		case *ast.CallExpr:
			if f := core.CalleeOf(info, x); f != nil && f.Name() == "setAttribute" && len(x.Args) == 2 {
				// the plain attribute application: arguments are fields of the range variable over the parameter
				if se, ok := core.Unparen(x.Args[0]).(*ast.SelectorExpr); ok {
					if id, ok := core.Unparen(se.X).(*ast.Ident); ok {
						if o := core.ObjOf(info, id); o != nil {
							// the loop variable ranges over the function's parameter
							isParamLoop := false
							ast.Inspect(fd.Body, func(k ast.Node) bool {
								if rs, ok := k.(*ast.RangeStmt); ok {
									if v, ok := rs.Value.(*ast.Ident); ok && core.ObjOf(info, v) == o {
										if pid, ok := core.Unparen(rs.X).(*ast.Ident); ok && core.ObjOf(info, pid) == paramObj(info, fd, 0) {
											isParamLoop = true
										}
									}
								}
								return true
							})
							if isParamLoop && posAttr == token.NoPos {
								posAttr = x.Pos()
							}
						}
					}
				}
			}
		}
		return true
	})
	key := "canvas.svgParser.setStyling|attributes, then style-sheet rules, then the style attribute"
	switch {
	case posAttr == token.NoPos || posCSS == token.NoPos || posStyle == token.NoPos:
		r.Fail("E11.svg-cascade", key, c.Pos(fd.Pos()), fmt.Sprintf("the three stages were not all found (attributes: %v, style sheet: %v, style attribute: %v)", posAttr != token.NoPos, posCSS != token.NoPos, posStyle != token.NoPos))
	case posAttr < posCSS && posCSS < posStyle:
		r.OK("E11.svg-cascade", key, c.Pos(fd.Pos()), "")
	default:
		r.Fail("E11.svg-cascade", key, c.Pos(fd.Pos()), fmt.Sprintf("the stages are applied in the order %s: a later stage overrides an earlier one, so the precedence is not presentation attribute < style sheet < style attribute", func() string {
			type st struct {
				n string
				p token.Pos
			}
			ss := []st{{"attributes", posAttr}, {"style sheet", posCSS}, {"style attribute", posStyle}}
			sort.Slice(ss, func(i, j int) bool { return ss[i].p < ss[j].p })
			return ss[0].n + " → " + ss[1].n + " → " + ss[2].n
		}()))
	}
	r.Count("E11.cascade-stages", 3)
	r.Floor("E11.cascade-stages", 3)
}

// E11JunctionPairing: at a junction the end of one segment is paired with the start of the next.
func E11JunctionPairing(c *core.Ctx, r *core.Report) {
	r.Rule("E11.junction-pairing", "(*Path).offset keeps, per segment, the normal and curvature radius at its start (n0, r0) and at its end (n1, r1). Every expression that relates two different segment states — the test whether a join is needed, the turn direction, the Joiner call — relates the end of the earlier one to the start of the later one: within one call, two selectors of the same kind (n or r) on different state variables have different suffixes (…1 with …0). Comparing cur.n1 with next.n1 is the same for lines (n0 = n1) but skips the join at a corner that is followed by a curve whose end tangent happens to be parallel to the segment before the corner; the outline then falls apart")
	p := c.MustPkg("")
	info := p.TypesInfo
	fd := core.MustFuncDecl(p, "Path.offset")
	r.Func("canvas.Path.offset")
	type sel struct {
		obj    string
		kind   byte
		suffix byte
		pos    token.Pos
		src    string
	}
	stateSel := func(e ast.Expr) (sel, bool) {
		se, ok := core.Unparen(e).(*ast.SelectorExpr)
		if !ok || len(se.Sel.Name) != 2 || (se.Sel.Name[0] != 'n' && se.Sel.Name[0] != 'r') || (se.Sel.Name[1] != '0' && se.Sel.Name[1] != '1') {
			return sel{}, false
		}
		if s := info.Selections[se]; s == nil || s.Kind() != types.FieldVal {
			return sel{}, false
		}
		return sel{types.ExprString(se.X), se.Sel.Name[0], se.Sel.Name[1], se.Pos(), types.ExprString(se)}, true
	}
	n := 0
	ast.Inspect(fd.Body, func(m ast.Node) bool {
		call, ok := m.(*ast.CallExpr)
		if !ok {
			return true
		}
		var sels []sel
		collect := func(e ast.Expr) {
			ast.Inspect(e, func(k ast.Node) bool {
				if inner, ok := k.(*ast.CallExpr); ok && inner != call {
					// nested calls are examined on their own, but their receivers' selectors belong to the chain
					_ = inner
				}
				if ex, ok := k.(ast.Expr); ok {
					if s, ok := stateSel(ex); ok {
						sels = append(sels, s)
						return false
					}
				}
				return true
			})
		}
		collect(call.Fun)
		for _, a := range call.Args {
			collect(a)
		}
		for i := 0; i < len(sels); i++ {
			for j := i + 1; j < len(sels); j++ {
				a, b := sels[i], sels[j]
				if a.kind != b.kind || a.obj == b.obj {
					continue
				}
				n++
				key := fmt.Sprintf("canvas.Path.offset|junction relation #%d pairs an end with a start", n)
				if a.suffix != b.suffix {
					r.OK("E11.junction-pairing", key, c.Pos(a.pos), a.src+" ~ "+b.src)
				} else {
					r.Fail("E11.junction-pairing", key, c.Pos(a.pos), fmt.Sprintf("`%s` is related to `%s`: both are taken at the %s of their segments, but two consecutive segments meet at the end of the first and the start of the second", a.src, b.src, map[byte]string{'0': "start", '1': "end"}[a.suffix]))
				}
			}
		}
		return true
	})
	r.Count("E11.junction-relations", n)
	r.Floor("E11.junction-relations", 4)
}

// E11BreakSums: every breakpoint takes the sums after the break from computeSum.
func E11BreakSums(c *core.Ctx, r *core.Report) {
	r.Rule("E11.break-sums", "text/linebreak.go: a Breakpoint records where the next line starts (W, Y, Z: the sums after the break, past the glue the break swallows). Every Breakpoint literal that is created for a position inside the paragraph (it has a parent) sets W, Y and Z from the three results of linebreaker.computeSum, like the regular break in mainLoop does (sibling agreement); the running totals lb.W/lb.Y/lb.Z are those *at* the item, and after a glue item already include it. The break created on overflow used the running totals: the overflowing line was reported with the break glue and the next line with the discarded glue")
	p := c.MustPkg("text")
	info := p.TypesInfo
	n := 0
	for _, fd := range core.AllFuncDecls(p) {
		if fd.Body == nil || strings.HasSuffix(c.Fset.Position(fd.Pos()).Filename, "_test.go") {
			continue
		}
		fname := "text." + core.FuncName(fd)
		// locals assigned from computeSum
		sums := map[types.Object]int{}
		ast.Inspect(fd.Body, func(m ast.Node) bool {
			as, ok := m.(*ast.AssignStmt)
			if !ok || len(as.Lhs) != 3 || len(as.Rhs) != 1 {
				return true
			}
			call, ok := as.Rhs[0].(*ast.CallExpr)
			if !ok {
				return true
			}
			if f := core.CalleeOf(info, call); f == nil || f.Name() != "computeSum" {
				return true
			}
			for i, l := range as.Lhs {
				if id, ok := l.(*ast.Ident); ok {
					sums[core.ObjOf(info, id)] = i
				}
			}
			return true
		})
		ord := 0
		ast.Inspect(fd.Body, func(m ast.Node) bool {
			cl, ok := m.(*ast.CompositeLit)
			if !ok {
				return true
			}
			if t := info.TypeOf(cl); t == nil || !strings.HasSuffix(t.String(), "text.Breakpoint") {
				return true
			}
			fields := map[string]ast.Expr{}
			for _, el := range cl.Elts {
				if kv, ok := el.(*ast.KeyValueExpr); ok {
					if id, ok := kv.Key.(*ast.Ident); ok {
						fields[id.Name] = kv.Value
					}
				}
			}
			if _, hasParent := fields["parent"]; !hasParent {
				return true
			}
			n++
			ord++
			key := fmt.Sprintf("%s|breakpoint #%d takes W, Y, Z from computeSum", fname, ord)
			bad := ""
			for i, f := range []string{"W", "Y", "Z"} {
				v, ok := fields[f]
				if !ok {
					bad = "field " + f + " is not set"
					break
				}
				id, isId := core.Unparen(v).(*ast.Ident)
				if !isId {
					bad = fmt.Sprintf("%s is `%s`, not a result of computeSum", f, c.Src(v))
					break
				}
				if k, isSum := sums[core.ObjOf(info, id)]; !isSum || k != i {
					bad = fmt.Sprintf("%s is `%s`, not result %d of computeSum", f, c.Src(v), i+1)
					break
				}
			}
			if bad == "" {
				r.OK("E11.break-sums", key, c.Pos(cl.Pos()), "")
			} else {
				r.Fail("E11.break-sums", key, c.Pos(cl.Pos()), bad+": the next line is measured from the wrong position (the glue at or after the break is counted into a line)")
			}
			return true
		})
	}
	r.Count("E11.breakpoints-with-parent", n)
	r.Floor("E11.breakpoints-with-parent", 2)
}

// E11GlyphIndexDomain: the glyph→run lookup is given a glyph index.
func E11GlyphIndexDomain(c *core.Ctx, r *core.Report) {
	r.Rule("E11.glyph-index-domain", "RichText.ToText keeps several index spaces (bytes, runes, glyphs, items, runs). `glyphIndices.index(x)` maps a glyph index to its run; its argument must be a glyph index: a variable that is also used to index or slice the glyph slice in the function, and that is never used to index or slice the rune slice. The variable left over from the itemising loop counts runes; used here it selects the last run whatever the line, so an empty line takes its height from the last face of the text")
	p := c.MustPkg("")
	info := p.TypesInfo
	fd := core.MustFuncDecl(p, "RichText.ToText")
	r.Func("canvas.RichText.ToText")
	elemKind := func(e ast.Expr) string {
		t := info.TypeOf(e)
		if t == nil {
			return ""
		}
		if s, ok := t.Underlying().(*types.Slice); ok {
			es := s.Elem().String()
			switch {
			case strings.HasSuffix(es, "text.Glyph"):
				return "glyph"
			case es == "rune" || es == "int32":
				return "rune"
			}
		}
		return ""
	}
	uses := map[types.Object]map[string]bool{}
	note := func(idx ast.Expr, kind string) {
		ast.Inspect(idx, func(k ast.Node) bool {
			if id, ok := k.(*ast.Ident); ok {
				if o := core.ObjOf(info, id); o != nil {
					if uses[o] == nil {
						uses[o] = map[string]bool{}
					}
					uses[o][kind] = true
				}
			}
			return true
		})
	}
	ast.Inspect(fd.Body, func(m ast.Node) bool {
		switch x := m.(type) {
		case *ast.IndexExpr:
			if k := elemKind(x.X); k != "" {
				note(x.Index, k)
			}
		case *ast.SliceExpr:
			if k := elemKind(x.X); k != "" {
				for _, b := range []ast.Expr{x.Low, x.High} {
					if b != nil {
						note(b, k)
					}
				}
			}
		}
		return true
	})
	// kinds flow through plain copies `a := b` / `a = b` (and sums of such variables) in both directions
	for changed := true; changed; {
		changed = false
		ast.Inspect(fd.Body, func(m ast.Node) bool {
			as, ok := m.(*ast.AssignStmt)
			if !ok || len(as.Lhs) != len(as.Rhs) {
				return true
			}
			for i, l := range as.Lhs {
				lid, ok1 := l.(*ast.Ident)
				rid, ok2 := core.Unparen(as.Rhs[i]).(*ast.Ident)
				if !ok1 || !ok2 {
					continue
				}
				lo, ro := core.ObjOf(info, lid), core.ObjOf(info, rid)
				if lo == nil || ro == nil {
					continue
				}
				for _, pair := range [][2]types.Object{{lo, ro}, {ro, lo}} {
					for k := range uses[pair[0]] {
						if uses[pair[1]] == nil {
							uses[pair[1]] = map[string]bool{}
						}
						if !uses[pair[1]][k] {
							uses[pair[1]][k] = true
							changed = true
						}
					}
				}
			}
			return true
		})
	}
	// the glyph→run indexer: the indexer local that is appended with len(<glyph slice>)
	var glyphIndexer types.Object
	ast.Inspect(fd.Body, func(m ast.Node) bool {
		as, ok := m.(*ast.AssignStmt)
		if !ok || len(as.Lhs) != 1 || len(as.Rhs) != 1 {
			return true
		}
		call, ok := as.Rhs[0].(*ast.CallExpr)
		if !ok || len(call.Args) != 2 {
			return true
		}
		if f, ok := call.Fun.(*ast.Ident); !ok || f.Name != "append" {
			return true
		}
		if lc, ok := core.Unparen(call.Args[1]).(*ast.CallExpr); ok && len(lc.Args) == 1 {
			if f, ok := lc.Fun.(*ast.Ident); ok && f.Name == "len" && elemKind(lc.Args[0]) == "glyph" {
				if id, ok := as.Lhs[0].(*ast.Ident); ok {
					glyphIndexer = core.ObjOf(info, id)
				}
			}
		}
		return true
	})
	n := 0
	ast.Inspect(fd.Body, func(m ast.Node) bool {
		call, ok := m.(*ast.CallExpr)
		if !ok || len(call.Args) != 1 {
			return true
		}
		se, ok := call.Fun.(*ast.SelectorExpr)
		if !ok || se.Sel.Name != "index" {
			return true
		}
		if rid, ok := core.Unparen(se.X).(*ast.Ident); !ok || glyphIndexer == nil || core.ObjOf(info, rid) != glyphIndexer {
			return true
		}
		n++
		key := fmt.Sprintf("canvas.RichText.ToText|glyph→run lookup #%d is given a glyph index", n)
		id, isId := core.Unparen(call.Args[0]).(*ast.Ident)
		if !isId {
			r.OK("E11.glyph-index-domain", key, c.Pos(call.Pos()), "expression: "+c.Src(call.Args[0]))
			return true
		}
		u := uses[core.ObjOf(info, id)]
		switch {
		case u["rune"]:
			r.Fail("E11.glyph-index-domain", key, c.Pos(call.Pos()), fmt.Sprintf("`%s` indexes the rune slice elsewhere in the function, it is not a glyph index: the lookup returns the run of an unrelated position (the last one)", id.Name))
		case u["glyph"]:
			r.OK("E11.glyph-index-domain", key, c.Pos(call.Pos()), id.Name)
		default:
			r.Fail("E11.glyph-index-domain", key, c.Pos(call.Pos()), fmt.Sprintf("`%s` is never used to index the glyph slice: it cannot be told to be a glyph index", id.Name))
		}
		return true
	})
	r.Count("E11.glyph-run-lookups", n)
	r.Floor("E11.glyph-run-lookups", 3)
}

// E11MatrixInverse: the entries of Matrix.Inv are divided by the determinant itself.
func E11MatrixInverse(c *core.Ctx, r *core.Report) {
	r.Rule("E11.matrix-inverse", "Matrix.Inv returns the inverse of the affine matrix: with d standing for 1/det, every entry of the result — a matrix literal, possibly completed by assignments to single entries before it is returned — is expanded to a polynomial in the entries of m and d (a division is accepted only by the determinant itself: m.Det() or a local defined as exactly that call), and the six identities of M·Inv = I are checked as polynomial identities modulo d·det = 1: Σₖ m[i][k]·inv[k][j] = δᵢⱼ·d·det for the linear part and Σₖ m[i][k]·inv[k][2] + m[i][2]·d·det = 0 for the translation. A cofactor with the wrong entry (the translation row using inv[0][1] for inv[1][0]) or a division by |det| fails an identity; any arrangement of the same algebra passes")
	p := c.MustPkg("")
	info := p.TypesInfo
	fd := core.MustFuncDecl(p, "Matrix.Inv")
	r.Func("canvas.Matrix.Inv")
	recv := recvObj(info, fd)
	isDetCall := func(e ast.Expr) bool {
		call, ok := core.Unparen(e).(*ast.CallExpr)
		if !ok || len(call.Args) != 0 {
			return false
		}
		se, ok := call.Fun.(*ast.SelectorExpr)
		if !ok || se.Sel.Name != "Det" {
			return false
		}
		id, ok := core.Unparen(se.X).(*ast.Ident)
		return ok && core.ObjOf(info, id) == recv
	}
	isDet := func(e ast.Expr) bool {
		if isDetCall(e) {
			return true
		}
		id, ok := core.Unparen(e).(*ast.Ident)
		if !ok {
			return false
		}
		o := core.ObjOf(info, id)
		cnt, good := 0, false
		ast.Inspect(fd.Body, func(k ast.Node) bool {
			if as, ok := k.(*ast.AssignStmt); ok && len(as.Lhs) == len(as.Rhs) {
				for i, l := range as.Lhs {
					if lid, ok := l.(*ast.Ident); ok && core.ObjOf(info, lid) == o {
						cnt++
						good = isDetCall(as.Rhs[i])
					}
				}
			}
			return true
		})
		return cnt == 1 && good
	}
	key := "canvas.Matrix.Inv|M·Inv = I as polynomial identities"
	// entry indices of X[i][j] with constant i, j
	entry := func(e ast.Expr) (types.Object, int, int, bool) {
		o, ok := core.Unparen(e).(*ast.IndexExpr)
		if !ok {
			return nil, 0, 0, false
		}
		in, ok := core.Unparen(o.X).(*ast.IndexExpr)
		if !ok {
			return nil, 0, 0, false
		}
		id, ok := core.Unparen(in.X).(*ast.Ident)
		if !ok {
			return nil, 0, 0, false
		}
		a, ok1 := core.ConstInt(info, in.Index)
		b, ok2 := core.ConstInt(info, o.Index)
		if !ok1 || !ok2 || a < 0 || a > 1 || b < 0 || b > 2 {
			return nil, 0, 0, false
		}
		return core.ObjOf(info, id), int(a), int(b), true
	}
	var res [2][3]poly
	have := false
	var resObj types.Object
	undecided := ""
	var eval func(e ast.Expr) poly
	eval = func(e ast.Expr) poly {
		e = core.Unparen(e)
		if tv, ok := info.Types[e]; ok && tv.Value != nil {
			if f, ok := constantFloat(tv.Value); ok && f == float64(int(f)) {
				return polyTrim(poly{"": int(f)})
			}
			undecided = "a constant that is not an integer: " + types.ExprString(e)
			return poly{}
		}
		if o, a, b, ok := entry(e); ok {
			switch {
			case o == recv:
				return poly{fmt.Sprintf("m%d%d", a, b): 1}
			case resObj != nil && o == resObj:
				out := poly{}
				for k, v := range res[a][b] {
					out[k] = v
				}
				return out
			}
		}
		switch x := e.(type) {
		case *ast.UnaryExpr:
			if x.Op == token.SUB {
				return polyAdd(poly{}, eval(x.X), -1)
			}
			if x.Op == token.ADD {
				return eval(x.X)
			}
		case *ast.BinaryExpr:
			switch x.Op {
			case token.ADD:
				return polyAdd(eval(x.X), eval(x.Y), 1)
			case token.SUB:
				return polyAdd(eval(x.X), eval(x.Y), -1)
			case token.MUL:
				return polyMul(eval(x.X), eval(x.Y))
			case token.QUO:
				if isDet(x.Y) {
					return polyMul(eval(x.X), poly{"d": 1})
				}
				undecided = "`" + types.ExprString(e) + "` divides by something other than the determinant itself (m.Det() or a local defined as exactly that)"
				return poly{}
			}
		}
		if undecided == "" {
			undecided = "`" + types.ExprString(e) + "` is not built from entries of m, + − × and a division by the determinant"
		}
		return poly{}
	}
	readLit := func(cl *ast.CompositeLit) bool {
		if len(cl.Elts) != 2 {
			return false
		}
		for i, rowE := range cl.Elts {
			row, ok := rowE.(*ast.CompositeLit)
			if !ok || len(row.Elts) != 3 {
				return false
			}
			for j, el := range row.Elts {
				res[i][j] = eval(el)
			}
		}
		return true
	}
	// straight-line: `X := Matrix{…}`, `X[i][j] = e`, `return X` or `return Matrix{…}`
	for _, st := range fd.Body.List {
		switch x := st.(type) {
		case *ast.AssignStmt:
			if len(x.Lhs) != 1 || len(x.Rhs) != 1 {
				continue
			}
			if id, ok := x.Lhs[0].(*ast.Ident); ok {
				if cl, ok := core.Unparen(x.Rhs[0]).(*ast.CompositeLit); ok {
					if t := info.TypeOf(cl); t != nil && strings.HasSuffix(t.String(), "canvas.Matrix") && readLit(cl) {
						resObj, have = core.ObjOf(info, id), true
					}
				}
				continue
			}
			if o, a, b, ok := entry(x.Lhs[0]); ok && resObj != nil && o == resObj {
				switch x.Tok {
				case token.ASSIGN:
					res[a][b] = eval(x.Rhs[0])
				case token.ADD_ASSIGN:
					res[a][b] = polyAdd(res[a][b], eval(x.Rhs[0]), 1)
				case token.SUB_ASSIGN:
					res[a][b] = polyAdd(res[a][b], eval(x.Rhs[0]), -1)
				default:
					undecided = "an entry of the result is updated with `" + x.Tok.String() + "`"
				}
			}
		case *ast.ReturnStmt:
			if len(x.Results) == 1 {
				if cl, ok := core.Unparen(x.Results[0]).(*ast.CompositeLit); ok {
					have = readLit(cl)
				}
			}
		}
	}
	if !have {
		r.Fail("E11.matrix-inverse", key, c.Pos(fd.Pos()), "the six entries of the result could not be read off a matrix literal (returned, or assigned to a local that is completed entry by entry)")
		return
	}
	if undecided != "" {
		r.Fail("E11.matrix-inverse", key, c.Pos(fd.Pos()), undecided+": the inverse of a matrix with a negative determinant may come out negated")
		return
	}
	m := func(a, b int) poly { return poly{fmt.Sprintf("m%d%d", a, b): 1} }
	det := polyAdd(polyMul(m(0, 0), m(1, 1)), polyMul(m(0, 1), m(1, 0)), -1)
	one := polyMul(poly{"d": 1}, det) // d·det, which is 1
	bad := ""
	for i := 0; i < 2; i++ {
		for j := 0; j < 3; j++ {
			lhs := polyAdd(polyMul(m(i, 0), res[0][j]), polyMul(m(i, 1), res[1][j]), 1)
			var want poly
			switch {
			case j == 2:
				lhs = polyAdd(lhs, polyMul(m(i, 2), one), 1)
				want = poly{}
			case i == j:
				want = one
			default:
				want = poly{}
			}
			if !polyEqual(lhs, want) && bad == "" {
				bad = fmt.Sprintf("row %d of m times column %d of the result is %s, want %s (d = 1/det)", i, j, lhs, want)
			}
		}
	}
	if bad == "" {
		r.OK("E11.matrix-inverse", key, c.Pos(fd.Pos()), "six identities")
	} else {
		r.Fail("E11.matrix-inverse", key, c.Pos(fd.Pos()), bad+": Inv is not the inverse")
	}
	r.Count("E11.inverse-entries", 6)
	r.Floor("E11.inverse-entries", 6)
}

// E11RelativeBeforeUse: the pen point of ParseSVGPath is used only after the relative offset has been applied.
func E11RelativeBeforeUse(c *core.Ctx, r *core.Report) {
	r.Rule("E11.relative-before-use", "ParseSVGPath reads the coordinates of a command into its pen variable and, for a lower-case command, adds the previous point to make them absolute. In every case of the command switch, the pen variable (or a field of it) is not copied into another variable nor passed to a call before that conditional addition: what is copied earlier is the raw operand, which equals the absolute point only for upper-case commands or at the origin. A sub-path start remembered before the addition makes the pen return to the wrong point after `z` when the sub-path was opened by a relative `m`")
	p := c.MustPkg("")
	info := p.TypesInfo
	fd := core.MustFuncDecl(p, "ParseSVGPath")
	r.Func("canvas.ParseSVGPath")
	n := 0
	ast.Inspect(fd.Body, func(m ast.Node) bool {
		cc, ok := m.(*ast.CaseClause)
		if !ok || len(cc.List) == 0 {
			return true
		}
		// byte constants
		label := ""
		for _, e := range cc.List {
			if v, ok := core.ConstInt(info, e); ok && v > 0 && v < 128 {
				label += string(rune(v))
			}
		}
		if label == "" {
			return true
		}
		// the relative adjustment: an if whose body assigns V from an expression that mentions V and another variable of the same type
		adjIdx := -1
		var pen types.Object
		for k, st := range cc.Body {
			is, ok := st.(*ast.IfStmt)
			if !ok {
				continue
			}
			ast.Inspect(is.Body, func(q ast.Node) bool {
				as, ok := q.(*ast.AssignStmt)
				if !ok || len(as.Lhs) != 1 || len(as.Rhs) != 1 {
					return true
				}
				root := core.RootIdent(as.Lhs[0])
				if root == nil {
					return true
				}
				o := core.ObjOf(info, root)
				selfRef := as.Tok != token.ASSIGN
				otherSame := false
				ast.Inspect(as.Rhs[0], func(z ast.Node) bool {
					if id, ok := z.(*ast.Ident); ok {
						if oo := core.ObjOf(info, id); oo == o {
							selfRef = true
						} else if oo != nil && o != nil && types.Identical(oo.Type(), o.Type()) {
							otherSame = true
						}
					}
					return true
				})
				if selfRef && otherSame && strings.HasSuffix(o.Type().String(), "canvas.Point") && adjIdx < 0 {
					adjIdx, pen = k, o
				}
				return true
			})
		}
		if adjIdx < 0 {
			return true
		}
		n++
		key := fmt.Sprintf("canvas.ParseSVGPath|case %s|pen point not used before the relative offset is added", label)
		bad := token.NoPos
		for _, st := range cc.Body[:adjIdx] {
			ast.Inspect(st, func(q ast.Node) bool {
				switch x := q.(type) {
				case *ast.AssignStmt:
					// reads on the RHS when the LHS is not the pen itself
					lhsIsPen := true
					for _, l := range x.Lhs {
						if id := core.RootIdent(l); id == nil || core.ObjOf(info, id) != pen {
							lhsIsPen = false
						}
					}
					if !lhsIsPen {
						for _, rh := range x.Rhs {
							ast.Inspect(rh, func(z ast.Node) bool {
								if id, ok := z.(*ast.Ident); ok && core.ObjOf(info, id) == pen && bad == token.NoPos {
									bad = id.Pos()
								}
								return true
							})
						}
					}
					return false
				case *ast.CallExpr:
					for _, a := range x.Args {
						ast.Inspect(a, func(z ast.Node) bool {
							if id, ok := z.(*ast.Ident); ok && core.ObjOf(info, id) == pen && bad == token.NoPos {
								bad = id.Pos()
							}
							return true
						})
					}
				}
				return true
			})
		}
		if bad != token.NoPos {
			r.Fail("E11.relative-before-use", key, c.Pos(bad), fmt.Sprintf("`%s` is read here, before the statement that adds the previous point for the lower-case command: for a relative command this is the raw offset, not the point", pen.Name()))
		} else {
			r.OK("E11.relative-before-use", key, c.Pos(cc.Pos()), "")
		}
		return true
	})
	r.Count("E11.relative-cases", n)
	r.Floor("E11.relative-cases", 6)
}

// E11DerivedBeforeUpdate: a per-line value is derived from the line's indices after they have been advanced.
func E11DerivedBeforeUpdate(c *core.Ctx, r *core.Report) {
	r.Rule("E11.derived-before-update", "RichText.ToText, the loop over the lines: a local defined once per iteration from an index variable (`k := glyphIndices.index(a)`, `bi, bg := breaks[j].Position, ag`) describes that index as it is at the definition. Between the definition and the last use of the local, the index variable it was derived from is not advanced any more (no `x += …`, `x++` or assignment to x), unless the local is redefined. A run index taken from the line's first glyph *before* the leading white space is skipped is the run of the dropped white space: when the face changes right after it, the first character of the line is laid out in the previous face and the line no longer has the width the breaker gave it")
	p := c.MustPkg("")
	info := p.TypesInfo
	fd := core.MustFuncDecl(p, "RichText.ToText")
	r.Func("canvas.RichText.ToText")
	// the loop over the breaks: `for j := range breaks`
	var loop *ast.RangeStmt
	ast.Inspect(fd.Body, func(m ast.Node) bool {
		rs, ok := m.(*ast.RangeStmt)
		if !ok || loop != nil {
			return true
		}
		if t := info.TypeOf(rs.X); t != nil && strings.Contains(t.String(), "Breakpoint") {
			loop = rs
		}
		return true
	})
	if loop == nil {
		r.Fail("E11.derived-before-update", "canvas.RichText.ToText|line loop", c.Pos(fd.Pos()), "the loop over the breakpoints was not found")
		return
	}
	isIndexVar := func(o types.Object) bool {
		v, ok := o.(*types.Var)
		if !ok || v.IsField() {
			return false
		}
		b, ok := v.Type().Underlying().(*types.Basic)
		return ok && b.Info()&types.IsInteger != 0
	}
	n := 0
	for si, st := range loop.Body.List {
		as, ok := st.(*ast.AssignStmt)
		if !ok || as.Tok != token.DEFINE {
			continue
		}
		for li, l := range as.Lhs {
			lid, ok := l.(*ast.Ident)
			if !ok || lid.Name == "_" {
				continue
			}
			v := info.Defs[lid]
			if v == nil {
				continue
			}
			var rhs ast.Expr
			if len(as.Rhs) == len(as.Lhs) {
				rhs = as.Rhs[li]
			} else if len(as.Rhs) == 1 {
				rhs = as.Rhs[0]
			}
			if rhs == nil {
				continue
			}
			// index variables the definition reads (declared outside this statement)
			src := map[types.Object]bool{}
			ast.Inspect(rhs, func(k ast.Node) bool {
				if id, ok := k.(*ast.Ident); ok {
					if o := core.ObjOf(info, id); o != nil && o != v && isIndexVar(o) {
						src[o] = true
					}
				}
				return true
			})
			if len(src) == 0 {
				continue
			}
			// last use of v in the rest of the loop body
			lastUse := token.NoPos
			for _, later := range loop.Body.List[si+1:] {
				ast.Inspect(later, func(k ast.Node) bool {
					if id, ok := k.(*ast.Ident); ok && core.ObjOf(info, id) == v && id.Pos() > lastUse {
						lastUse = id.Pos()
					}
					return true
				})
			}
			if lastUse == token.NoPos {
				continue
			}
			n++
			key := fmt.Sprintf("canvas.RichText.ToText|per-line local #%d derived from indices that are not advanced before its last use", n)
			bad := ""
			for _, later := range loop.Body.List[si+1:] {
				if later.Pos() <= lastUse && lastUse < later.End() {
					break // the statement that holds the last use (e.g. `ai, ag = bi, bg`) reads before it writes
				}
				ast.Inspect(later, func(k ast.Node) bool {
					if k == nil || k.Pos() > lastUse || bad != "" {
						return true
					}
					var target ast.Expr
					switch x := k.(type) {
					case *ast.AssignStmt:
						if x.Tok != token.DEFINE {
							for _, tl := range x.Lhs {
								if id, ok := tl.(*ast.Ident); ok && src[core.ObjOf(info, id)] {
									target = tl
								}
							}
						}
					case *ast.IncDecStmt:
						if id, ok := x.X.(*ast.Ident); ok && src[core.ObjOf(info, id)] {
							target = x.X
						}
					}
					if target != nil {
						bad = fmt.Sprintf("`%s` is defined from `%s`, which is advanced at %s before `%s` is last used at %s", lid.Name, c.Src(target), c.Pos(k.Pos()), lid.Name, c.Pos(lastUse))
					}
					return true
				})
			}
			if bad == "" {
				r.OK("E11.derived-before-update", key, c.Pos(as.Pos()), lid.Name)
			} else {
				r.Fail("E11.derived-before-update", key, c.Pos(as.Pos()), bad+": the local describes the index as it was, not the position the line is laid out from")
			}
		}
	}
	r.Count("E11.per-line-derived-locals", n)
	r.Floor("E11.per-line-derived-locals", 2)
}

// E11ResetComplete: RichText.Reset empties every container the writers fill.
func E11ResetComplete(c *core.Ctx, r *core.Report) {
	r.Rule("E11.reset-complete", "RichText.Reset 'resets the rich text to its initial state'. Every slice- or map-typed field of RichText that some other method grows or stores into (append, element or key assignment) is assigned in Reset. The embedded objects are keyed by their position in the text: left in place, they replace whatever text is written at that position after the reset")
	p := c.MustPkg("")
	info := p.TypesInfo
	reset := core.MustFuncDecl(p, "RichText.Reset")
	r.Func("canvas.RichText.Reset")
	fieldOfRecv := func(fd *ast.FuncDecl, e ast.Expr) string {
		recv := recvObj(info, fd)
		for {
			switch x := core.Unparen(e).(type) {
			case *ast.IndexExpr:
				e = x.X
				continue
			case *ast.SliceExpr:
				e = x.X
				continue
			case *ast.SelectorExpr:
				if id, ok := core.Unparen(x.X).(*ast.Ident); ok && recv != nil && core.ObjOf(info, id) == recv {
					if s := info.Selections[x]; s != nil && s.Kind() == types.FieldVal {
						switch s.Obj().Type().Underlying().(type) {
						case *types.Slice, *types.Map:
							return x.Sel.Name
						}
					}
				}
			}
			return ""
		}
	}
	filled := map[string]string{}
	for _, fd := range core.AllFuncDecls(p) {
		if fd.Body == nil || core.RecvName(fd) != "RichText" || fd == reset {
			continue
		}
		ast.Inspect(fd.Body, func(m ast.Node) bool {
			as, ok := m.(*ast.AssignStmt)
			if !ok {
				return true
			}
			for _, l := range as.Lhs {
				if f := fieldOfRecv(fd, l); f != "" {
					if _, seen := filled[f]; !seen {
						filled[f] = core.FuncName(fd)
					}
				}
			}
			return true
		})
	}
	resetFields := map[string]bool{}
	ast.Inspect(reset.Body, func(m ast.Node) bool {
		if as, ok := m.(*ast.AssignStmt); ok {
			for _, l := range as.Lhs {
				if f := fieldOfRecv(reset, l); f != "" {
					resetFields[f] = true
				}
			}
		}
		return true
	})
	var names []string
	for f := range filled {
		names = append(names, f)
	}
	sort.Strings(names)
	for _, f := range names {
		key := "canvas.RichText.Reset|container field " + f + " is emptied"
		if resetFields[f] {
			r.OK("E11.reset-complete", key, c.Pos(reset.Pos()), "")
		} else {
			r.Fail("E11.reset-complete", key, c.Pos(reset.Pos()), fmt.Sprintf("the field `%s` is filled by %s but not assigned in Reset: its contents survive the reset and apply to the text written afterwards", f, filled[f]))
		}
	}
	r.Count("E11.richtext-containers", len(names))
	r.Floor("E11.richtext-containers", 3)
}

// E11NormaliseFirst: parameters that a function puts in order are not read before they are ordered.
func E11NormaliseFirst(c *core.Ctx, r *core.Report) {
	r.Rule("E11.normalise-first", "package canvas: a function that puts two of its parameters in order (`if b < a { a, b = b, a }`) depends on that order in everything that follows; no statement before the swap reads those parameters (outside the swap's own condition). ellipseLength orders its two angles because a clockwise arc arrives with θ2 < θ1; a shortcut placed before the swap that returns r·(θ2−θ1) gives clockwise circular arcs a negative length, and Path.Length, Reverse and Dash disagree")
	p := c.MustPkg("")
	info := p.TypesInfo
	n := 0
	for _, fd := range core.AllFuncDecls(p) {
		if fd.Body == nil || strings.HasSuffix(c.Fset.Position(fd.Pos()).Filename, "_test.go") {
			continue
		}
		isParam := func(o types.Object) bool {
			for _, f := range fd.Type.Params.List {
				for _, nm := range f.Names {
					if info.Defs[nm] == o {
						return true
					}
				}
			}
			return false
		}
		for si, st := range fd.Body.List {
			is, ok := st.(*ast.IfStmt)
			if !ok || is.Else != nil || len(is.Body.List) != 1 {
				continue
			}
			as, ok := is.Body.List[0].(*ast.AssignStmt)
			if !ok || as.Tok != token.ASSIGN || len(as.Lhs) != 2 || len(as.Rhs) != 2 {
				continue
			}
			l0, ok0 := as.Lhs[0].(*ast.Ident)
			l1, ok1 := as.Lhs[1].(*ast.Ident)
			r0, ok2 := as.Rhs[0].(*ast.Ident)
			r1, ok3 := as.Rhs[1].(*ast.Ident)
			if !ok0 || !ok1 || !ok2 || !ok3 {
				continue
			}
			a, b := core.ObjOf(info, l0), core.ObjOf(info, l1)
			if a == nil || b == nil || core.ObjOf(info, r0) != b || core.ObjOf(info, r1) != a || !isParam(a) || !isParam(b) {
				continue
			}
			// condition compares the two
			be, ok := core.Unparen(is.Cond).(*ast.BinaryExpr)
			if !ok || (be.Op != token.LSS && be.Op != token.GTR) {
				continue
			}
			n++
			fname := "canvas." + core.FuncName(fd)
			key := fmt.Sprintf("%s|parameters %s and %s are not read before they are put in order", fname, l0.Name, l1.Name)
			bad := token.NoPos
			for _, prev := range fd.Body.List[:si] {
				ast.Inspect(prev, func(k ast.Node) bool {
					if id, ok := k.(*ast.Ident); ok && bad == token.NoPos {
						if o := core.ObjOf(info, id); o == a || o == b {
							bad = id.Pos()
						}
					}
					return true
				})
			}
			if bad != token.NoPos {
				r.Fail("E11.normalise-first", key, c.Pos(bad), fmt.Sprintf("`%s`/`%s` are read here, before the statement at %s that swaps them into order: the value computed from them has the sign of their original order", l0.Name, l1.Name, c.Pos(is.Pos())))
			} else {
				r.OK("E11.normalise-first", key, c.Pos(is.Pos()), "")
			}
		}
	}
	r.Count("E11.parameter-swaps", n)
	r.Floor("E11.parameter-swaps", 2)
}

// E11SetterCopiesSlice: a Context setter does not keep a caller's slice in the recorded style.
func E11SetterCopiesSlice(c *core.Ctx, r *core.Report) {
	r.Rule("E11.setter-copies-slice", "canvas.go: Context.Style is copied by value into every recorded draw and into the states Push saves; a slice inside it is shared by all those copies. A Context method that stores a slice-typed parameter (including a variadic one) into the context's state therefore stores a copy (append([]T{}, p...), slices.Clone, or make + copy), never the parameter itself: otherwise the caller changing its own array afterwards rewrites the dashes of paths that are already recorded")
	p := c.MustPkg("")
	info := p.TypesInfo
	n := 0
	for _, fd := range core.AllFuncDecls(p) {
		if fd.Body == nil || core.RecvName(fd) != "Context" {
			continue
		}
		recv := recvObj(info, fd)
		sliceParams := map[types.Object]bool{}
		for _, f := range fd.Type.Params.List {
			for _, nm := range f.Names {
				if o := info.Defs[nm]; o != nil {
					if _, ok := o.Type().Underlying().(*types.Slice); ok {
						sliceParams[o] = true
					}
				}
			}
		}
		if len(sliceParams) == 0 {
			continue
		}
		ast.Inspect(fd.Body, func(m ast.Node) bool {
			as, ok := m.(*ast.AssignStmt)
			if !ok || len(as.Lhs) != len(as.Rhs) {
				return true
			}
			for i, l := range as.Lhs {
				root := core.RootIdent(l)
				if root == nil || core.ObjOf(info, root) != recv {
					continue
				}
				if _, isSlice := info.TypeOf(l).Underlying().(*types.Slice); !isSlice {
					continue
				}
				n++
				key := fmt.Sprintf("canvas.%s|slice stored into the context state is a copy", core.FuncName(fd))
				if id, ok := core.Unparen(as.Rhs[i]).(*ast.Ident); ok && sliceParams[core.ObjOf(info, id)] {
					r.Fail("E11.setter-copies-slice", key, c.Pos(as.Pos()), fmt.Sprintf("`%s` stores the caller's slice `%s` itself: every recorded draw and saved state shares its backing array with the caller", c.Src(as), id.Name))
				} else {
					r.OK("E11.setter-copies-slice", key, c.Pos(as.Pos()), "")
				}
			}
			return true
		})
	}
	r.Count("E11.context-slice-stores", n)
	r.Floor("E11.context-slice-stores", 1)
}

// E11StrokeBeforeView: the rasterizer strokes in the path's own frame.
func E11StrokeBeforeView(c *core.Ctx, r *core.Report) {
	r.Rule("E11.stroke-before-view", "rasterizer.RenderPath: stroke width, caps, joins and dash lengths are defined in the path's own coordinates, so the outline is computed first and the view applied to the outline. No value that reaches the receiver of Dash or Stroke comes from a Transform with the view matrix, unless the branch is guarded by a test that the matrix is a translation or rigid (IsTranslation / IsRigid), for which the two orders agree. `max(|sx|,|sy|) == 1` is not such a test: under Scale(1, 0.5) the squashed path would be stroked at full width")
	p := c.MustPkg("renderers/rasterizer")
	info := p.TypesInfo
	fd := core.MustFuncDecl(p, "Rasterizer.RenderPath")
	r.Func("rasterizer.Rasterizer.RenderPath")
	var mObj types.Object
	for _, f := range fd.Type.Params.List {
		for _, nm := range f.Names {
			if o := info.Defs[nm]; o != nil && strings.HasSuffix(o.Type().String(), "canvas.Matrix") {
				mObj = o
			}
		}
	}
	n := 0
	var stack []ast.Node
	type assign struct {
		obj     types.Object
		pos     token.Pos
		guarded bool
		src     string
	}
	var transformed []assign
	ast.Inspect(fd.Body, func(m ast.Node) bool {
		if m == nil {
			stack = stack[:len(stack)-1]
			return true
		}
		stack = append(stack, m)
		as, ok := m.(*ast.AssignStmt)
		if !ok || len(as.Lhs) != len(as.Rhs) {
			return true
		}
		for i, l := range as.Lhs {
			id, ok := l.(*ast.Ident)
			if !ok {
				continue
			}
			hasT := false
			ast.Inspect(as.Rhs[i], func(k ast.Node) bool {
				if call, ok := k.(*ast.CallExpr); ok {
					if se, ok := call.Fun.(*ast.SelectorExpr); ok && se.Sel.Name == "Transform" && len(call.Args) == 1 {
						if aid, ok := core.Unparen(call.Args[0]).(*ast.Ident); ok && core.ObjOf(info, aid) == mObj {
							hasT = true
						}
					}
				}
				return true
			})
			if !hasT {
				continue
			}
			guarded := false
			for k := len(stack) - 2; k >= 0; k-- {
				if is, ok := stack[k].(*ast.IfStmt); ok && is.Body.Pos() <= as.Pos() && as.End() <= is.Body.End() {
					ast.Inspect(is.Cond, func(q ast.Node) bool {
						if call, ok := q.(*ast.CallExpr); ok {
							if se, ok := call.Fun.(*ast.SelectorExpr); ok && (se.Sel.Name == "IsTranslation" || se.Sel.Name == "IsRigid") {
								if rid, ok := core.Unparen(se.X).(*ast.Ident); ok && core.ObjOf(info, rid) == mObj {
									guarded = true
								}
							}
						}
						return true
					})
				}
			}
			transformed = append(transformed, assign{core.ObjOf(info, id), as.Pos(), guarded, c.Src(as)})
		}
		return true
	})
	ast.Inspect(fd.Body, func(m ast.Node) bool {
		call, ok := m.(*ast.CallExpr)
		if !ok {
			return true
		}
		se, ok := call.Fun.(*ast.SelectorExpr)
		if !ok || (se.Sel.Name != "Stroke" && se.Sel.Name != "Dash") {
			return true
		}
		rid, ok := core.Unparen(se.X).(*ast.Ident)
		if !ok {
			return true
		}
		n++
		key := fmt.Sprintf("rasterizer.Rasterizer.RenderPath|%s call #%d works on the untransformed path", se.Sel.Name, n)
		bad := ""
		for _, t := range transformed {
			if t.obj == core.ObjOf(info, rid) && t.pos < call.Pos() && !t.guarded {
				bad = t.src
			}
		}
		if bad == "" {
			r.OK("E11.stroke-before-view", key, c.Pos(call.Pos()), "")
		} else {
			r.Fail("E11.stroke-before-view", key, c.Pos(call.Pos()), fmt.Sprintf("`%s` puts a path that was already transformed by the view into the receiver of %s, without a guard that the view is a translation or rigid: width, caps, joins and dash lengths are then applied in view coordinates", bad, se.Sel.Name))
		}
		return true
	})
	r.Count("E11.rasterizer-stroke-calls", n)
	r.Floor("E11.rasterizer-stroke-calls", 2)
}

// E11WordListMatch: the `~=` attribute selector looks at every word of the list.
func E11WordListMatch(c *core.Ctx, r *core.Report) {
	r.Rule("E11.word-list-match", "cssAttrSelector.AppliesTo, operator `~` (what a `.class` selector compiles to): the attribute value is a white-space separated list and the selector matches if *any* word equals the wanted one. The case therefore iterates: it ranges over the words (strings.Split/Fields) or searches repeatedly in a loop. A single strings.Index inspects only the first occurrence of the name; if that occurrence is part of a longer word (`class=\"mark-thin mark\"`) the real word further on is never seen and the rule's paint is not applied")
	p := c.MustPkg("")
	info := p.TypesInfo
	fd := core.MustFuncDecl(p, "cssAttrSelector.AppliesTo")
	r.Func("canvas.cssAttrSelector.AppliesTo")
	key := "canvas.cssAttrSelector.AppliesTo|case '~' examines every word"
	var clause *ast.CaseClause
	ast.Inspect(fd.Body, func(m ast.Node) bool {
		cc, ok := m.(*ast.CaseClause)
		if !ok {
			return true
		}
		for _, e := range cc.List {
			if v, ok := core.ConstInt(info, e); ok && v == '~' {
				clause = cc
			}
		}
		return true
	})
	if clause == nil {
		r.Fail("E11.word-list-match", key, c.Pos(fd.Pos()), "the case for the `~` operator was not found")
		return
	}
	loops := false
	for _, st := range clause.Body {
		ast.Inspect(st, func(k ast.Node) bool {
			switch k.(type) {
			case *ast.RangeStmt, *ast.ForStmt:
				loops = true
			}
			return true
		})
	}
	if loops {
		r.OK("E11.word-list-match", key, c.Pos(clause.Pos()), "")
	} else {
		r.Fail("E11.word-list-match", key, c.Pos(clause.Pos()), "the case contains no loop: only one position of the attribute value is examined, so a word that also occurs as part of an earlier, longer word is not found")
	}
	r.Count("E11.word-list-cases", 1)
	r.Floor("E11.word-list-cases", 1)
}

// cpsMustHit enumerates the paths through stmts (if/else trees, nested blocks, early
// continue/break/return) and reports whether every path that reaches the end of the list or
// leaves through continue executes a statement accepted by hit. A return ends the path without an
// obligation. The second result is the statement after which the first offending path leaves.
func cpsMustHit(stmts []ast.Stmt, hit func(ast.Stmt) bool) (bool, ast.Node) {
	return cpsMustHitOpt(stmts, hit, false)
}

// cpsMustHitOpt is cpsMustHit; with breakEnds a `break` leaves the statement list under the same
// obligation as `continue` (the list is the body of a switch case).
func cpsMustHitOpt(stmts []ast.Stmt, hit func(ast.Stmt) bool, breakEnds bool) (bool, ast.Node) {
	return cpsMustHitExcuse(stmts, hit, breakEnds, nil)
}

// cpsMustHitExcuse additionally discharges the obligation on the paths through the body of an if
// statement accepted by excuse.
func cpsMustHitExcuse(stmts []ast.Stmt, hit func(ast.Stmt) bool, breakEnds bool, excuse func(*ast.IfStmt) bool) (bool, ast.Node) {
	var bad ast.Node
	failed := false
	var walk func(stmts []ast.Stmt, done bool, last ast.Node, k func(bool, ast.Node))
	walk = func(stmts []ast.Stmt, done bool, last ast.Node, k func(bool, ast.Node)) {
		if failed {
			return
		}
		if len(stmts) == 0 {
			k(done, last)
			return
		}
		st, rest := stmts[0], stmts[1:]
		next := func(d bool, l ast.Node) { walk(rest, d, l, k) }
		switch x := st.(type) {
		case *ast.BranchStmt:
			if !done && (x.Tok == token.CONTINUE || breakEnds && x.Tok == token.BREAK && x.Label == nil) {
				failed, bad = true, x
			}
			return
		case *ast.ReturnStmt:
			return
		case *ast.BlockStmt:
			walk(x.List, done, last, next)
			return
		case *ast.IfStmt:
			walk(x.Body.List, done || excuse != nil && excuse(x), x, next)
			switch e := x.Else.(type) {
			case nil:
				next(done, x)
			case *ast.BlockStmt:
				walk(e.List, done, x, next)
			case *ast.IfStmt:
				walk([]ast.Stmt{e}, done, x, next)
			}
			return
		}
		walk(rest, done || hit(st), st, k)
	}
	walk(stmts, false, nil, func(done bool, last ast.Node) {
		if !done && !failed {
			failed, bad = true, last
		}
	})
	return !failed, bad
}

// runGuardedByCode reports whether every `length++` of the loop sits under a condition with a
// conjunct `f(key) == g(length)`: an equality between an expression of the loop's key and one of
// the run length.
func runGuardedByCode(info *types.Info, rs *ast.RangeStmt, length types.Object) bool {
	keyID, _ := rs.Key.(*ast.Ident)
	if keyID == nil {
		return false
	}
	keyObj := core.ObjOf(info, keyID)
	mentions := func(e ast.Expr, o types.Object) bool {
		found := false
		ast.Inspect(e, func(k ast.Node) bool {
			if id, ok := k.(*ast.Ident); ok && core.ObjOf(info, id) == o {
				found = true
			}
			return true
		})
		return found
	}
	var conj func(e ast.Expr, out *[]ast.Expr)
	conj = func(e ast.Expr, out *[]ast.Expr) {
		if be, ok := core.Unparen(e).(*ast.BinaryExpr); ok && be.Op == token.LAND {
			conj(be.X, out)
			conj(be.Y, out)
			return
		}
		*out = append(*out, core.Unparen(e))
	}
	all, any := true, false
	var visit func(n ast.Node, guarded bool)
	visit = func(n ast.Node, guarded bool) {
		switch x := n.(type) {
		case *ast.IfStmt:
			g := guarded
			var cs []ast.Expr
			conj(x.Cond, &cs)
			for _, e := range cs {
				if be, ok := e.(*ast.BinaryExpr); ok && be.Op == token.EQL {
					if mentions(be.X, keyObj) && mentions(be.Y, length) || mentions(be.Y, keyObj) && mentions(be.X, length) {
						g = true
					}
				}
			}
			visit(x.Body, g)
			if x.Else != nil {
				visit(x.Else, guarded)
			}
		case *ast.BlockStmt:
			for _, st := range x.List {
				visit(st, guarded)
			}
		case *ast.IncDecStmt:
			if id, ok := x.X.(*ast.Ident); ok && core.ObjOf(info, id) == length {
				any = true
				if !guarded {
					all = false
				}
			}
		}
	}
	visit(rs.Body, false)
	return any && all
}

// E11RunCoversCodes: the run-length loops of the PDF font writer.
func E11RunCoversCodes(c *core.Ctx, r *core.Report) {
	r.Rule("E11.run-covers-codes", "pdfWriter.writeFont groups the ToUnicode map into runs (start code, start character, length). A run stands for the codes start … start+length-1, and the loop visits the codes in order, so a run is sound only while `start+length` is the code being visited: every path through one iteration therefore either extends the run (`length++`) or closes it and starts a new one at the visited code (`length = 1`) — unless the extension itself is guarded by the equality of the visited code and start+length, in which case skipped iterations merely close the run. An iteration that leaves through `continue` without doing either (say, to skip glyphs without a character) lets the code run ahead of the run; the next extension then claims a code that belongs to the skipped glyph, and the real glyph's code is left without a character")
	p := c.MustPkg("renderers/pdf")
	info := p.TypesInfo
	fd := core.MustFuncDecl(p, "pdfWriter.writeFont")
	r.Func("renderers/pdf.pdfWriter.writeFont")
	n := 0
	ast.Inspect(fd.Body, func(m ast.Node) bool {
		rs, ok := m.(*ast.RangeStmt)
		if !ok {
			return true
		}
		// run-length variables: integer locals declared outside the loop, with `v++` and `v = 1` inside
		inc, reset := map[types.Object]bool{}, map[types.Object]bool{}
		ast.Inspect(rs.Body, func(k ast.Node) bool {
			switch x := k.(type) {
			case *ast.IncDecStmt:
				if id, ok := x.X.(*ast.Ident); ok && x.Tok == token.INC {
					if o := core.ObjOf(info, id); o != nil && (o.Pos() < rs.Pos() || o.Pos() > rs.End()) {
						inc[o] = true
					}
				}
			case *ast.AssignStmt:
				if x.Tok == token.ASSIGN && len(x.Lhs) == 1 && len(x.Rhs) == 1 {
					if id, ok := x.Lhs[0].(*ast.Ident); ok {
						if v, ok := core.ConstInt(info, x.Rhs[0]); ok && v == 1 {
							if o := core.ObjOf(info, id); o != nil && (o.Pos() < rs.Pos() || o.Pos() > rs.End()) {
								reset[o] = true
							}
						}
					}
				}
			}
			return true
		})
		for o := range inc {
			if !reset[o] {
				continue
			}
			n++
			key := "renderers/pdf.pdfWriter.writeFont|run length " + o.Name() + " updated on every iteration"
			ok, bad := cpsMustHit(rs.Body.List, func(st ast.Stmt) bool {
				switch x := st.(type) {
				case *ast.IncDecStmt:
					id, ok := x.X.(*ast.Ident)
					return ok && core.ObjOf(info, id) == o
				case *ast.AssignStmt:
					for _, l := range x.Lhs {
						if id, ok := l.(*ast.Ident); ok && core.ObjOf(info, id) == o {
							return true
						}
					}
				}
				return false
			})
			if !ok && runGuardedByCode(info, rs, o) {
				// iterations may be skipped: the extension itself tests that the visited code is start+length
				ok = true
			}
			if ok {
				r.OK("E11.run-covers-codes", key, c.Pos(rs.Pos()), "")
			} else {
				pos := rs.Pos()
				if bad != nil {
					pos = bad.Pos()
				}
				r.Fail("E11.run-covers-codes", key, c.Pos(pos), "an iteration can end without extending or restarting the run: the visited code runs ahead of start+"+o.Name()+", so a later extension maps a code of a skipped glyph and leaves the real glyph's code unmapped")
			}
		}
		return true
	})
	r.Count("E11.run-length-loops", n)
	r.Floor("E11.run-length-loops", 1)
}

// E11SelectorHash: the id selector arrives from the CSS lexer as one hash token.
func E11SelectorHash(c *core.Ctx, r *core.Report) {
	r.Rule("E11.selector-hash", "producer/consumer agreement between the CSS lexer of the pinned dependency and svgParser.parseStyle: css.Lexer.Next returns HashToken for `#name` (decided on the lexer's source: a return statement of Next yields the constant), so an id selector never reaches the selector loop as the delimiter `#` followed by an identifier. The loop therefore has a branch on TokenType == css.HashToken that adds the attribute selector id = name with the leading `#` cut off. Without it the compound stays universal and `#a{fill:red}` paints every element")
	p := c.MustPkg("")
	info := p.TypesInfo
	var cssPkg *packages.Package
	for path, ip := range p.Imports {
		if strings.HasSuffix(path, "/parse/v2/css") {
			cssPkg = ip
		}
	}
	if cssPkg == nil || len(cssPkg.Syntax) == 0 {
		panic(core.Infra("the css package of tdewolff/parse is not loaded with syntax"))
	}
	hash := cssPkg.Types.Scope().Lookup("HashToken")
	if hash == nil {
		panic(core.Infra("css.HashToken not found"))
	}
	// producer
	emits := false
	for _, fd := range core.AllFuncDecls(cssPkg) {
		if fd.Name.Name != "Next" || fd.Recv == nil {
			continue
		}
		ast.Inspect(fd.Body, func(m ast.Node) bool {
			if ret, ok := m.(*ast.ReturnStmt); ok && len(ret.Results) > 0 {
				if id, ok := core.Unparen(ret.Results[0]).(*ast.Ident); ok && cssPkg.TypesInfo.Uses[id] == hash {
					emits = true
				}
			}
			return true
		})
	}
	key := "css.Lexer.Next|returns HashToken"
	if emits {
		r.OK("E11.selector-hash", key, "dependency", "")
	} else {
		r.Fail("E11.selector-hash", key, "dependency", "no return of HashToken found in the lexer's Next: the premise of the rule does not hold for this version of the dependency")
		return
	}
	// consumer
	fd := core.MustFuncDecl(p, "svgParser.parseStyle")
	r.Func("canvas.svgParser.parseStyle")
	key = "canvas.svgParser.parseStyle|hash token becomes an id selector"
	mentionsHash := func(e ast.Expr) bool {
		found := false
		ast.Inspect(e, func(m ast.Node) bool {
			switch x := m.(type) {
			case *ast.SelectorExpr:
				if info.Uses[x.Sel] == hash {
					found = true
				}
			case *ast.Ident:
				if info.Uses[x] == hash {
					found = true
				}
			}
			return true
		})
		return found
	}
	// an id selector literal: cssAttrSelector{…attr: "id"…} whose val cuts off the first byte
	idSelector := func(n ast.Node) (found, cut bool) {
		ast.Inspect(n, func(m ast.Node) bool {
			cl, ok := m.(*ast.CompositeLit)
			if !ok {
				return true
			}
			if t := info.TypeOf(cl); t == nil || !strings.HasSuffix(t.String(), "cssAttrSelector") {
				return true
			}
			isID := false
			var val ast.Expr
			for _, el := range cl.Elts {
				kv, ok := el.(*ast.KeyValueExpr)
				if !ok {
					continue
				}
				k, _ := kv.Key.(*ast.Ident)
				if k == nil {
					continue
				}
				if tv, ok := info.Types[kv.Value]; ok && tv.Value != nil && k.Name == "attr" && tv.Value.ExactString() == `"id"` {
					isID = true
				}
				if k.Name == "val" {
					val = kv.Value
				}
			}
			if !isID {
				return true
			}
			found = true
			if val != nil {
				ast.Inspect(val, func(k ast.Node) bool {
					switch x := k.(type) {
					case *ast.SliceExpr:
						if v, ok := core.ConstInt(info, x.Low); x.Low != nil && ok && v == 1 {
							cut = true
						}
					case *ast.CallExpr:
						if f := core.CalleeOf(info, x); f != nil && (f.Name() == "TrimPrefix" || f.Name() == "TrimLeft") {
							cut = true
						}
					}
					return true
				})
			}
			return true
		})
		return
	}
	state := 0 // 1: branch found, 2: with id selector, 3: with the '#' cut off
	var at token.Pos = fd.Pos()
	ast.Inspect(fd.Body, func(m ast.Node) bool {
		var body ast.Node
		switch x := m.(type) {
		case *ast.IfStmt:
			if mentionsHash(x.Cond) {
				body = x.Body
			}
		case *ast.CaseClause:
			for _, e := range x.List {
				if mentionsHash(e) {
					body = x
				}
			}
		}
		if body == nil {
			return true
		}
		s := 1
		if f, cut := idSelector(body); f {
			s = 2
			if cut {
				s = 3
			}
		}
		if s > state {
			state, at = s, m.Pos()
		}
		return true
	})
	switch state {
	case 3:
		r.OK("E11.selector-hash", key, c.Pos(at), "")
	case 2:
		r.Fail("E11.selector-hash", key, c.Pos(at), "the id selector built from the hash token keeps the leading `#` in its value: it is compared with the id attribute and never matches")
	case 1:
		r.Fail("E11.selector-hash", key, c.Pos(at), "the branch on css.HashToken adds no id attribute selector")
	default:
		r.Fail("E11.selector-hash", key, c.Pos(at), "the selector loop has no branch on css.HashToken: the lexer delivers `#name` as one hash token (never as the delimiter `#` plus an identifier), the compound selector stays universal and a rule `#a{…}` is applied to every element")
	}
	r.Count("E11.selector-hash-consumers", 1)
	r.Floor("E11.selector-hash-consumers", 1)
}

// E11ImplicitCommand: the command ParseSVGPath remembers for further coordinate sets.
func E11ImplicitCommand(c *core.Ctx, r *core.Report) {
	r.Rule("E11.implicit-command", "ParseSVGPath: coordinate sets that follow a command without a new letter repeat that command, except that after a moveto they are linetos — relative ones after `m`, absolute ones after `M` (SVG 1.1 §8.3.2). Each case of the command switch is walked once per letter of its label with the conditions on the command variable decided for that letter; at the end of every path the command variable holds the letter itself, or `L` for `M` and `l` for `m`. Remembering `L` after `m` reads `m10 10 5 0` as a line to the absolute point (5,0)")
	p := c.MustPkg("")
	info := p.TypesInfo
	fd := core.MustFuncDecl(p, "ParseSVGPath")
	r.Func("canvas.ParseSVGPath")
	var sw *ast.SwitchStmt
	var cmdObj types.Object
	ast.Inspect(fd.Body, func(n ast.Node) bool {
		s, ok := n.(*ast.SwitchStmt)
		if !ok || s.Tag == nil {
			return true
		}
		letters := 0
		for _, cs := range s.Body.List {
			for _, e := range cs.(*ast.CaseClause).List {
				if v, ok := core.ConstInt(info, e); ok && (v >= 'A' && v <= 'Z' || v >= 'a' && v <= 'z') {
					letters++
				}
			}
		}
		if id, ok := core.Unparen(s.Tag).(*ast.Ident); ok && letters >= 10 && sw == nil {
			sw, cmdObj = s, core.ObjOf(info, id)
		}
		return true
	})
	if sw == nil || cmdObj == nil {
		panic(core.Infra("E11.implicit-command: the command switch of ParseSVGPath was not found"))
	}
	n := 0
	for _, cs := range sw.Body.List {
		cc := cs.(*ast.CaseClause)
		for _, e := range cc.List {
			v, ok := core.ConstInt(info, e)
			if !ok || !(v >= 'A' && v <= 'Z' || v >= 'a' && v <= 'z') {
				continue
			}
			letter := rune(v)
			want := letter
			switch letter {
			case 'M':
				want = 'L'
			case 'm':
				want = 'l'
			}
			n++
			key := fmt.Sprintf("canvas.ParseSVGPath|command remembered after `%c`", letter)
			// walk all paths; cur < 0: not a known constant
			type result struct {
				cur rune
				pos token.Pos
			}
			var finals []result
			var walk func(stmts []ast.Stmt, cur rune, pos token.Pos, k func(rune, token.Pos))
			walk = func(stmts []ast.Stmt, cur rune, pos token.Pos, k func(rune, token.Pos)) {
				if len(stmts) == 0 {
					k(cur, pos)
					return
				}
				st, rest := stmts[0], stmts[1:]
				next := func(cu rune, po token.Pos) { walk(rest, cu, po, k) }
				env := func(x ast.Expr) tri {
					be, ok := x.(*ast.BinaryExpr)
					if !ok || (be.Op != token.EQL && be.Op != token.NEQ) || cur < 0 {
						return tUnknown
					}
					var other ast.Expr
					if id, ok := core.Unparen(be.X).(*ast.Ident); ok && core.ObjOf(info, id) == cmdObj {
						other = be.Y
					} else if id, ok := core.Unparen(be.Y).(*ast.Ident); ok && core.ObjOf(info, id) == cmdObj {
						other = be.X
					}
					if other == nil {
						return tUnknown
					}
					if v, ok := core.ConstInt(info, other); ok {
						return triOf((rune(v) == cur) == (be.Op == token.EQL))
					}
					return tUnknown
				}
				switch x := st.(type) {
				case *ast.ReturnStmt:
					return
				case *ast.BranchStmt:
					if x.Tok == token.BREAK || x.Tok == token.CONTINUE {
						finals = append(finals, result{cur, pos})
					}
					return
				case *ast.BlockStmt:
					walk(x.List, cur, pos, next)
					return
				case *ast.IfStmt:
					t := evalBool(info, x.Cond, env)
					if t != tFalse {
						walk(x.Body.List, cur, pos, next)
					}
					if t != tTrue {
						switch el := x.Else.(type) {
						case nil:
							next(cur, pos)
						case *ast.BlockStmt:
							walk(el.List, cur, pos, next)
						case *ast.IfStmt:
							walk([]ast.Stmt{el}, cur, pos, next)
						}
					}
					return
				case *ast.AssignStmt:
					for i, l := range x.Lhs {
						if id, ok := l.(*ast.Ident); ok && core.ObjOf(info, id) == cmdObj {
							cur = -1
							if x.Tok == token.ASSIGN && len(x.Rhs) == len(x.Lhs) {
								if v, ok := core.ConstInt(info, x.Rhs[i]); ok {
									cur = rune(v)
								}
							}
							pos = x.Pos()
						}
					}
				}
				walk(rest, cur, pos, k)
			}
			walk(cc.Body, letter, cc.Pos(), func(cu rune, po token.Pos) { finals = append(finals, result{cu, po}) })
			bad := false
			for _, f := range finals {
				if f.cur == want {
					continue
				}
				bad = true
				got := "a value that is not a constant"
				if f.cur >= 0 {
					got = fmt.Sprintf("`%c`", f.cur)
				}
				r.Fail("E11.implicit-command", key, c.Pos(f.pos), fmt.Sprintf("after `%c` the command remembered for further coordinate sets is %s, want `%c`: the following numbers are read with the wrong command or the wrong relativity", letter, got, want))
				break
			}
			if !bad {
				r.OK("E11.implicit-command", key, c.Pos(cc.Pos()), fmt.Sprintf("%d path(s)", len(finals)))
			}
		}
	}
	r.Count("E11.implicit-command-letters", n)
	r.Floor("E11.implicit-command-letters", 20)
}

// E11RemapIffSplit: the second root of xmonotoneCubicBezier is re-mapped exactly when the curve was cut at the first.
func E11RemapIffSplit(c *core.Ctx, r *core.Report) {
	r.Rule("E11.remap-iff-split", "xmonotoneCubicBezier cuts a cubic at the roots t1 ≤ t2 of x'(t). After a cut at t1 the control points are replaced by those of the remainder, on which the second root has the parameter (t2−t1)/(1−t1); without that cut the curve is still the whole one and t2 is used as it is. The re-mapping statement is therefore guarded by exactly the event `the control points were replaced`: a flag that starts false and is raised only in the block that replaces them, or the same condition as that block. A guard that merely compares the roots (t1 < t2 holds also for a root t1 < 0 that caused no cut) re-maps t2 on the whole curve and the cut misses the x-extreme: a piece of XMonotone's result is not x-monotone")
	p := c.MustPkg("")
	info := p.TypesInfo
	fd := core.MustFuncDecl(p, "xmonotoneCubicBezier")
	r.Func("canvas.xmonotoneCubicBezier")
	key := "canvas.xmonotoneCubicBezier|second root re-mapped iff the curve was cut at the first"
	params := map[types.Object]bool{}
	for _, f := range fd.Type.Params.List {
		for _, nm := range f.Names {
			params[info.Defs[nm]] = true
		}
	}
	// the block that replaces the control points by results of a split call
	var cutIf *ast.IfStmt
	var cutParam types.Object
	for _, st := range fd.Body.List {
		is, ok := st.(*ast.IfStmt)
		if !ok || cutIf != nil {
			continue
		}
		splitRes := map[types.Object]bool{}
		var tArg types.Object
		replaced := false
		for _, s := range is.Body.List {
			as, ok := s.(*ast.AssignStmt)
			if !ok {
				continue
			}
			if len(as.Rhs) == 1 {
				if call, ok := core.Unparen(as.Rhs[0]).(*ast.CallExpr); ok {
					if f := core.CalleeOf(info, call); f != nil && strings.HasSuffix(f.Name(), "BezierSplit") && len(call.Args) > 0 {
						for _, l := range as.Lhs {
							if id, ok := l.(*ast.Ident); ok && id.Name != "_" {
								splitRes[core.ObjOf(info, id)] = true
							}
						}
						if id, ok := core.Unparen(call.Args[len(call.Args)-1]).(*ast.Ident); ok {
							tArg = core.ObjOf(info, id)
						}
						continue
					}
				}
			}
			if len(as.Lhs) == len(as.Rhs) && len(as.Lhs) >= 3 {
				all := true
				for i := range as.Lhs {
					l, ok1 := as.Lhs[i].(*ast.Ident)
					rr, ok2 := core.Unparen(as.Rhs[i]).(*ast.Ident)
					if !ok1 || !ok2 || !params[core.ObjOf(info, l)] || !splitRes[core.ObjOf(info, rr)] {
						all = false
					}
				}
				if all {
					replaced = true
				}
			}
		}
		if replaced && tArg != nil {
			cutIf, cutParam = is, tArg
		}
	}
	if cutIf == nil {
		r.Fail("E11.remap-iff-split", key, c.Pos(fd.Pos()), "the block that cuts at the first root and replaces the control points by the remainder was not found")
		return
	}
	// the re-mapping: X = (X - t1) / (1 - t1)
	mentions := func(e ast.Expr, o types.Object) bool {
		f := false
		ast.Inspect(e, func(k ast.Node) bool {
			if id, ok := k.(*ast.Ident); ok && core.ObjOf(info, id) == o {
				f = true
			}
			return true
		})
		return f
	}
	var remap *ast.AssignStmt
	var path []ast.Node
	var stack []ast.Node
	ast.Inspect(fd.Body, func(n ast.Node) bool {
		if n == nil {
			stack = stack[:len(stack)-1]
			return true
		}
		stack = append(stack, n)
		as, ok := n.(*ast.AssignStmt)
		if !ok || len(as.Lhs) != 1 || len(as.Rhs) != 1 || as.Pos() < cutIf.End() {
			return true
		}
		id, ok := as.Lhs[0].(*ast.Ident)
		if !ok {
			return true
		}
		x := core.ObjOf(info, id)
		be, ok := core.Unparen(as.Rhs[0]).(*ast.BinaryExpr)
		if !ok || be.Op != token.QUO || x == cutParam {
			return true
		}
		num, ok1 := core.Unparen(be.X).(*ast.BinaryExpr)
		den, ok2 := core.Unparen(be.Y).(*ast.BinaryExpr)
		if ok1 && ok2 && num.Op == token.SUB && den.Op == token.SUB && mentions(num.X, x) && mentions(num.Y, cutParam) && mentions(den.Y, cutParam) {
			remap = as
			path = append([]ast.Node{}, stack...)
		}
		return true
	})
	if remap == nil {
		r.Fail("E11.remap-iff-split", key, c.Pos(cutIf.Pos()), "after the cut at the first root no statement re-maps the second root onto the remainder ((t2−t1)/(1−t1)): the second cut is made at the parameter of the whole curve")
		return
	}
	// guards of the re-mapping
	condStr := types.ExprString(cutIf.Cond)
	okGuard, why := false, ""
	for i := len(path) - 2; i >= 0 && !okGuard; i-- {
		is, ok := path[i].(*ast.IfStmt)
		if !ok || !(is.Body.Pos() <= remap.Pos() && remap.End() <= is.Body.End()) {
			continue
		}
		if types.ExprString(is.Cond) == condStr {
			// the same condition: its operands must not change in between
			okGuard = true
			continue
		}
		if id, ok := core.Unparen(is.Cond).(*ast.Ident); ok {
			flag := core.ObjOf(info, id)
			// flag: starts false, raised only inside cutIf.Body
			good, seenInit, raised := true, false, false
			ast.Inspect(fd.Body, func(k ast.Node) bool {
				as, ok := k.(*ast.AssignStmt)
				if !ok {
					return true
				}
				for j, l := range as.Lhs {
					lid, ok := l.(*ast.Ident)
					if !ok || core.ObjOf(info, lid) != flag || j >= len(as.Rhs) {
						continue
					}
					v := types.ExprString(as.Rhs[j])
					inCut := cutIf.Body.Pos() <= as.Pos() && as.End() <= cutIf.Body.End()
					switch {
					case as.Tok == token.DEFINE && v == "false":
						seenInit = true
					case v == "true" && inCut:
						raised = true
					default:
						good = false
					}
				}
				return true
			})
			if good && seenInit && raised {
				okGuard = true
			} else {
				if why == "" {
					why = fmt.Sprintf("the flag `%s` is not raised exactly in the block that replaces the control points", id.Name)
				}
			}
			continue
		}
		if why == "" {
			why = fmt.Sprintf("its guard `%s` is not the event that the curve was cut at the first root (condition `%s`)", types.ExprString(is.Cond), condStr)
		}
	}
	if okGuard {
		r.OK("E11.remap-iff-split", key, c.Pos(remap.Pos()), "")
	} else {
		if why == "" {
			why = "it is not guarded at all"
		}
		r.Fail("E11.remap-iff-split", key, c.Pos(remap.Pos()), "the second root is re-mapped onto the remainder although the curve may not have been cut: "+why+"; a first root outside (0,1) then moves the second cut off the x-extreme")
	}
	r.Count("E11.remap-sites", 1)
	r.Floor("E11.remap-sites", 1)
}

// E11SignedMagnitude: orientation-signed quantities are compared by magnitude only through math.Abs.
func E11SignedMagnitude(c *core.Ctx, r *core.Report) {
	r.Rule("E11.signed-magnitude", "path_stroke.go: the joiners negate the half width for clockwise bends (`if cw { hw = -hw }`), so that every value derived from it carries the bend's orientation in its sign. Such an orientation-signed value (taint seeded by a conditional self-negation, propagated through arithmetic, removed by math.Abs, Length and squaring) takes part in an ordering comparison only as a sign test against zero, against another orientation-signed value, or inside math.Abs. Comparing it bare with a non-negative magnitude such as limit·halfWidth makes the test one-sided: for right turns the miter limit never fires and the full spike is emitted")
	p := c.MustPkg("")
	info := p.TypesInfo
	n := 0
	for _, fd := range core.AllFuncDecls(p) {
		if !strings.HasSuffix(c.Fset.Position(fd.Pos()).Filename, "path_stroke.go") {
			continue
		}
		tainted := map[types.Object]bool{}
		// does e mention a tainted variable outside a magnitude wrapper?
		var signed func(e ast.Expr) bool
		signed = func(e ast.Expr) bool {
			switch x := core.Unparen(e).(type) {
			case *ast.Ident:
				return tainted[core.ObjOf(info, x)]
			case *ast.CallExpr:
				if name, _ := core.MathFunc(info, x); name == "Abs" || name == "Hypot" {
					return false
				}
				if f := core.CalleeOf(info, x); f != nil && (f.Name() == "Length" || f.Name() == "Equals" || f.Name() == "Equal") {
					return false
				}
				if name, _ := core.MathFunc(info, x); name == "Max" || name == "Min" || name == "Copysign" {
					for _, a := range x.Args {
						if signed(a) {
							return true
						}
					}
				}
				return false
			case *ast.BinaryExpr:
				if x.Op == token.MUL && types.ExprString(x.X) == types.ExprString(x.Y) {
					return false
				}
				switch x.Op {
				case token.ADD, token.SUB, token.MUL, token.QUO:
					return signed(x.X) || signed(x.Y)
				}
				return false
			case *ast.UnaryExpr:
				return signed(x.X)
			}
			return false
		}
		// seeds
		ast.Inspect(fd.Body, func(m ast.Node) bool {
			is, ok := m.(*ast.IfStmt)
			if !ok {
				return true
			}
			for _, st := range is.Body.List {
				as, ok := st.(*ast.AssignStmt)
				if !ok || len(as.Lhs) != 1 || len(as.Rhs) != 1 || as.Tok != token.ASSIGN {
					continue
				}
				id, ok := as.Lhs[0].(*ast.Ident)
				un, ok2 := core.Unparen(as.Rhs[0]).(*ast.UnaryExpr)
				if ok && ok2 && un.Op == token.SUB {
					if rid, ok := core.Unparen(un.X).(*ast.Ident); ok && core.ObjOf(info, rid) == core.ObjOf(info, id) {
						if b, ok := info.TypeOf(id).Underlying().(*types.Basic); ok && b.Info()&types.IsFloat != 0 {
							tainted[core.ObjOf(info, id)] = true
						}
					}
				}
			}
			return true
		})
		if len(tainted) == 0 {
			continue
		}
		for changed := true; changed; {
			changed = false
			ast.Inspect(fd.Body, func(m ast.Node) bool {
				as, ok := m.(*ast.AssignStmt)
				if !ok || len(as.Lhs) != len(as.Rhs) {
					return true
				}
				for i, l := range as.Lhs {
					id, ok := l.(*ast.Ident)
					if !ok {
						continue
					}
					o := core.ObjOf(info, id)
					if o == nil || tainted[o] {
						continue
					}
					if b, ok := o.Type().Underlying().(*types.Basic); !ok || b.Info()&types.IsFloat == 0 {
						continue
					}
					if signed(as.Rhs[i]) {
						tainted[o], changed = true, true
					}
				}
				return true
			})
		}
		fname := "canvas." + core.FuncName(fd)
		ord := 0
		ast.Inspect(fd.Body, func(m ast.Node) bool {
			be, ok := m.(*ast.BinaryExpr)
			if !ok || (be.Op != token.LSS && be.Op != token.LEQ && be.Op != token.GTR && be.Op != token.GEQ) {
				return true
			}
			sx, sy := signed(be.X), signed(be.Y)
			if !sx && !sy {
				return true
			}
			ord++
			n++
			key := fmt.Sprintf("%s|ordering comparison of an orientation-signed value #%d", fname, ord)
			isZero := func(e ast.Expr) bool {
				if tv, ok := info.Types[e]; ok && tv.Value != nil {
					return numSign(tv.Value) == 0
				}
				return false
			}
			switch {
			case sx && sy:
				r.OK("E11.signed-magnitude", key, c.Pos(be.Pos()), "both sides signed")
			case isZero(be.X) || isZero(be.Y):
				r.OK("E11.signed-magnitude", key, c.Pos(be.Pos()), "sign test")
			default:
				r.Fail("E11.signed-magnitude", key, c.Pos(be.Pos()), fmt.Sprintf("`%s` compares a value whose sign is the bend's orientation with a magnitude, without math.Abs: the test can only succeed for one turn direction", types.ExprString(be)))
			}
			return true
		})
	}
	r.Count("E11.signed-comparisons", n)
	r.Floor("E11.signed-comparisons", 1)
}

// E11CutInterval: the segments of SplitAt claim the cut positions by one half-open interval convention.
func E11CutInterval(c *core.Ctx, r *core.Report) {
	r.Rule("E11.cut-interval", "Path.SplitAt hands every cut position to the segment whose length interval contains it. The loops that select the cuts of a segment (one per command case) bound `ts[j]` below by the running length T and above by T+dT; sibling agreement: all cases use the same pair of comparison operators and exactly one of the two is strict, so that the intervals of consecutive segments tile the path — a position on a junction belongs to exactly one of the two segments. If the line case takes [T, T+dT) while the curve cases take (T, T+dT], a cut on a line→curve junction is claimed by neither; the cut list then stalls there and Dash keeps the wrong pieces")
	p := c.MustPkg("")
	info := p.TypesInfo
	fd := core.MustFuncDecl(p, "Path.SplitAt")
	r.Func("canvas.Path.SplitAt")
	tsObj := paramObj(info, fd, 0)
	type site struct {
		label         string
		pos           token.Pos
		lowStrict     bool
		upStrict      bool
		hasLow, hasUp bool
	}
	var sites []site
	isCut := func(e ast.Expr) bool {
		ie, ok := core.Unparen(e).(*ast.IndexExpr)
		if !ok {
			return false
		}
		id, ok := core.Unparen(ie.X).(*ast.Ident)
		return ok && core.ObjOf(info, id) == tsObj
	}
	for _, cc := range cmdSwitchClauses(p, fd) {
		label := core.CaseLabel(info, cc)
		ord := 0
		ast.Inspect(cc, func(m ast.Node) bool {
			fs, ok := m.(*ast.ForStmt)
			if !ok || fs.Cond == nil {
				return true
			}
			s := site{pos: fs.Pos()}
			ast.Inspect(fs.Cond, func(k ast.Node) bool {
				be, ok := k.(*ast.BinaryExpr)
				if !ok {
					return true
				}
				var strict, lower bool
				switch be.Op {
				case token.LSS, token.GTR:
					strict = true
				case token.LEQ, token.GEQ:
				default:
					return true
				}
				cutLeft := isCut(be.X)
				if !cutLeft && !isCut(be.Y) {
					return true
				}
				// ts[j] on the greater side: a lower bound
				lower = (cutLeft && (be.Op == token.GTR || be.Op == token.GEQ)) || (!cutLeft && (be.Op == token.LSS || be.Op == token.LEQ))
				if lower {
					s.hasLow, s.lowStrict = true, strict
				} else {
					s.hasUp, s.upStrict = true, strict
				}
				return true
			})
			if s.hasLow && s.hasUp {
				ord++
				s.label = label
				if ord > 1 {
					s.label += fmt.Sprintf(" #%d", ord)
				}
				sites = append(sites, s)
			}
			return true
		})
	}
	// the convention of the majority
	count := map[[2]bool]int{}
	for _, s := range sites {
		count[[2]bool{s.lowStrict, s.upStrict}]++
	}
	var major [2]bool
	best := -1
	for k, v := range count {
		if v > best || (v == best && k[0] && !k[1]) {
			major, best = k, v
		}
	}
	show := func(lo, up bool) string {
		a, b := "[", "]"
		if lo {
			a = "("
		}
		if up {
			b = ")"
		}
		return a + "T, T+dT" + b
	}
	for _, s := range sites {
		key := "canvas.Path.SplitAt|" + s.label + "|interval of the cuts this segment claims"
		switch {
		case s.lowStrict == s.upStrict:
			r.Fail("E11.cut-interval", key, c.Pos(s.pos), "the segment claims "+show(s.lowStrict, s.upStrict)+": consecutive segments either both claim a cut on their junction or neither does")
		case [2]bool{s.lowStrict, s.upStrict} != major:
			r.Fail("E11.cut-interval", key, c.Pos(s.pos), "this case claims "+show(s.lowStrict, s.upStrict)+" while the other cases claim "+show(major[0], major[1])+": a cut exactly on the junction between this kind of segment and the others is claimed twice or not at all")
		default:
			r.OK("E11.cut-interval", key, c.Pos(s.pos), show(s.lowStrict, s.upStrict))
		}
	}
	r.Count("E11.cut-interval-loops", len(sites))
	r.Floor("E11.cut-interval-loops", 4)
}

// E11ReversedFrame: a segment looked at backwards has its direction turned and its curvature negated.
func E11ReversedFrame(c *core.Ctx, r *core.Report) {
	r.Rule("E11.reversed-frame", "Path.CCW compares, at the right-most vertex, the segment that arrives with the one that leaves. The arriving segment is looked at backwards from the vertex: its direction is turned by π — and the signed curvature of a curve traversed backwards is the negative of its curvature. For each segment index the two quantities are therefore taken in the same frame: the direction obtained from direction(K, t) is turned (± math.Pi or Neg) if and only if the value obtained from curvature(K, t) is negated. With only the direction reversed, a cusp where the arriving curve bends more strongly than the leaving one is classified with the opposite orientation, and Filling/Offset inherit it")
	p := c.MustPkg("")
	info := p.TypesInfo
	fd := core.MustFuncDecl(p, "Path.CCW")
	r.Func("canvas.Path.CCW")
	type frame struct {
		hasDir, hasCurv   bool
		dirRev, curvNeg   bool
		dirPos, curvPos   token.Pos
		conflictingFrames bool
	}
	frames := map[types.Object]*frame{}
	names := map[types.Object]string{}
	get := func(o types.Object) *frame {
		if frames[o] == nil {
			frames[o] = &frame{}
		}
		return frames[o]
	}
	ast.Inspect(fd.Body, func(m ast.Node) bool {
		as, ok := m.(*ast.AssignStmt)
		if !ok || len(as.Rhs) != 1 {
			return true
		}
		rhs := as.Rhs[0]
		// locate a direction/curvature call with an identifier as its first argument
		var call *ast.CallExpr
		var kind string
		neg := 0
		var find func(e ast.Expr, negs int)
		find = func(e ast.Expr, negs int) {
			switch x := core.Unparen(e).(type) {
			case *ast.CallExpr:
				if f := core.CalleeOf(info, x); f != nil && (f.Name() == "direction" || f.Name() == "curvature") && len(x.Args) >= 1 {
					if call == nil {
						call, kind, neg = x, f.Name(), negs
					}
					return
				}
				if se, ok := x.Fun.(*ast.SelectorExpr); ok {
					find(se.X, negs)
				}
				for _, a := range x.Args {
					find(a, negs)
				}
			case *ast.UnaryExpr:
				if x.Op == token.SUB {
					find(x.X, negs+1)
				} else {
					find(x.X, negs)
				}
			case *ast.BinaryExpr:
				find(x.X, negs)
				if x.Op == token.SUB {
					find(x.Y, negs+1)
				} else {
					find(x.Y, negs)
				}
			case *ast.SelectorExpr:
				find(x.X, negs)
			}
		}
		find(rhs, 0)
		if call == nil {
			return true
		}
		id, ok := core.Unparen(call.Args[0]).(*ast.Ident)
		if !ok {
			return true
		}
		o := core.ObjOf(info, id)
		names[o] = id.Name
		f := get(o)
		if kind == "direction" {
			rev := false
			ast.Inspect(rhs, func(k ast.Node) bool {
				switch x := k.(type) {
				case *ast.SelectorExpr:
					if pk, ok := x.X.(*ast.Ident); ok && pk.Name == "math" && x.Sel.Name == "Pi" {
						rev = !rev
					}
				case *ast.CallExpr:
					if fn := core.CalleeOf(info, x); fn != nil && fn.Name() == "Neg" {
						rev = !rev
					}
				}
				return true
			})
			if f.hasDir && f.dirRev != rev {
				f.conflictingFrames = true
			}
			f.hasDir, f.dirRev, f.dirPos = true, rev, as.Pos()
		} else {
			ng := neg%2 == 1
			if f.hasCurv && f.curvNeg != ng {
				f.conflictingFrames = true
			}
			f.hasCurv, f.curvNeg, f.curvPos = true, ng, as.Pos()
		}
		return true
	})
	n := 0
	var objs []types.Object
	for o := range frames {
		objs = append(objs, o)
	}
	sort.Slice(objs, func(i, j int) bool { return objs[i].Pos() < objs[j].Pos() })
	for _, o := range objs {
		f := frames[o]
		if !f.hasDir || !f.hasCurv {
			continue
		}
		n++
		role := "leaving segment"
		if f.dirRev {
			role = "arriving segment (viewed backwards)"
		}
		key := "canvas.Path.CCW|" + role + "|direction and curvature in one frame"
		switch {
		case f.conflictingFrames:
			r.Fail("E11.reversed-frame", key, c.Pos(f.dirPos), "the segment index `"+names[o]+"` is used in both frames")
		case f.dirRev != f.curvNeg:
			r.Fail("E11.reversed-frame", key, c.Pos(f.curvPos), fmt.Sprintf("direction(%s, …) is %s but curvature(%s, …) is %s: the two are compared as if measured along the same direction of travel", names[o], map[bool]string{true: "turned by π", false: "taken as it is"}[f.dirRev], names[o], map[bool]string{true: "negated", false: "taken as it is"}[f.curvNeg]))
		default:
			r.OK("E11.reversed-frame", key, c.Pos(f.dirPos), "")
		}
	}
	r.Count("E11.reversed-frame-segments", n)
	r.Floor("E11.reversed-frame-segments", 2)
}

// E11ConicFrame: the matrix of the transformed ellipse's quadratic form is the inverse of m·R(φ).
func E11ConicFrame(c *core.Ctx, r *core.Report) {
	r.Rule("E11.conic-frame", "Path.Transform, arc case: the ellipse is E = diag(1/rx², 1/ry²) in its own frame, the frame is rotated by φ and then mapped by m, so the transformed ellipse is Q = T⁻ᵀ·E·T⁻¹ with T = m·R(φ) and T⁻¹ = R(φ)⁻¹·m⁻¹. Matrices do not commute: the matrix X used in the congruence X.T().Mul(E).Mul(X) is evaluated to a word in the free group over m and R(φ) (Rotate post-multiplies — premise read off Matrix.Rotate —, Mul concatenates, Inv reverses and inverts, R(−a) = R(a)⁻¹, single-definition locals substituted, adjacent inverses cancelled) and must be exactly R(φ)⁻¹·m⁻¹. The reversed product m⁻¹·R(φ)⁻¹ is the inverse of R(φ)·m: radii and rotation come out as if m acted before the ellipse's own rotation, wrong for every rotated arc under a non-uniform scale, shear or reflection")
	p := c.MustPkg("")
	info := p.TypesInfo
	// premise: Matrix.Rotate returns receiver.Mul(…)
	rot := core.MustFuncDecl(p, "Matrix.Rotate")
	premise := false
	ast.Inspect(rot.Body, func(m ast.Node) bool {
		if ret, ok := m.(*ast.ReturnStmt); ok && len(ret.Results) == 1 {
			if call, ok := core.Unparen(ret.Results[0]).(*ast.CallExpr); ok {
				if se, ok := call.Fun.(*ast.SelectorExpr); ok && se.Sel.Name == "Mul" {
					if id, ok := core.Unparen(se.X).(*ast.Ident); ok && core.ObjOf(info, id) == recvObj(info, rot) {
						premise = true
					}
				}
			}
		}
		return true
	})
	if premise {
		r.OK("E11.conic-frame", "canvas.Matrix.Rotate|post-multiplies", c.Pos(rot.Pos()), "")
	} else {
		r.Fail("E11.conic-frame", "canvas.Matrix.Rotate|post-multiplies", c.Pos(rot.Pos()), "Matrix.Rotate is not `return m.Mul(rotation)`: the premise of the word evaluation does not hold")
		return
	}
	fd := core.MustFuncDecl(p, "Path.Transform")
	r.Func("canvas.Path.Transform")
	mObj := paramObj(info, fd, 0)
	key := "canvas.Path.Transform|the congruence matrix is the inverse of m·R(φ)"
	type gen struct {
		sym string
		exp int
	}
	var arcClause *ast.CaseClause
	for _, cc := range cmdSwitchClauses(p, fd) {
		if strings.Contains(core.CaseLabel(info, cc), "ArcToCmd") {
			arcClause = cc
		}
	}
	if arcClause == nil {
		r.Fail("E11.conic-frame", key, c.Pos(fd.Pos()), "arc case not found")
		return
	}
	// definitions: last assignment before the use site, positions compared
	type def struct {
		pos token.Pos
		rhs ast.Expr
	}
	defsOf := map[types.Object][]def{}
	ast.Inspect(arcClause, func(m ast.Node) bool {
		as, ok := m.(*ast.AssignStmt)
		if !ok || len(as.Lhs) != len(as.Rhs) {
			return true
		}
		for i, l := range as.Lhs {
			if id, ok := l.(*ast.Ident); ok {
				defsOf[core.ObjOf(info, id)] = append(defsOf[core.ObjOf(info, id)], def{as.Pos(), as.Rhs[i]})
			}
		}
		return true
	})
	undecided := ""
	var word func(e ast.Expr, at token.Pos, depth int) []gen
	word = func(e ast.Expr, at token.Pos, depth int) []gen {
		if depth > 12 {
			undecided = "definitions nest too deeply"
			return nil
		}
		switch x := core.Unparen(e).(type) {
		case *ast.Ident:
			o := core.ObjOf(info, x)
			if o == mObj {
				return []gen{{"m", 1}}
			}
			if x.Name == "Identity" {
				return nil
			}
			var last *def
			for i := range defsOf[o] {
				if d := &defsOf[o][i]; d.pos < at && (last == nil || d.pos > last.pos) {
					last = d
				}
			}
			if last != nil {
				return word(last.rhs, last.pos, depth+1)
			}
			undecided = "matrix `" + x.Name + "` has no definition in the arc case"
			return nil
		case *ast.CallExpr:
			se, ok := x.Fun.(*ast.SelectorExpr)
			if !ok {
				break
			}
			base := word(se.X, at, depth+1)
			switch se.Sel.Name {
			case "Rotate":
				if len(x.Args) == 1 {
					a := core.Unparen(x.Args[0])
					exp := 1
					// strip unary minus signs from the leading factor of a product: -a*b/c = -(a*b/c)
					var strip func(e ast.Expr) ast.Expr
					strip = func(e ast.Expr) ast.Expr {
						switch y := core.Unparen(e).(type) {
						case *ast.UnaryExpr:
							if y.Op == token.SUB {
								exp = -exp
								return strip(y.X)
							}
						case *ast.BinaryExpr:
							if y.Op == token.MUL || y.Op == token.QUO {
								return &ast.BinaryExpr{X: strip(y.X), Op: y.Op, Y: y.Y}
							}
						}
						return core.Unparen(e)
					}
					a = strip(a)
					return append(append([]gen{}, base...), gen{"R(" + squash(types.ExprString(a)) + ")", exp})
				}
			case "Inv":
				out := []gen{}
				for i := len(base) - 1; i >= 0; i-- {
					out = append(out, gen{base[i].sym, -base[i].exp})
				}
				return out
			case "Mul":
				if len(x.Args) == 1 {
					return append(append([]gen{}, base...), word(x.Args[0], at, depth+1)...)
				}
			}
			undecided = "matrix expression `" + types.ExprString(x) + "` is not built from m, Rotate, Mul and Inv"
			return nil
		}
		undecided = "matrix expression `" + types.ExprString(e) + "` is not understood"
		return nil
	}
	reduce := func(w []gen) []gen {
		out := []gen{}
		for _, g := range w {
			if n := len(out); n > 0 && out[n-1].sym == g.sym && out[n-1].exp == -g.exp {
				out = out[:n-1]
			} else {
				out = append(out, g)
			}
		}
		return out
	}
	show := func(w []gen) string {
		var parts []string
		for _, g := range w {
			s := g.sym
			if g.exp < 0 {
				s += "⁻¹"
			}
			parts = append(parts, s)
		}
		if len(parts) == 0 {
			return "I"
		}
		return strings.Join(parts, "·")
	}
	// the congruence: A.T().Mul(Q).Mul(B) with A and B the same variable
	n := 0
	ast.Inspect(arcClause, func(m ast.Node) bool {
		outer, ok := m.(*ast.CallExpr)
		if !ok || len(outer.Args) != 1 {
			return true
		}
		so, ok := outer.Fun.(*ast.SelectorExpr)
		if !ok || so.Sel.Name != "Mul" {
			return true
		}
		inner, ok := core.Unparen(so.X).(*ast.CallExpr)
		if !ok || len(inner.Args) != 1 {
			return true
		}
		si, ok := inner.Fun.(*ast.SelectorExpr)
		if !ok || si.Sel.Name != "Mul" {
			return true
		}
		tcall, ok := core.Unparen(si.X).(*ast.CallExpr)
		if !ok {
			return true
		}
		st, ok := tcall.Fun.(*ast.SelectorExpr)
		if !ok || st.Sel.Name != "T" {
			return true
		}
		if types.ExprString(st.X) != types.ExprString(outer.Args[0]) {
			return true
		}
		n++
		undecided = ""
		w := reduce(word(outer.Args[0], outer.Pos(), 0))
		okWord := len(w) == 2 && strings.HasPrefix(w[0].sym, "R(") && w[0].exp == -1 && w[1].sym == "m" && w[1].exp == -1
		switch {
		case undecided != "":
			r.Fail("E11.conic-frame", key, c.Pos(outer.Pos()), undecided)
		case okWord:
			r.OK("E11.conic-frame", key, c.Pos(outer.Pos()), show(w))
		default:
			r.Fail("E11.conic-frame", key, c.Pos(outer.Pos()), "the congruence uses X = "+show(w)+", want R(φ)⁻¹·m⁻¹ (the inverse of T = m·R(φ)): matrices do not commute, so the radii and the rotation of a rotated arc come out wrong under every m that is not a similarity")
		}
		return true
	})
	r.Count("E11.conic-congruences", n)
	r.Floor("E11.conic-congruences", 1)
}

// E11StickyFlag: a boolean that accumulates with `v = v || …` is not overwritten in between.
func E11StickyFlag(c *core.Ctx, r *core.Report) {
	r.Rule("E11.sticky-flag", "package canvas: a boolean local that is accumulated somewhere with `v = v || E` (or `E || v`) records that *any* of several steps reported something, and is consulted afterwards. Between a reset to a constant and that use, every further assignment that can follow an earlier non-constant assignment (not in the other branch of the same if/switch) is accumulating as well; a plain `v = E` in that position forgets what the earlier step reported. In bentleyOttmann the flag `has` says that addIntersections cut a segment in the snap square, after which the status must be sorted again; overwriting it with the upper neighbour's result leaves the status unsorted when only the lower neighbour was cut, and the contour builder panics")
	p := c.MustPkg("")
	info := p.TypesInfo
	n := 0
	for _, fd := range core.AllFuncDecls(p) {
		if strings.HasSuffix(c.Fset.Position(fd.Pos()).Filename, "_test.go") {
			continue
		}
		type asg struct {
			pos   token.Pos
			kind  string // const, acc, plain
			node  ast.Node
			stack []ast.Node
		}
		byVar := map[types.Object][]asg{}
		var stack []ast.Node
		ast.Inspect(fd.Body, func(m ast.Node) bool {
			if m == nil {
				stack = stack[:len(stack)-1]
				return true
			}
			stack = append(stack, m)
			as, ok := m.(*ast.AssignStmt)
			if !ok || len(as.Lhs) != len(as.Rhs) {
				return true
			}
			for i, l := range as.Lhs {
				id, ok := l.(*ast.Ident)
				if !ok {
					continue
				}
				o := core.ObjOf(info, id)
				v, ok := o.(*types.Var)
				if !ok || v.IsField() {
					continue
				}
				if b, ok := v.Type().Underlying().(*types.Basic); !ok || b.Kind() != types.Bool {
					continue
				}
				kind := "plain"
				rhs := core.Unparen(as.Rhs[i])
				if tv, ok := info.Types[rhs]; ok && tv.Value != nil {
					kind = "const"
				} else if be, ok := rhs.(*ast.BinaryExpr); ok && be.Op == token.LOR {
					var leaves func(e ast.Expr) bool
					leaves = func(e ast.Expr) bool {
						e = core.Unparen(e)
						if b2, ok := e.(*ast.BinaryExpr); ok && b2.Op == token.LOR {
							return leaves(b2.X) || leaves(b2.Y)
						}
						id2, ok := e.(*ast.Ident)
						return ok && core.ObjOf(info, id2) == o
					}
					if leaves(be) {
						kind = "acc"
					}
				}
				byVar[o] = append(byVar[o], asg{as.Pos(), kind, as, append([]ast.Node{}, stack...)})
			}
			return true
		})
		exclusive := func(a, b asg) bool {
			// lowest common ancestor
			k := 0
			for k < len(a.stack) && k < len(b.stack) && a.stack[k] == b.stack[k] {
				k++
			}
			if k == 0 || k >= len(a.stack) || k >= len(b.stack) {
				return false
			}
			switch lca := a.stack[k-1].(type) {
			case *ast.IfStmt:
				inBody := func(x asg) bool { return lca.Body == x.stack[k] }
				return inBody(a) != inBody(b)
			case *ast.BlockStmt:
				// case clauses of a switch body
				_, ca := a.stack[k].(*ast.CaseClause)
				_, cb := b.stack[k].(*ast.CaseClause)
				return ca && cb
			}
			return false
		}
		var objs []types.Object
		for o := range byVar {
			objs = append(objs, o)
		}
		sort.Slice(objs, func(i, j int) bool { return objs[i].Pos() < objs[j].Pos() })
		for _, o := range objs {
			as := byVar[o]
			hasAcc := false
			for _, a := range as {
				if a.kind == "acc" {
					hasAcc = true
				}
			}
			if !hasAcc {
				continue
			}
			sort.Slice(as, func(i, j int) bool { return as[i].pos < as[j].pos })
			n++
			key := fmt.Sprintf("canvas.%s|flag %s only accumulates between reset and use", core.FuncName(fd), o.Name())
			bad := ""
			var badPos token.Pos
			for i, a := range as {
				if a.kind != "plain" {
					continue
				}
				// an earlier non-constant assignment since the last reset that may precede it
				for j := i - 1; j >= 0; j-- {
					if as[j].kind == "const" && !exclusive(as[j], a) {
						break
					}
					if as[j].kind != "const" && !exclusive(as[j], a) {
						bad = fmt.Sprintf("`%s` overwrites the flag after it may already have been set at %s", c.Src(a.node), c.Pos(as[j].pos))
						badPos = a.pos
						break
					}
				}
				if bad != "" {
					break
				}
			}
			if bad == "" {
				r.OK("E11.sticky-flag", key, c.Pos(as[0].pos), fmt.Sprintf("%d assignments", len(as)))
			} else {
				r.Fail("E11.sticky-flag", key, c.Pos(badPos), bad+": what the earlier step reported is forgotten, although the flag is accumulated with `||` elsewhere and consulted afterwards")
			}
		}
	}
	r.Count("E11.sticky-flags", n)
	r.Floor("E11.sticky-flags", 1)
}

// E11SVGMiterLimitCarried: every limited joiner the importer installs carries the miter limit in effect.
func E11SVGMiterLimitCarried(c *core.Ctx, r *core.Report) {
	r.Rule("E11.svg-miterlimit-carried", "stroke-miterlimit is an inherited SVG property of its own: the importer keeps it in the parser state (written by the `stroke-miterlimit` case, saved and restored with the state), independent of the order in which it and stroke-linejoin arrive, and the library's own SVG writer emits it for miter *and* arcs joins. (1) Wherever svg.go hands a joiner with a limit to SetStrokeJoiner — a MiterJoiner or ArcsJoiner literal, or one of the package's predefined joiners whose initialiser is such a literal (MiterJoin, MiterClipJoin, ArcsJoin, ArcsClipJoin, which carry the fixed limit 4) — its Limit is read from a strokeMiterLimit state field. (2) The `stroke-miterlimit` case patches the limit of the joiner already installed for both kinds (a type assertion to MiterJoiner and one to ArcsJoiner, or the cases of a type switch). (3) That case stores the limit in the state at its top level with no return in front of it, so it is remembered whatever joiner is current. With the predefined joiner, `<g stroke-miterlimit=\"10\"><path stroke-linejoin=\"miter\" …/></g>` bevels corners the document asks to be mitered, and `stroke-linejoin:arcs;stroke-miterlimit:10` — what the writer emits for ArcsJoiner{BevelJoin, 10} — is read back with limit 4")
	p := c.MustPkg("")
	info := p.TypesInfo
	limited := func(t types.Type) string {
		if t == nil {
			return ""
		}
		for _, k := range []string{"MiterJoiner", "ArcsJoiner"} {
			if strings.HasSuffix(t.String(), "canvas."+k) {
				return k
			}
		}
		return ""
	}
	// package-level variables initialised with a MiterJoiner/ArcsJoiner literal
	predefined := map[types.Object]bool{}
	for _, f := range p.Syntax {
		for _, d := range f.Decls {
			gd, ok := d.(*ast.GenDecl)
			if !ok || gd.Tok != token.VAR {
				continue
			}
			for _, sp := range gd.Specs {
				vs := sp.(*ast.ValueSpec)
				for i, nm := range vs.Names {
					if i < len(vs.Values) {
						if cl, ok := core.Unparen(vs.Values[i]).(*ast.CompositeLit); ok && limited(info.TypeOf(cl)) != "" {
							predefined[info.Defs[nm]] = true
						}
					}
				}
			}
		}
	}
	n := 0
	for _, fd := range core.AllFuncDecls(p) {
		if !strings.HasSuffix(c.Fset.Position(fd.Pos()).Filename, "/svg.go") {
			continue
		}
		ord := 0
		ast.Inspect(fd.Body, func(m ast.Node) bool {
			call, ok := m.(*ast.CallExpr)
			if !ok || len(call.Args) != 1 {
				return true
			}
			if f := core.CalleeOf(info, call); f == nil || f.Name() != "SetStrokeJoiner" {
				return true
			}
			arg := core.Unparen(call.Args[0])
			var lit *ast.CompositeLit
			isPre := false
			switch x := arg.(type) {
			case *ast.CompositeLit:
				if limited(info.TypeOf(x)) != "" {
					lit = x
				}
			case *ast.Ident:
				if predefined[core.ObjOf(info, x)] {
					isPre = true
				}
			}
			if lit == nil && !isPre {
				return true // a joiner without a limit (or a local whose Limit the caller patches)
			}
			ord++
			n++
			key := fmt.Sprintf("canvas.%s|limited joiner #%d carries the state's limit", core.FuncName(fd), ord)
			if isPre {
				r.Fail("E11.svg-miterlimit-carried", key, c.Pos(call.Pos()), "the predefined joiner `"+types.ExprString(arg)+"` with its fixed limit is installed: a stroke-miterlimit set earlier (inherited from a group, from a style sheet, or earlier in the attribute list) is forgotten")
				return true
			}
			var limit ast.Expr
			for i, el := range lit.Elts {
				if kv, ok := el.(*ast.KeyValueExpr); ok {
					if k, ok := kv.Key.(*ast.Ident); ok && k.Name == "Limit" {
						limit = kv.Value
					}
				} else if i == 1 {
					limit = el
				}
			}
			if limit != nil {
				if se, ok := core.Unparen(limit).(*ast.SelectorExpr); ok && se.Sel.Name == "strokeMiterLimit" {
					r.OK("E11.svg-miterlimit-carried", key, c.Pos(call.Pos()), types.ExprString(limit))
					return true
				}
			}
			r.Fail("E11.svg-miterlimit-carried", key, c.Pos(call.Pos()), "the joiner's Limit is not read from the parser state's strokeMiterLimit")
			return true
		})
	}
	r.Count("E11.svg-miter-joiners", n)
	r.Floor("E11.svg-miter-joiners", 3)
	// (2) the stroke-miterlimit case patches both kinds of installed joiner
	set := core.MustFuncDecl(p, "svgParser.setAttribute")
	var clause *ast.CaseClause
	ast.Inspect(set.Body, func(m ast.Node) bool {
		if cc, ok := m.(*ast.CaseClause); ok {
			for _, e := range cc.List {
				if s, ok := constString(info, e); ok && s == "stroke-miterlimit" {
					clause = cc
				}
			}
		}
		return true
	})
	key := "canvas.svgParser.setAttribute|stroke-miterlimit patches the installed joiner of either kind"
	if clause == nil {
		r.Fail("E11.svg-miterlimit-carried", key, c.Pos(set.Pos()), "no case for stroke-miterlimit")
		return
	}
	patched := map[string]bool{}
	ast.Inspect(clause, func(m ast.Node) bool {
		ta, ok := m.(*ast.TypeAssertExpr)
		if !ok || ta.Type == nil {
			return true
		}
		if k := limited(info.TypeOf(ta.Type)); k != "" {
			patched[k] = true
		}
		return true
	})
	ast.Inspect(clause, func(m ast.Node) bool {
		if ts, ok := m.(*ast.TypeSwitchStmt); ok {
			for _, cs := range ts.Body.List {
				for _, e := range cs.(*ast.CaseClause).List {
					if k := limited(info.TypeOf(e)); k != "" {
						patched[k] = true
					}
				}
			}
		}
		return true
	})
	if patched["MiterJoiner"] && patched["ArcsJoiner"] {
		r.OK("E11.svg-miterlimit-carried", key, c.Pos(clause.Pos()), "")
	} else {
		var missing []string
		for _, k := range []string{"MiterJoiner", "ArcsJoiner"} {
			if !patched[k] {
				missing = append(missing, k)
			}
		}
		r.Fail("E11.svg-miterlimit-carried", key, c.Pos(clause.Pos()), "a stroke-miterlimit that arrives after stroke-linejoin does not reach an installed "+strings.Join(missing, "/")+": the SVG writer emits the join before the limit, so its own output is read back with the limit 4")
	}
	// (3) the state field is written on every path through the case: at the top level of the case body, with no
	// return in any statement in front of it
	key3 := "canvas.svgParser.setAttribute|stroke-miterlimit is remembered whatever joiner is installed"
	written, early := false, ""
	for _, st := range clause.Body {
		if as, ok := st.(*ast.AssignStmt); ok && !written {
			for _, l := range as.Lhs {
				if se, ok := l.(*ast.SelectorExpr); ok && se.Sel.Name == "strokeMiterLimit" {
					written = true
				}
			}
		}
		if written {
			break
		}
		ast.Inspect(st, func(q ast.Node) bool {
			if _, isFn := q.(*ast.FuncLit); isFn {
				return false
			}
			if rs, ok := q.(*ast.ReturnStmt); ok && early == "" {
				early = c.Pos(rs.Pos())
			}
			return true
		})
	}
	switch {
	case !written:
		r.Fail("E11.svg-miterlimit-carried", key3, c.Pos(clause.Pos()), "the case does not store the limit in the parser state's strokeMiterLimit at its top level: a limit stated while a bevel or round join is current is forgotten, and a later stroke-linejoin:miter uses a stale one")
	case early != "":
		r.Fail("E11.svg-miterlimit-carried", key3, early, "the case returns here before the limit is stored in the parser state: a limit stated while a join without a limit (bevel, round) is current is forgotten, and a later stroke-linejoin:miter uses the default 4 or a stale value")
	default:
		r.OK("E11.svg-miterlimit-carried", key3, c.Pos(clause.Pos()), "")
	}
}

// E11ArcSpanMagnitude: Path.Arc compares the angular span with π and 2π by magnitude.
func E11ArcSpanMagnitude(c *core.Ctx, r *core.Report) {
	r.Rule("E11.arc-span-magnitude", "Path.Arc accepts its two angles in either order; the direction goes into the sweep flag, and everything that depends on how far the arc turns — the large-arc flag (`span mod 2π > π`), the split of full turns (`span ≥ 2π`) — is decided on the magnitude of the difference. Every ordering comparison of Arc between a positive constant and a value that depends on both angle parameters is therefore made on a value that is non-negative by construction (math.Abs, preserved by math.Mod and by products of non-negative factors; locals resolved to their last assignment before the comparison). math.Mod keeps the sign of its dividend: with the signed difference, the large flag is never set for a clockwise arc, and ArcTo stores the short arc around the other centre")
	p := c.MustPkg("")
	info := p.TypesInfo
	fd := core.MustFuncDecl(p, "Path.Arc")
	r.Func("canvas.Path.Arc")
	var angles []types.Object
	k := 0
	for _, f := range fd.Type.Params.List {
		for _, nm := range f.Names {
			if k >= 3 {
				angles = append(angles, info.Defs[nm])
			}
			k++
		}
	}
	if len(angles) != 2 {
		panic(core.Infra("Path.Arc: the two angle parameters were not found"))
	}
	type def struct {
		pos token.Pos
		rhs ast.Expr
		tok token.Token
	}
	defs := map[types.Object][]def{}
	ast.Inspect(fd.Body, func(m ast.Node) bool {
		as, ok := m.(*ast.AssignStmt)
		if !ok || len(as.Lhs) != len(as.Rhs) {
			return true
		}
		for i, l := range as.Lhs {
			if id, ok := l.(*ast.Ident); ok {
				defs[core.ObjOf(info, id)] = append(defs[core.ObjOf(info, id)], def{as.Pos(), as.Rhs[i], as.Tok})
			}
		}
		return true
	})
	lastDef := func(o types.Object, at token.Pos) *def {
		var best *def
		for i := range defs[o] {
			if d := &defs[o][i]; d.pos < at && (best == nil || d.pos > best.pos) {
				best = d
			}
		}
		return best
	}
	var dependsOn func(e ast.Expr, at token.Pos, depth int) map[types.Object]bool
	dependsOn = func(e ast.Expr, at token.Pos, depth int) map[types.Object]bool {
		out := map[types.Object]bool{}
		if depth > 10 {
			return out
		}
		ast.Inspect(e, func(m ast.Node) bool {
			id, ok := m.(*ast.Ident)
			if !ok {
				return true
			}
			o := core.ObjOf(info, id)
			if o == angles[0] || o == angles[1] {
				out[o] = true
			}
			if d := lastDef(o, at); d != nil {
				for a := range dependsOn(d.rhs, d.pos, depth+1) {
					out[a] = true
				}
			}
			return true
		})
		return out
	}
	var nonneg func(e ast.Expr, at token.Pos, depth int) bool
	nonneg = func(e ast.Expr, at token.Pos, depth int) bool {
		if depth > 10 {
			return false
		}
		e = core.Unparen(e)
		if tv, ok := info.Types[e]; ok && tv.Value != nil {
			f, ok := constantFloat(tv.Value)
			return ok && f >= 0
		}
		switch x := e.(type) {
		case *ast.CallExpr:
			name, call := core.MathFunc(info, x)
			switch name {
			case "Abs":
				return true
			case "Mod":
				return len(call.Args) == 2 && nonneg(call.Args[0], at, depth+1)
			case "Sqrt", "Hypot":
				return true
			}
		case *ast.BinaryExpr:
			if x.Op == token.MUL || x.Op == token.QUO || x.Op == token.ADD {
				return nonneg(x.X, at, depth+1) && nonneg(x.Y, at, depth+1)
			}
		case *ast.Ident:
			if d := lastDef(core.ObjOf(info, x), at); d != nil && (d.tok == token.DEFINE || d.tok == token.ASSIGN) {
				return nonneg(d.rhs, d.pos, depth+1)
			}
		}
		return false
	}
	n := 0
	ast.Inspect(fd.Body, func(m ast.Node) bool {
		be, ok := m.(*ast.BinaryExpr)
		if !ok || (be.Op != token.LSS && be.Op != token.LEQ && be.Op != token.GTR && be.Op != token.GEQ) {
			return true
		}
		var val ast.Expr
		isPos := func(e ast.Expr) bool {
			tv, ok := info.Types[e]
			if !ok || tv.Value == nil {
				return false
			}
			f, ok := constantFloat(tv.Value)
			return ok && f > 0
		}
		switch {
		case isPos(be.Y):
			val = be.X
		case isPos(be.X):
			val = be.Y
		default:
			return true
		}
		if d := dependsOn(val, be.Pos(), 0); !d[angles[0]] || !d[angles[1]] {
			return true
		}
		n++
		key := fmt.Sprintf("canvas.Path.Arc|comparison #%d of the angular span with a positive constant", n)
		if nonneg(val, be.Pos(), 0) {
			r.OK("E11.arc-span-magnitude", key, c.Pos(be.Pos()), types.ExprString(be))
		} else {
			r.Fail("E11.arc-span-magnitude", key, c.Pos(be.Pos()), "`"+types.ExprString(be)+"` compares a value that carries the sign of the angle difference (math.Mod keeps the sign of its dividend): for clockwise arcs the comparison never holds, so arcs longer than a half turn lose their large-arc flag or full turns are not split")
		}
		return true
	})
	r.Count("E11.arc-span-comparisons", n)
	r.Floor("E11.arc-span-comparisons", 2)
}

// E11SelectorSubject: a CSS rule applies to an element only if the selector's last compound matches that element.
func E11SelectorSubject(c *core.Ctx, r *core.Report) {
	r.Rule("E11.selector-subject", "a complex selector `A B > C` selects the elements matched by its last compound C (the subject) that have the required ancestors; the element being styled is the last entry of the importer's element stack. cssSelector.AppliesTo therefore anchors at the end: the last selector node is tested against the last element — directly, `sels[len(sels)-1].AppliesTo(elems[len(elems)-1])`, or in a helper that is entered with those two indices and applies `sels[i]` to `elems[j]` (indices compared as polynomials in len(sels)/len(elems), locals resolved). A matcher that walks forward from the root and succeeds as soon as the selector is used up applies `g{fill:red}` to every descendant of a group, overriding the descendants' own presentation attributes")
	p := c.MustPkg("")
	info := p.TypesInfo
	fd := core.MustFuncDecl(p, "cssSelector.AppliesTo")
	r.Func("canvas.cssSelector.AppliesTo")
	key := "canvas.cssSelector.AppliesTo|the last compound is tested against the element itself"
	recv := recvObj(info, fd)
	elems := paramObj(info, fd, 0)
	lenSym := func(selsO, elemsO types.Object) func(ast.Expr) string {
		return func(e ast.Expr) string {
			call, ok := e.(*ast.CallExpr)
			if !ok || len(call.Args) != 1 {
				return ""
			}
			fn, ok := core.Unparen(call.Fun).(*ast.Ident)
			if !ok || fn.Name != "len" {
				return ""
			}
			id, ok := core.Unparen(call.Args[0]).(*ast.Ident)
			if !ok {
				return ""
			}
			switch core.ObjOf(info, id) {
			case selsO:
				return "S"
			case elemsO:
				return "E"
			}
			return ""
		}
	}
	isLast := func(e ast.Expr, which string, body ast.Node, selsO, elemsO types.Object) bool {
		pe, ok := polyOf(info, e, lenSym(selsO, elemsO), singleDefs(info, body))
		return ok && polyEqual(pe, poly{which: 1, "": -1})
	}
	// node-level calls X[i].AppliesTo(Y[j]) in a function body
	type site struct {
		selIdx, elemIdx ast.Expr
		selBase, elBase types.Object
	}
	sitesOf := func(body ast.Node) []site {
		var out []site
		ast.Inspect(body, func(m ast.Node) bool {
			call, ok := m.(*ast.CallExpr)
			if !ok || len(call.Args) != 1 {
				return true
			}
			se, ok := call.Fun.(*ast.SelectorExpr)
			if !ok || se.Sel.Name != "AppliesTo" {
				return true
			}
			si, ok1 := core.Unparen(se.X).(*ast.IndexExpr)
			ei, ok2 := core.Unparen(call.Args[0]).(*ast.IndexExpr)
			if !ok1 || !ok2 {
				return true
			}
			sb, ok1 := core.Unparen(si.X).(*ast.Ident)
			eb, ok2 := core.Unparen(ei.X).(*ast.Ident)
			if ok1 && ok2 {
				out = append(out, site{si.Index, ei.Index, core.ObjOf(info, sb), core.ObjOf(info, eb)})
			}
			return true
		})
		return out
	}
	found := false
	for _, s := range sitesOf(fd.Body) {
		if s.selBase == recv && s.elBase == elems && isLast(s.selIdx, "S", fd.Body, recv, elems) && isLast(s.elemIdx, "E", fd.Body, recv, elems) {
			found = true
		}
	}
	if !found {
		// a helper entered with the two last indices
		ast.Inspect(fd.Body, func(m ast.Node) bool {
			call, ok := m.(*ast.CallExpr)
			if !ok || found {
				return true
			}
			f := core.CalleeOf(info, call)
			if f == nil || f.Pkg() == nil || f.Pkg() != p.Types || f.Name() == "AppliesTo" {
				return true
			}
			var hd *ast.FuncDecl
			for _, d := range core.AllFuncDecls(p) {
				if info.Defs[d.Name] == f {
					hd = d
				}
			}
			if hd == nil {
				return true
			}
			// which parameters receive len(sels)-1 and len(elems)-1
			var pSel, pElem types.Object
			var hParams []types.Object
			for _, fl := range hd.Type.Params.List {
				for _, nm := range fl.Names {
					hParams = append(hParams, info.Defs[nm])
				}
			}
			for i, a := range call.Args {
				if i >= len(hParams) {
					break
				}
				if isLast(a, "S", fd.Body, recv, elems) {
					pSel = hParams[i]
				}
				if isLast(a, "E", fd.Body, recv, elems) {
					pElem = hParams[i]
				}
			}
			if pSel == nil || pElem == nil {
				return true
			}
			for _, s := range sitesOf(hd.Body) {
				si, ok1 := core.Unparen(s.selIdx).(*ast.Ident)
				ei, ok2 := core.Unparen(s.elemIdx).(*ast.Ident)
				if ok1 && ok2 && core.ObjOf(info, si) == pSel && core.ObjOf(info, ei) == pElem {
					found = true
				}
			}
			return true
		})
	}
	if found {
		r.OK("E11.selector-subject", key, c.Pos(fd.Pos()), "")
	} else {
		r.Fail("E11.selector-subject", key, c.Pos(fd.Pos()), "no test of the last selector node against the last element of the stack was found: the matcher is not anchored at the subject, so a rule whose selector matches an ancestor is applied to every descendant (`g{fill:red}` overrides a rect with fill=blue inside a group)")
	}
	r.Count("E11.selector-matchers", 1)
	r.Floor("E11.selector-matchers", 1)
}

// E11PercentReference: percentages of the importer refer to the viewBox when there is one.
func E11PercentReference(c *core.Ctx, r *core.Report) {
	r.Rule("E11.percent-reference", "a percentage length in SVG is relative to the viewport measured in user units: with a viewBox that is the viewBox's width and height (and their normalised diagonal), without one the viewport in pixels. svgParser.init sets the view from the viewBox in one branch and from the pixel size in the other; sibling agreement: in the branch whose view is scaled by the viewBox extents, the parser's reference lengths — the fields handed to parseDimension as the `parent` of percentages — are assigned from viewbox[2] and viewbox[3], and the diagonal is computed from them afterwards. With the pixel size as reference under a viewBox, `<svg width=\"200\" viewBox=\"0 0 20 10\"><rect width=\"50%\"/>` is 100 user units wide: five times the canvas")
	p := c.MustPkg("")
	info := p.TypesInfo
	fd := core.MustFuncDecl(p, "svgParser.init")
	r.Func("canvas.svgParser.init")
	recv := recvObj(info, fd)
	vb := paramObj(info, fd, 2)
	key := "canvas.svgParser.init|percentage references follow the viewBox"
	// reference fields: those passed as the second argument of parseDimension anywhere in svg.go
	refFields := map[string]bool{}
	for _, f := range core.AllFuncDecls(p) {
		if !strings.HasSuffix(c.Fset.Position(f.Pos()).Filename, "/svg.go") {
			continue
		}
		ast.Inspect(f.Body, func(m ast.Node) bool {
			call, ok := m.(*ast.CallExpr)
			if !ok || len(call.Args) != 2 {
				return true
			}
			if cf := core.CalleeOf(info, call); cf == nil || cf.Name() != "parseDimension" {
				return true
			}
			if se, ok := core.Unparen(call.Args[1]).(*ast.SelectorExpr); ok {
				if s := info.Selections[se]; s != nil && s.Kind() == types.FieldVal {
					refFields[se.Sel.Name] = true
				}
			}
			return true
		})
	}
	if len(refFields) < 2 {
		r.Fail("E11.percent-reference", key, c.Pos(fd.Pos()), "the reference-length fields passed to parseDimension were not found")
		return
	}
	mentionsVB := func(e ast.Node, idx int64) bool {
		f := false
		ast.Inspect(e, func(k ast.Node) bool {
			if ie, ok := k.(*ast.IndexExpr); ok {
				if id, ok := core.Unparen(ie.X).(*ast.Ident); ok && core.ObjOf(info, id) == vb {
					if v, ok := core.ConstInt(info, ie.Index); ok && v == idx {
						f = true
					}
				}
			}
			return true
		})
		return f
	}
	// the branch that scales the view by the viewBox
	var branch *ast.BlockStmt
	ast.Inspect(fd.Body, func(m ast.Node) bool {
		is, ok := m.(*ast.IfStmt)
		if !ok || branch != nil {
			return true
		}
		if mentionsVB(is.Cond, 2) && mentionsVB(is.Cond, 3) && mentionsVB(is.Body, 2) {
			branch = is.Body
		}
		return true
	})
	if branch == nil {
		r.Fail("E11.percent-reference", key, c.Pos(fd.Pos()), "the branch that sets the view from the viewBox was not found")
		return
	}
	got := map[int64]bool{}
	var lastAssign token.Pos
	ast.Inspect(branch, func(m ast.Node) bool {
		as, ok := m.(*ast.AssignStmt)
		if !ok || len(as.Lhs) != len(as.Rhs) {
			return true
		}
		for i, l := range as.Lhs {
			names, rooted := ctxFieldPath(info, l, recv)
			if !rooted || len(names) != 1 || !refFields[names[0]] {
				continue
			}
			for _, idx := range []int64{2, 3} {
				if mentionsVB(as.Rhs[i], idx) {
					got[idx] = true
					lastAssign = as.End()
				}
			}
		}
		return true
	})
	// the diagonal (a reference field computed from the others) is assigned after them
	diagAfter := false
	ast.Inspect(fd.Body, func(m ast.Node) bool {
		as, ok := m.(*ast.AssignStmt)
		if !ok || len(as.Lhs) != 1 || len(as.Rhs) != 1 {
			return true
		}
		names, rooted := ctxFieldPath(info, as.Lhs[0], recv)
		if !rooted || len(names) != 1 || !refFields[names[0]] {
			return true
		}
		if name, _ := core.MathFunc(info, as.Rhs[0]); (name == "Sqrt" || name == "Hypot") && as.Pos() >= lastAssign && lastAssign.IsValid() {
			diagAfter = true
		}
		return true
	})
	switch {
	case !got[2] || !got[3]:
		r.Fail("E11.percent-reference", key, c.Pos(branch.Pos()), "in the branch that scales the view by the viewBox the reference lengths for percentages are not taken from viewbox[2] and viewbox[3]: percentages stay relative to the pixel size although one user unit is no longer one pixel")
	case !diagAfter:
		r.Fail("E11.percent-reference", key, c.Pos(branch.Pos()), "the normalised diagonal is not recomputed after the reference lengths were taken from the viewBox")
	default:
		r.OK("E11.percent-reference", key, c.Pos(branch.Pos()), "")
	}
	r.Count("E11.percent-reference-sites", 1)
	r.Floor("E11.percent-reference-sites", 1)
}

// E11SumNotOverwritten: a sum that is built up from terms is not overwritten half-way.
func E11SumNotOverwritten(c *core.Ctx, r *core.Report) {
	r.Rule("E11.sum-not-overwritten", "text/linebreak.go: a numeric local that collects terms with `v += E` (the demerits of a candidate line: line demerits, flagged-break demerits, fitness demerits, the parent's total) is, between a constant reset and its use, never assigned plainly where an earlier non-constant assignment may precede it — branches of one if/else chain are exclusive. A plain assignment in that position throws away the terms added before it: with the flagged-break term added first and the `else` branch of the penalty chain still assigning, two consecutive flagged breaks are 100 demerits too cheap whenever the second is a forced break, and the breaker returns a breaking that is not the minimum")
	p := c.MustPkg("text")
	info := p.TypesInfo
	n := 0
	for _, fd := range core.AllFuncDecls(p) {
		if !strings.HasSuffix(c.Fset.Position(fd.Pos()).Filename, "linebreak.go") {
			continue
		}
		type asg struct {
			pos   token.Pos
			kind  string // const, acc, plain
			node  ast.Node
			stack []ast.Node
		}
		byVar := map[types.Object][]asg{}
		var stack []ast.Node
		ast.Inspect(fd.Body, func(m ast.Node) bool {
			if m == nil {
				stack = stack[:len(stack)-1]
				return true
			}
			stack = append(stack, m)
			as, ok := m.(*ast.AssignStmt)
			if !ok || len(as.Lhs) != len(as.Rhs) {
				return true
			}
			for i, l := range as.Lhs {
				id, ok := l.(*ast.Ident)
				if !ok {
					continue
				}
				o := core.ObjOf(info, id)
				v, ok := o.(*types.Var)
				if !ok || v.IsField() {
					continue
				}
				if b, ok := v.Type().Underlying().(*types.Basic); !ok || b.Info()&types.IsFloat == 0 {
					continue
				}
				kind := "plain"
				rhs := core.Unparen(as.Rhs[i])
				mentionsSelf := false
				ast.Inspect(rhs, func(k ast.Node) bool {
					if rid, ok := k.(*ast.Ident); ok && core.ObjOf(info, rid) == o {
						mentionsSelf = true
					}
					return true
				})
				switch {
				case as.Tok == token.ADD_ASSIGN || as.Tok == token.SUB_ASSIGN || mentionsSelf:
					kind = "acc"
				case as.Tok != token.ASSIGN && as.Tok != token.DEFINE:
					kind = "acc"
				default:
					if tv, ok := info.Types[rhs]; ok && tv.Value != nil {
						kind = "const"
					}
				}
				byVar[o] = append(byVar[o], asg{as.Pos(), kind, as, append([]ast.Node{}, stack...)})
			}
			return true
		})
		exclusive := func(a, b asg) bool {
			k := 0
			for k < len(a.stack) && k < len(b.stack) && a.stack[k] == b.stack[k] {
				k++
			}
			if k == 0 || k >= len(a.stack) || k >= len(b.stack) {
				return false
			}
			if lca, ok := a.stack[k-1].(*ast.IfStmt); ok {
				inBody := func(x asg) bool { return lca.Body == x.stack[k] }
				return inBody(a) != inBody(b)
			}
			return false
		}
		var objs []types.Object
		for o := range byVar {
			objs = append(objs, o)
		}
		sort.Slice(objs, func(i, j int) bool { return objs[i].Pos() < objs[j].Pos() })
		for _, o := range objs {
			as := byVar[o]
			adds := 0
			for _, a := range as {
				if a.kind == "acc" {
					adds++
				}
			}
			if adds == 0 {
				continue
			}
			sort.Slice(as, func(i, j int) bool { return as[i].pos < as[j].pos })
			n++
			key := fmt.Sprintf("text.%s|sum %s keeps its terms", core.FuncName(fd), o.Name())
			bad := ""
			var badPos token.Pos
			for i, a := range as {
				if a.kind != "plain" {
					continue
				}
				for j := i - 1; j >= 0; j-- {
					if as[j].kind == "const" && !exclusive(as[j], a) {
						break
					}
					if as[j].kind != "const" && !exclusive(as[j], a) {
						bad = fmt.Sprintf("`%s` overwrites the sum after `%s` may already have contributed", c.Src(a.node), c.Src(as[j].node))
						badPos = a.pos
						break
					}
				}
				if bad != "" {
					break
				}
			}
			if bad == "" {
				r.OK("E11.sum-not-overwritten", key, c.Pos(as[0].pos), fmt.Sprintf("%d assignments", len(as)))
			} else {
				r.Fail("E11.sum-not-overwritten", key, c.Pos(badPos), bad+": the term is lost on that path")
			}
		}
	}
	r.Count("E11.sums", n)
	r.Floor("E11.sums", 1)
}

// E11FactorFromStep: the control-point factor of the arc-to-cubic conversion is that of the actual piece angle.
func E11FactorFromStep(c *core.Ctx, r *core.Report) {
	r.Rule("E11.factor-from-step", "ellipseToCubicBeziers and ellipseToQuadraticBeziers cut an arc into n equal pieces of angle Δ = |θ1−θ0|/n and places the control points of each piece along the end tangents at the distance κ(Δ)·|derivative|; κ depends on the angle of the piece actually drawn. The factor that multiplies an ellipseDeriv result (`deriv.Mul(κ)`) is therefore computed from values that depend on both angles returned by ellipseToCenter and on the piece count — followed backwards through the last assignment before each use. A factor computed from the maximal piece angle (a constant quarter turn) is right only for arcs that are multiples of a quarter turn; a 60° wedge bulges 7% of the radius, in ReplaceArcs and in the flattening of every non-circular arc")
	p := c.MustPkg("")
	info := p.TypesInfo
	total := 0
	for _, fname := range []string{"ellipseToCubicBeziers", "ellipseToQuadraticBeziers"} {
		total += factorFromStep(c, r, p, info, fname)
	}
	r.Count("E11.tangent-factors", total)
	r.Floor("E11.tangent-factors", 3)
}

func factorFromStep(c *core.Ctx, r *core.Report, p *packages.Package, info *types.Info, fname string) int {
	fd := core.MustFuncDecl(p, fname)
	r.Func("canvas." + fname)
	type def struct {
		pos token.Pos
		rhs ast.Expr
	}
	defs := map[types.Object][]def{}
	var theta [2]types.Object
	ast.Inspect(fd.Body, func(m ast.Node) bool {
		as, ok := m.(*ast.AssignStmt)
		if !ok {
			return true
		}
		if len(as.Rhs) == 1 && len(as.Lhs) == 4 {
			if call, ok := core.Unparen(as.Rhs[0]).(*ast.CallExpr); ok {
				if f := core.CalleeOf(info, call); f != nil && f.Name() == "ellipseToCenter" {
					for k := 0; k < 2; k++ {
						if id, ok := as.Lhs[2+k].(*ast.Ident); ok {
							theta[k] = core.ObjOf(info, id)
						}
					}
				}
			}
		}
		if len(as.Lhs) == len(as.Rhs) {
			for i, l := range as.Lhs {
				if id, ok := l.(*ast.Ident); ok {
					defs[core.ObjOf(info, id)] = append(defs[core.ObjOf(info, id)], def{as.Pos(), as.Rhs[i]})
				}
			}
		}
		return true
	})
	if theta[0] == nil || theta[1] == nil {
		panic(core.Infra(fname + ": the angles returned by ellipseToCenter were not found"))
	}
	var closure func(e ast.Expr, at token.Pos, out map[types.Object]bool, depth int)
	closure = func(e ast.Expr, at token.Pos, out map[types.Object]bool, depth int) {
		if depth > 12 {
			return
		}
		ast.Inspect(e, func(m ast.Node) bool {
			id, ok := m.(*ast.Ident)
			if !ok {
				return true
			}
			o := core.ObjOf(info, id)
			if o == nil || out[o] && len(defs[o]) == 0 {
				return true
			}
			out[o] = true
			var best *def
			for i := range defs[o] {
				if d := &defs[o][i]; d.pos < at && (best == nil || d.pos > best.pos) {
					best = d
				}
			}
			if best != nil {
				closure(best.rhs, best.pos, out, depth+1)
			}
			return true
		})
	}
	n := 0
	ast.Inspect(fd.Body, func(m ast.Node) bool {
		call, ok := m.(*ast.CallExpr)
		if !ok || len(call.Args) != 1 {
			return true
		}
		se, ok := call.Fun.(*ast.SelectorExpr)
		if !ok || se.Sel.Name != "Mul" {
			return true
		}
		// the receiver derives from ellipseDeriv
		recvCl := map[types.Object]bool{}
		closure(se.X, call.Pos(), recvCl, 0)
		fromDeriv := false
		ast.Inspect(se.X, func(k ast.Node) bool {
			if cl, ok := k.(*ast.CallExpr); ok {
				if f := core.CalleeOf(info, cl); f != nil && f.Name() == "ellipseDeriv" {
					fromDeriv = true
				}
			}
			return true
		})
		for o := range recvCl {
			for _, d := range defs[o] {
				ast.Inspect(d.rhs, func(k ast.Node) bool {
					if cl, ok := k.(*ast.CallExpr); ok {
						if f := core.CalleeOf(info, cl); f != nil && f.Name() == "ellipseDeriv" {
							fromDeriv = true
						}
					}
					return true
				})
			}
		}
		if !fromDeriv {
			return true
		}
		n++
		key := fmt.Sprintf("canvas.%s|tangent factor #%d depends on the piece angle", fname, n)
		cl := map[types.Object]bool{}
		closure(call.Args[0], call.Pos(), cl, 0)
		if cl[theta[0]] && cl[theta[1]] {
			r.OK("E11.factor-from-step", key, c.Pos(call.Pos()), types.ExprString(call.Args[0]))
		} else {
			r.Fail("E11.factor-from-step", key, c.Pos(call.Pos()), "the factor `"+types.ExprString(call.Args[0])+"` applied to the end tangent does not depend on the arc's two angles: it is the factor of a fixed piece angle, not of the pieces this arc is cut into, so every arc that is not a multiple of that angle bulges")
		}
		return true
	})
	return n
}

// E11StrokeSettleRule: the offset curves of a stroke are settled with the rule of their orientation.
func E11StrokeSettleRule(c *core.Ctx, r *core.Report) {
	r.Rule("E11.stroke-settle-rule", "Path.Stroke removes the loops that the raw offset curves form at sharp or curved corners by settling each curve with an orientation-signed fill rule: the curves of a counter-clockwise (or open) sub-path wind positively where they belong to the stroke and the parasitic loops wind negatively, so they are settled with Positive; for a clockwise sub-path everything is mirrored and both curves are settled with Negative. Every Settle call of Stroke takes Positive when it is reached with `CCW()` true (or outside the orientation test) and Negative when `CCW()` is false; NonZero or EvenOdd keep the loops of the other sign, which are then cut out of the stroke as holes next to the corners")
	p := c.MustPkg("")
	info := p.TypesInfo
	fd := core.MustFuncDecl(p, "Path.Stroke")
	r.Func("canvas.Path.Stroke")
	n := 0
	var walk func(node ast.Node, ccw tri)
	walk = func(node ast.Node, ccw tri) {
		ast.Inspect(node, func(m ast.Node) bool {
			switch x := m.(type) {
			case *ast.IfStmt:
				isCCW, neg := false, false
				cond := core.Unparen(x.Cond)
				if u, ok := cond.(*ast.UnaryExpr); ok && u.Op == token.NOT {
					cond, neg = core.Unparen(u.X), true
				}
				if call, ok := cond.(*ast.CallExpr); ok {
					if f := core.CalleeOf(info, call); f != nil && f.Name() == "CCW" {
						isCCW = true
					}
				}
				if !isCCW {
					return true
				}
				t, e := tTrue, tFalse
				if neg {
					t, e = tFalse, tTrue
				}
				walk(x.Body, t)
				if x.Else != nil {
					walk(x.Else, e)
				}
				return false
			case *ast.CallExpr:
				f := core.CalleeOf(info, x)
				if f == nil || core.QualifiedCallee(f) != core.Module+".Path.Settle" || len(x.Args) != 1 {
					return true
				}
				n++
				want := "Positive"
				where := "a counter-clockwise or open sub-path"
				if ccw == tFalse {
					want, where = "Negative", "a clockwise sub-path"
				}
				key := fmt.Sprintf("canvas.Path.Stroke|Settle #%d uses the rule of the sub-path's orientation", n)
				got := core.ConstName(info, x.Args[0])
				if got == "" {
					got = types.ExprString(x.Args[0])
				}
				if got == want {
					r.OK("E11.stroke-settle-rule", key, c.Pos(x.Pos()), want)
				} else {
					r.Fail("E11.stroke-settle-rule", key, c.Pos(x.Pos()), fmt.Sprintf("the offset curve of %s is settled with %s, want %s: the loops the offset forms at corners have the opposite winding and are kept, so they are cut out of the stroke", where, got, want))
				}
			}
			return true
		})
	}
	walk(fd.Body, tUnknown)
	r.Count("E11.stroke-settles", n)
	r.Floor("E11.stroke-settles", 5)
}

// E11AlignedWidthExcludesEOL: lines are aligned by the width of what is drawn.
func E11AlignedWidthExcludesEOL(c *core.Ctx, r *core.Report) {
	r.Rule("E11.aligned-width-excludes-eol", "RichText.ToText drops the white space between the last box of a line and its break, so a right-aligned line ends at the width — and a centred one is centred — only if that white space takes no part in the line's width. (1) The offset added to x under `halign == Right` and under `halign == Center` subtracts, besides the break's width, a float local that the loop over the line's items resets to zero at every box and increases by the width of every glue: the width of the trailing white space. (2) The statement that adds the stretch of a glue run to the break's width (`breaks[j].Width += adv`) is not executed for the run that ends at the break: one of its enclosing conditions compares the item index with the break index. Otherwise `\"abc \\ndef\"` right-aligned in a box of 50 puts `abc` at x = 0: the filler glue before the forced break hands its whole stretch to the trailing space")
	p := c.MustPkg("")
	info := p.TypesInfo
	fd := core.MustFuncDecl(p, "RichText.ToText")
	r.Func("canvas.RichText.ToText")
	// (a) trailing-width accumulators: reset under a BoxType test and accumulated from an item's Width in a range over items
	accs := map[types.Object]bool{}
	ast.Inspect(fd.Body, func(m ast.Node) bool {
		rs, ok := m.(*ast.RangeStmt)
		if !ok {
			return true
		}
		reset, added := map[types.Object]bool{}, map[types.Object]bool{}
		ast.Inspect(rs.Body, func(k ast.Node) bool {
			is, ok := k.(*ast.IfStmt)
			if !ok {
				return true
			}
			isBox := false
			ast.Inspect(is.Cond, func(q ast.Node) bool {
				if se, ok := q.(*ast.SelectorExpr); ok && se.Sel.Name == "BoxType" {
					isBox = true
				}
				return true
			})
			if !isBox {
				return true
			}
			for _, st := range is.Body.List {
				if as, ok := st.(*ast.AssignStmt); ok && as.Tok == token.ASSIGN && len(as.Lhs) == 1 && len(as.Rhs) == 1 {
					if id, ok := as.Lhs[0].(*ast.Ident); ok {
						if tv, ok := info.Types[as.Rhs[0]]; ok && tv.Value != nil && (tv.Value.Kind() == constant.Int || tv.Value.Kind() == constant.Float) && constant.Sign(tv.Value) == 0 {
							if b, ok := core.ObjOf(info, id).Type().Underlying().(*types.Basic); ok && b.Info()&types.IsFloat != 0 {
								reset[core.ObjOf(info, id)] = true
							}
						}
					}
				}
			}
			if is.Else != nil {
				ast.Inspect(is.Else, func(q ast.Node) bool {
					if as, ok := q.(*ast.AssignStmt); ok && as.Tok == token.ADD_ASSIGN && len(as.Lhs) == 1 && len(as.Rhs) == 1 {
						if id, ok := as.Lhs[0].(*ast.Ident); ok {
							if se, ok := core.Unparen(as.Rhs[0]).(*ast.SelectorExpr); ok && se.Sel.Name == "Width" {
								added[core.ObjOf(info, id)] = true
							}
						}
					}
					return true
				})
			}
			return true
		})
		for o := range reset {
			if added[o] {
				accs[o] = true
			}
		}
		return true
	})
	// (1) the alignment offsets
	n := 0
	ast.Inspect(fd.Body, func(m ast.Node) bool {
		is, ok := m.(*ast.IfStmt)
		if !ok {
			return true
		}
		var visit func(is *ast.IfStmt)
		visit = func(is *ast.IfStmt) {
			which := ""
			ast.Inspect(is.Cond, func(k ast.Node) bool {
				if id, ok := k.(*ast.Ident); ok && (id.Name == "Right" || id.Name == "Center") {
					if _, isConst := core.ObjOf(info, id).(*types.Const); isConst {
						which = id.Name
					}
				}
				return true
			})
			if which != "" {
				for _, st := range is.Body.List {
					as, ok := st.(*ast.AssignStmt)
					if !ok || as.Tok != token.ADD_ASSIGN || len(as.Rhs) != 1 {
						continue
					}
					// only the per-line offset: it mentions a break's Width
					mentionsBreakWidth, mentionsAcc := false, false
					ast.Inspect(as.Rhs[0], func(k ast.Node) bool {
						switch x := k.(type) {
						case *ast.SelectorExpr:
							if x.Sel.Name == "Width" {
								if _, isIdx := core.Unparen(x.X).(*ast.IndexExpr); isIdx {
									mentionsBreakWidth = true
								}
							}
						case *ast.Ident:
							if accs[core.ObjOf(info, x)] {
								mentionsAcc = true
							}
						}
						return true
					})
					if !mentionsBreakWidth {
						continue
					}
					n++
					key := "canvas.RichText.ToText|offset of a " + which + "-aligned line leaves out the trailing white space"
					if mentionsAcc {
						r.OK("E11.aligned-width-excludes-eol", key, c.Pos(as.Pos()), c.Src(as.Rhs[0]))
					} else {
						r.Fail("E11.aligned-width-excludes-eol", key, c.Pos(as.Pos()), "the offset `"+c.Src(as.Rhs[0])+"` is computed from the break's width alone, which includes the white space between the last box and the break: a line that ends in spaces (before a newline, or where several spaces were typed) is shifted left by their width")
					}
				}
			}
			if el, ok := is.Else.(*ast.IfStmt); ok {
				visit(el)
			}
		}
		visit(is)
		return false
	})
	// (2) the stretch of the run that ends at the break is not added
	m := 0
	var stack []ast.Node
	ast.Inspect(fd.Body, func(nd ast.Node) bool {
		if nd == nil {
			stack = stack[:len(stack)-1]
			return true
		}
		stack = append(stack, nd)
		as, ok := nd.(*ast.AssignStmt)
		if !ok || as.Tok != token.ADD_ASSIGN || len(as.Lhs) != 1 {
			return true
		}
		se, ok := as.Lhs[0].(*ast.SelectorExpr)
		if !ok || se.Sel.Name != "Width" {
			return true
		}
		if _, isIdx := core.Unparen(se.X).(*ast.IndexExpr); !isIdx {
			return true
		}
		m++
		key := "canvas.RichText.ToText|stretch is not given to the white space before the break"
		// the loop that contains it and its index variable; the break index is the loop's bound
		guarded := false
		for i := len(stack) - 2; i >= 0; i-- {
			is, ok := stack[i].(*ast.IfStmt)
			if !ok || !(is.Body.Pos() <= as.Pos() && as.End() <= is.Body.End()) {
				continue
			}
			ast.Inspect(is.Cond, func(k ast.Node) bool {
				be, ok := k.(*ast.BinaryExpr)
				if !ok || (be.Op != token.NEQ && be.Op != token.LSS) {
					return true
				}
				_, xi := core.Unparen(be.X).(*ast.Ident)
				_, yi := core.Unparen(be.Y).(*ast.Ident)
				if xi && yi {
					tx, ty := info.TypeOf(be.X), info.TypeOf(be.Y)
					if tx != nil && ty != nil && types.Identical(tx, types.Typ[types.Int]) && types.Identical(ty, types.Typ[types.Int]) {
						guarded = true
					}
				}
				return true
			})
		}
		if guarded {
			r.OK("E11.aligned-width-excludes-eol", key, c.Pos(as.Pos()), "")
		} else {
			r.Fail("E11.aligned-width-excludes-eol", key, c.Pos(as.Pos()), "the stretch of every glue run is added to the break's width, also that of the run between the last box and the break: before a forced break that run contains the filler glue, whose stretch is the whole rest of the line")
		}
		return true
	})
	r.Count("E11.aligned-offsets", n)
	r.Floor("E11.aligned-offsets", 2)
	r.Count("E11.stretch-additions", m)
	r.Floor("E11.stretch-additions", 1)
}

// E11GradientPad: a gradient is padded with its first colour up to the first stop.
func E11GradientPad(c *core.Ctx, r *core.Report) {
	r.Rule("E11.gradient-pad", "Stops.At gives the colour the rasterizer paints at parameter t; the SVG and PDF writers describe the same gradient by its stops, and both formats pad: before the first stop the first colour, after the last stop the last. Stops.At therefore returns stops[0].Color under a condition that compares t with the first stop's own Offset (not only with 0): otherwise, for a first stop at an offset above 0, the interpolation between the first two stops is evaluated with a negative parameter and the rasterizer paints an extrapolated (wrapped-around) colour where the vector back-ends show the first colour")
	p := c.MustPkg("")
	info := p.TypesInfo
	fd := core.MustFuncDecl(p, "Stops.At")
	r.Func("canvas.Stops.At")
	recv := recvObj(info, fd)
	tObj := paramObj(info, fd, 0)
	key := "canvas.Stops.At|first colour up to the first stop's offset"
	// `recv[0].F`
	firstField := func(e ast.Expr, field string) bool {
		se, ok := core.Unparen(e).(*ast.SelectorExpr)
		if !ok || se.Sel.Name != field {
			return false
		}
		ie, ok := core.Unparen(se.X).(*ast.IndexExpr)
		if !ok {
			return false
		}
		id, ok := core.Unparen(ie.X).(*ast.Ident)
		if !ok || core.ObjOf(info, id) != recv {
			return false
		}
		v, ok := core.ConstInt(info, ie.Index)
		return ok && v == 0
	}
	found := false
	var walk func(is *ast.IfStmt)
	walk = func(is *ast.IfStmt) {
		returnsFirst := false
		for _, st := range is.Body.List {
			if ret, ok := st.(*ast.ReturnStmt); ok && len(ret.Results) == 1 && firstField(ret.Results[0], "Color") {
				returnsFirst = true
			}
		}
		if returnsFirst {
			ast.Inspect(is.Cond, func(k ast.Node) bool {
				be, ok := k.(*ast.BinaryExpr)
				if !ok || (be.Op != token.LSS && be.Op != token.LEQ) {
					return true
				}
				// canonical orientation: t <(=) stops[0].Offset
				if id, ok := core.Unparen(be.X).(*ast.Ident); ok && core.ObjOf(info, id) == tObj && firstField(be.Y, "Offset") {
					found = true
				}
				return true
			})
		}
		if el, ok := is.Else.(*ast.IfStmt); ok {
			walk(el)
		}
	}
	ast.Inspect(fd.Body, func(m ast.Node) bool {
		if is, ok := m.(*ast.IfStmt); ok {
			walk(is)
			return false
		}
		return true
	})
	if found {
		r.OK("E11.gradient-pad", key, c.Pos(fd.Pos()), "")
	} else {
		r.Fail("E11.gradient-pad", key, c.Pos(fd.Pos()), "no return of the first stop's colour is guarded by a comparison of t with the first stop's Offset: for 0 < t < stops[0].Offset the colour is extrapolated from the first two stops instead of padded")
	}
	r.Count("E11.gradient-pad-sites", 1)
	r.Floor("E11.gradient-pad-sites", 1)
}

// E11PixelLoopBounds: a loop over the pixels of an image runs over the image's own rectangle.
func E11PixelLoopBounds(c *core.Ctx, r *core.Report) {
	r.Rule("E11.pixel-loop-bounds", "renderers/rasterizer: the coordinates handed to At/Set/SetRGBA are image coordinates, and an image's rectangle need not start at the origin (a SubImage window, a rectangle with negative Min). A counted loop whose variable is such a coordinate runs from the rectangle's Min to its Max on the matching axis — `Bounds().Min.X … Bounds().Max.X` for the first coordinate, `.Y` for the second (directly, or through locals assigned from them). A loop from 0, or up to Dx()/Dy(), covers the image only when its rectangle starts at the origin: on a window at (10,10) the gamma compression at Close then skips the pixels beyond (Dx, Dy), so one uniform fill has two colours")
	p := c.MustPkg("renderers/rasterizer")
	info := p.TypesInfo
	n := 0
	for _, fd := range core.AllFuncDecls(p) {
		if strings.HasSuffix(c.Fset.Position(fd.Pos()).Filename, "_test.go") {
			continue
		}
		defs := singleDefs(info, fd.Body)
		// corner(e) = "Min.X", "Max.Y", … if e is that field of a Bounds() call (or of a local holding one)
		var corner func(e ast.Expr, depth int) string
		corner = func(e ast.Expr, depth int) string {
			if depth > 4 {
				return ""
			}
			e = core.Unparen(e)
			if id, ok := e.(*ast.Ident); ok {
				if d, ok := defs[core.ObjOf(info, id)]; ok {
					return corner(d, depth+1)
				}
				return ""
			}
			axis, ok := e.(*ast.SelectorExpr)
			if !ok || (axis.Sel.Name != "X" && axis.Sel.Name != "Y") {
				return ""
			}
			mm, ok := core.Unparen(axis.X).(*ast.SelectorExpr)
			if !ok || (mm.Sel.Name != "Min" && mm.Sel.Name != "Max") {
				return ""
			}
			isBounds := func(x ast.Expr) bool {
				x = core.Unparen(x)
				if id, ok := x.(*ast.Ident); ok {
					if d, ok := defs[core.ObjOf(info, id)]; ok {
						x = core.Unparen(d)
					}
				}
				call, ok := x.(*ast.CallExpr)
				if !ok {
					return false
				}
				se, ok := call.Fun.(*ast.SelectorExpr)
				return ok && se.Sel.Name == "Bounds"
			}
			if !isBounds(mm.X) {
				return ""
			}
			return mm.Sel.Name + "." + axis.Sel.Name
		}
		ast.Inspect(fd.Body, func(m ast.Node) bool {
			fs, ok := m.(*ast.ForStmt)
			if !ok || fs.Init == nil || fs.Cond == nil {
				return true
			}
			init, ok := fs.Init.(*ast.AssignStmt)
			if !ok || len(init.Lhs) != 1 || len(init.Rhs) != 1 {
				return true
			}
			vid, ok := init.Lhs[0].(*ast.Ident)
			if !ok {
				return true
			}
			v := core.ObjOf(info, vid)
			// is v a pixel coordinate? position 0 or 1 of an At/Set/SetRGBA call in the body
			axis := ""
			ast.Inspect(fs.Body, func(k ast.Node) bool {
				call, ok := k.(*ast.CallExpr)
				if !ok || len(call.Args) < 2 {
					return true
				}
				se, ok := call.Fun.(*ast.SelectorExpr)
				if !ok || (se.Sel.Name != "At" && se.Sel.Name != "Set" && !strings.HasPrefix(se.Sel.Name, "Set") && !strings.HasSuffix(se.Sel.Name, "At")) {
					return true
				}
				for pos, name := range []string{"X", "Y"} {
					if id, ok := core.Unparen(call.Args[pos]).(*ast.Ident); ok && core.ObjOf(info, id) == v {
						if b, ok := info.TypeOf(id).Underlying().(*types.Basic); ok && b.Kind() == types.Int {
							axis = name
						}
					}
				}
				return true
			})
			if axis == "" {
				return true
			}
			n++
			key := fmt.Sprintf("renderers/rasterizer.%s|pixel loop #%d over %s", core.FuncName(fd), n, axis)
			lo := corner(init.Rhs[0], 0)
			hi := ""
			if be, ok := core.Unparen(fs.Cond).(*ast.BinaryExpr); ok && be.Op == token.LSS {
				if id, ok := core.Unparen(be.X).(*ast.Ident); ok && core.ObjOf(info, id) == v {
					hi = corner(be.Y, 0)
				}
			}
			if lo == "Min."+axis && hi == "Max."+axis {
				r.OK("E11.pixel-loop-bounds", key, c.Pos(fs.Pos()), "")
			} else {
				r.Fail("E11.pixel-loop-bounds", key, c.Pos(fs.Pos()), fmt.Sprintf("the loop runs from `%s` while `%s`, not from Bounds().Min.%s to Bounds().Max.%s: it covers the image only if its rectangle starts at the origin", types.ExprString(init.Rhs[0]), c.Src(fs.Cond), axis, axis))
			}
			return true
		})
	}
	r.Count("E11.pixel-loops", n)
	r.Floor("E11.pixel-loops", 4)
}

// E11QuadratureCoversArc: the intervals ellipseLength integrates over make up the arc's angular range.
func E11QuadratureCoversArc(c *core.Ctx, r *core.Report) {
	r.Rule("E11.quadrature-covers-arc", "ellipseLength integrates the speed of the ellipse, |(−rx·sinθ, ry·cosθ)|, which has period π, over the arc's parameter range [θ1, θ2]. On every return the intervals handed to the quadrature (their end points expanded to polynomials in θ1, θ2 and π, locals resolved) make up that range: intervals that start and end at the same angle modulo π are whole periods and may sit anywhere; the others chain — the first starts at θ1 (mod π), each next one starts where the previous ended (mod π), the last ends at θ2 (mod π) — and all extents add up to θ2 − θ1 exactly. For a circle only the extent matters; for an ellipse an interval of the right length at the wrong place ([0, Δ−π] for the part of a wide arc beyond its first half turn) measures a different piece of the curve")
	p := c.MustPkg("")
	info := p.TypesInfo
	fd := core.MustFuncDecl(p, "ellipseLength")
	r.Func("canvas.ellipseLength")
	t1, t2 := paramObj(info, fd, 2), paramObj(info, fd, 3)
	defs := singleDefs(info, fd.Body)
	delete(defs, t1)
	delete(defs, t2)
	sym := func(e ast.Expr) string {
		switch x := e.(type) {
		case *ast.Ident:
			switch core.ObjOf(info, x) {
			case t1:
				return "t1"
			case t2:
				return "t2"
			}
		case *ast.SelectorExpr:
			if pk, ok := x.X.(*ast.Ident); ok && pk.Name == "math" && x.Sel.Name == "Pi" {
				return "pi"
			}
		}
		return ""
	}
	class := func(a poly) string { // the point modulo π
		b := poly{}
		for k, v := range a {
			if k != "pi" {
				b[k] = v
			}
		}
		return b.String()
	}
	n := 0
	ast.Inspect(fd.Body, func(m ast.Node) bool {
		ret, ok := m.(*ast.ReturnStmt)
		if !ok || len(ret.Results) != 1 {
			return true
		}
		type iv struct{ a, b poly }
		var ivs []iv
		undecided := ""
		ast.Inspect(ret.Results[0], func(k ast.Node) bool {
			call, ok := k.(*ast.CallExpr)
			if !ok || len(call.Args) != 3 {
				return true
			}
			if f := core.CalleeOf(info, call); f == nil || !strings.HasPrefix(f.Name(), "gaussLegendre") {
				return true
			}
			a, ok1 := polyOf(info, call.Args[1], sym, defs)
			b, ok2 := polyOf(info, call.Args[2], sym, defs)
			if !ok1 || !ok2 {
				undecided = "the limits of `" + types.ExprString(call) + "` are not polynomials in θ1, θ2 and π"
			}
			ivs = append(ivs, iv{a, b})
			return true
		})
		if len(ivs) == 0 {
			return true
		}
		n++
		key := fmt.Sprintf("canvas.ellipseLength|return #%d integrates over the arc's range", n)
		if undecided != "" {
			r.Fail("E11.quadrature-covers-arc", key, c.Pos(ret.Pos()), undecided)
			return true
		}
		total := poly{}
		var chain []iv
		for _, v := range ivs {
			total = polyAdd(total, polyAdd(v.b, v.a, -1), 1)
			if class(v.a) != class(v.b) {
				chain = append(chain, v)
			}
		}
		bad := ""
		if !polyEqual(total, poly{"t2": 1, "t1": -1}) {
			bad = "the extents add up to " + total.String() + ", not θ2 − θ1"
		}
		// order the chain greedily from class(t1)
		at := poly{"t1": 1}.String()
		used := make([]bool, len(chain))
		for step := 0; step < len(chain) && bad == ""; step++ {
			found := false
			for i, v := range chain {
				if !used[i] && class(v.a) == at {
					used[i], found, at = true, true, class(v.b)
					break
				}
			}
			if !found {
				bad = "no interval starts at " + at + " (modulo π): the pieces do not follow one another along the arc"
			}
		}
		if bad == "" && at != (poly{"t2": 1}).String() && len(chain) > 0 {
			bad = "the chain of intervals ends at " + at + ", not at θ2 (modulo π)"
		}
		if bad == "" && len(chain) == 0 && !polyEqual(total, poly{}) {
			bad = "only whole periods are integrated"
		}
		if bad == "" {
			r.OK("E11.quadrature-covers-arc", key, c.Pos(ret.Pos()), fmt.Sprintf("%d interval(s)", len(ivs)))
		} else {
			r.Fail("E11.quadrature-covers-arc", key, c.Pos(ret.Pos()), bad+": for rx ≠ ry the integral is that of another part of the ellipse")
		}
		return true
	})
	r.Count("E11.quadrature-returns", n)
	r.Floor("E11.quadrature-returns", 1)
}

// E11ClampAfterSign: an upper clamp of a size parameter bounds its magnitude only after the sign is taken off.
func E11ClampAfterSign(c *core.Ctx, r *core.Report) {
	r.Rule("E11.clamp-after-sign", "shape constructors accept a signed size (a negative corner radius asks for the concave variant) and bound it by the sides: within one function, every `v = math.Min(v, E)` on a local v that the same function also strips of its sign (`v = -v`, `v = math.Abs(v)`) comes after every such sign assignment. math.Min never clamps a negative number, so the clamp placed before the sign test lets an oversized negative value through at full magnitude and the outline overshoots the sides")
	p := c.MustPkg("")
	info := p.TypesInfo
	n := 0
	for _, f := range p.Syntax {
		for _, d := range f.Decls {
			fd, ok := d.(*ast.FuncDecl)
			if !ok || fd.Body == nil {
				continue
			}
			type site struct {
				pos  token.Pos
				text string
			}
			signs := map[types.Object][]site{}
			clamps := map[types.Object][]site{}
			ast.Inspect(fd.Body, func(m ast.Node) bool {
				as, ok := m.(*ast.AssignStmt)
				if !ok || as.Tok != token.ASSIGN || len(as.Lhs) != 1 || len(as.Rhs) != 1 {
					return true
				}
				id, ok := as.Lhs[0].(*ast.Ident)
				if !ok {
					return true
				}
				o := core.ObjOf(info, id)
				isV := func(e ast.Expr) bool {
					x, ok := core.Unparen(e).(*ast.Ident)
					return ok && core.ObjOf(info, x) == o
				}
				rhs := core.Unparen(as.Rhs[0])
				if u, ok := rhs.(*ast.UnaryExpr); ok && u.Op == token.SUB && isV(u.X) {
					signs[o] = append(signs[o], site{as.Pos(), types.ExprString(as.Lhs[0]) + " = " + types.ExprString(rhs)})
				}
				if name, call := core.MathFunc(info, rhs); call != nil {
					switch {
					case name == "Abs" && len(call.Args) == 1 && isV(call.Args[0]):
						signs[o] = append(signs[o], site{as.Pos(), types.ExprString(as.Lhs[0]) + " = " + types.ExprString(rhs)})
					case name == "Min" && len(call.Args) == 2 && (isV(call.Args[0]) != isV(call.Args[1])):
						clamps[o] = append(clamps[o], site{as.Pos(), types.ExprString(as.Lhs[0]) + " = " + types.ExprString(rhs)})
					}
				}
				return true
			})
			for o, cl := range clamps {
				if len(signs[o]) == 0 {
					continue
				}
				for i, cs := range cl {
					n++
					key := fmt.Sprintf("%s|%s|clamp %d", "canvas."+core.FuncName(fd), o.Name(), i+1)
					late := ""
					for _, s := range signs[o] {
						if cs.pos < s.pos {
							late = s.text
						}
					}
					if late == "" {
						r.OK("E11.clamp-after-sign", key, c.Pos(cs.pos), cs.text)
					} else {
						r.Fail("E11.clamp-after-sign", key, c.Pos(cs.pos), fmt.Sprintf("`%s` runs before the sign of %s is removed: math.Min leaves a negative %s untouched whatever its magnitude, so a negative value larger than the bound keeps its full size and the outline overshoots the sides it was to be bounded by", cs.text, o.Name(), o.Name()))
					}
				}
			}
		}
	}
	r.Count("E11.clamp-after-sign", n)
	r.Floor("E11.clamp-after-sign", 4)
}

// E11SVGKeywordInitial: a keyword-valued, inherited property can be set back to its initial value.
func E11SVGKeywordInitial(c *core.Ctx, r *core.Report) {
	r.Rule("E11.svg-keyword-initial", "svgParser.setAttribute reads the keyword-valued presentation attributes by an if-chain on the value, each branch calling one Context setter. These properties are inherited — the state set on a group is still current when a child's attributes are read — so a child that names the initial value must get it: among the branches of every such chain, one passes the value DefaultStyle holds for the field the setter writes (the same constant, or a composite literal of the same type as the default variable's). A chain that leaves out the initial keyword because 'that is the default anyway' lets the parent's value through")
	p := c.MustPkg("")
	info := p.TypesInfo
	sa := core.MustFuncDecl(p, "svgParser.setAttribute")
	r.Func("canvas.svgParser.setAttribute")
	// the initial values
	defaults := map[string]ast.Expr{}
	for _, f := range p.Syntax {
		for _, d := range f.Decls {
			gd, ok := d.(*ast.GenDecl)
			if !ok {
				continue
			}
			for _, sp := range gd.Specs {
				vs, ok := sp.(*ast.ValueSpec)
				if !ok || len(vs.Names) != 1 || vs.Names[0].Name != "DefaultStyle" || len(vs.Values) != 1 {
					continue
				}
				if cl, ok := vs.Values[0].(*ast.CompositeLit); ok {
					for _, el := range cl.Elts {
						if kv, ok := el.(*ast.KeyValueExpr); ok {
							if k, ok := kv.Key.(*ast.Ident); ok {
								defaults[k.Name] = kv.Value
							}
						}
					}
				}
			}
		}
	}
	if len(defaults) == 0 {
		panic(core.Infra("DefaultStyle composite literal not found"))
	}
	// head: what a value is, up to the parameters of a composite
	var head func(e ast.Expr) string
	head = func(e ast.Expr) string {
		e = core.Unparen(e)
		switch x := e.(type) {
		case *ast.CompositeLit:
			if tv, ok := info.Types[x]; ok {
				return "type:" + types.TypeString(tv.Type, func(*types.Package) string { return "" })
			}
		case *ast.Ident:
			o := core.ObjOf(info, x)
			if v, ok := o.(*types.Var); ok && v.Parent() == p.Types.Scope() {
				// a package-level variable initialised by a composite literal stands for that type
				for _, f := range p.Syntax {
					for _, d := range f.Decls {
						if gd, ok := d.(*ast.GenDecl); ok {
							for _, sp := range gd.Specs {
								if vs, ok := sp.(*ast.ValueSpec); ok {
									for i, nm := range vs.Names {
										if info.Defs[nm] == o && i < len(vs.Values) {
											if _, ok := core.Unparen(vs.Values[i]).(*ast.CompositeLit); ok {
												return head(vs.Values[i])
											}
										}
									}
								}
							}
						}
					}
				}
			}
			if o != nil {
				return "obj:" + o.Name()
			}
		}
		return "expr:" + types.ExprString(e)
	}
	// setter -> Style field
	fieldOf := func(setter *types.Func) string {
		recv := setter.Type().(*types.Signature).Recv()
		if recv == nil {
			return ""
		}
		rt := recv.Type()
		if pt, ok := rt.(*types.Pointer); ok {
			rt = pt.Elem()
		}
		tn, ok := rt.(*types.Named)
		if !ok {
			return ""
		}
		fd := core.FuncDecl(p, tn.Obj().Name()+"."+setter.Name())
		if fd == nil || fd.Body == nil || fd.Type.Params.NumFields() != 1 {
			return ""
		}
		param := info.Defs[fd.Type.Params.List[0].Names[0]]
		field := ""
		ast.Inspect(fd.Body, func(m ast.Node) bool {
			as, ok := m.(*ast.AssignStmt)
			if !ok || len(as.Lhs) != 1 || len(as.Rhs) != 1 {
				return true
			}
			if id, ok := core.Unparen(as.Rhs[0]).(*ast.Ident); ok && core.ObjOf(info, id) == param {
				if sel, ok := as.Lhs[0].(*ast.SelectorExpr); ok {
					field = sel.Sel.Name
				}
			}
			return true
		})
		return field
	}
	n := 0
	ast.Inspect(sa.Body, func(m ast.Node) bool {
		cc, ok := m.(*ast.CaseClause)
		if !ok || len(cc.List) == 0 {
			return true
		}
		label := ""
		if v := core.ConstVal(info, cc.List[0]); v != nil && v.Kind() == constant.String {
			label = constant.StringVal(v)
		} else {
			return true
		}
		// calls made under a test of a value against a string constant
		type branch struct {
			kw  string
			arg ast.Expr
		}
		bySetter := map[*types.Func][]branch{}
		var order []*types.Func
		var visit func(s ast.Stmt)
		visit = func(s ast.Stmt) {
			is, ok := s.(*ast.IfStmt)
			if !ok {
				return
			}
			kw := ""
			if be, ok := core.Unparen(is.Cond).(*ast.BinaryExpr); ok && be.Op == token.EQL {
				for _, side := range []ast.Expr{be.X, be.Y} {
					if v := core.ConstVal(info, side); v != nil && v.Kind() == constant.String {
						kw = constant.StringVal(v)
					}
				}
			}
			if kw != "" {
				for _, bs := range is.Body.List {
					es, ok := bs.(*ast.ExprStmt)
					if !ok {
						continue
					}
					call, ok := es.X.(*ast.CallExpr)
					if !ok || len(call.Args) != 1 {
						continue
					}
					if f := core.CalleeOf(info, call); f != nil && strings.HasPrefix(f.Name(), "Set") {
						if _, seen := bySetter[f]; !seen {
							order = append(order, f)
						}
						bySetter[f] = append(bySetter[f], branch{kw, call.Args[0]})
					}
				}
			}
			if is.Else != nil {
				visit(is.Else)
			}
		}
		for _, s := range cc.Body {
			visit(s)
		}
		for _, f := range order {
			bs := bySetter[f]
			if len(bs) < 2 {
				continue
			}
			field := fieldOf(f)
			key := fmt.Sprintf("canvas.svgParser.setAttribute|case %q|%s", label, f.Name())
			def, ok := defaults[field]
			if field == "" || !ok {
				r.Fail("E11.svg-keyword-initial", key, c.Pos(cc.Pos()), fmt.Sprintf("the Style field written by %s (found: %q) has no entry in DefaultStyle; the initial value cannot be read", f.Name(), field))
				continue
			}
			n++
			want := head(def)
			got := ""
			var kws []string
			for _, b := range bs {
				kws = append(kws, b.kw)
				if head(b.arg) == want {
					got = b.kw
				}
			}
			if got != "" {
				r.OK("E11.svg-keyword-initial", key, c.Pos(cc.Pos()), fmt.Sprintf("initial %s = %s set by keyword %q", field, types.ExprString(def), got))
			} else {
				r.Fail("E11.svg-keyword-initial", key, c.Pos(cc.Pos()), fmt.Sprintf("the keywords handled for %q (%s) never call %s with the initial value %s of Style.%s: the property is inherited, so an element inside a group that sets another value cannot return to the initial one, and the drawing read back differs from the document", label, strings.Join(kws, ", "), f.Name(), types.ExprString(def), field))
			}
		}
		return true
	})
	r.Count("E11.svg-keyword-initial", n)
	r.Floor("E11.svg-keyword-initial", 3)
}

// E11HexDigitPairs: the bytes of a hexadecimal colour are built from the right pairs of digits.
func E11HexDigitPairs(c *core.Ctx, r *core.Report) {
	r.Rule("E11.hex-digit-pairs", "Hex decodes #rgb, #rgba, #rrggbb and #rrggbbaa. In the branch for a length-N string every byte is `h[i]*16 + h[j]`: for the short forms (N = 3, 4) a digit is doubled, j = i; for the long forms (N = 6, 8) two neighbouring digits make one byte, i even and j = i+1. A byte built from digits of two different components (the alpha factor of #rgba read h[3]*16+h[0]) gives a colour that is not the one written and, for premultiplied output, channels larger than alpha")
	p := c.MustPkg("")
	info := p.TypesInfo
	fd := core.MustFuncDecl(p, "Hex")
	r.Func("canvas.Hex")
	var digits types.Object // the local slice indexed by digit position
	n := 0
	idx := func(e ast.Expr) (types.Object, int, bool) {
		ie, ok := core.Unparen(e).(*ast.IndexExpr)
		if !ok {
			return nil, 0, false
		}
		id, ok := core.Unparen(ie.X).(*ast.Ident)
		if !ok {
			return nil, 0, false
		}
		v := core.ConstVal(info, ie.Index)
		if v == nil || v.Kind() != constant.Int {
			return nil, 0, false
		}
		k, _ := constant.Int64Val(v)
		return core.ObjOf(info, id), int(k), true
	}
	var lenOf func(cond ast.Expr) int
	lenOf = func(cond ast.Expr) int {
		be, ok := core.Unparen(cond).(*ast.BinaryExpr)
		if !ok || be.Op != token.EQL {
			return -1
		}
		for _, pair := range [][2]ast.Expr{{be.X, be.Y}, {be.Y, be.X}} {
			if call, ok := core.Unparen(pair[0]).(*ast.CallExpr); ok {
				if id, ok := call.Fun.(*ast.Ident); ok && id.Name == "len" {
					if v := core.ConstVal(info, pair[1]); v != nil && v.Kind() == constant.Int {
						k, _ := constant.Int64Val(v)
						return int(k)
					}
				}
			}
		}
		return -1
	}
	var visit func(is *ast.IfStmt)
	visit = func(is *ast.IfStmt) {
		N := lenOf(is.Cond)
		if N > 0 {
			k := 0
			ast.Inspect(is.Body, func(m ast.Node) bool {
				be, ok := m.(*ast.BinaryExpr)
				if !ok || be.Op != token.ADD {
					return true
				}
				for _, pair := range [][2]ast.Expr{{be.X, be.Y}, {be.Y, be.X}} {
					mul, ok := core.Unparen(pair[0]).(*ast.BinaryExpr)
					if !ok || mul.Op != token.MUL {
						continue
					}
					var hi ast.Expr
					for _, mp := range [][2]ast.Expr{{mul.X, mul.Y}, {mul.Y, mul.X}} {
						if v := core.ConstVal(info, mp[1]); v != nil && v.Kind() == constant.Int {
							if x, _ := constant.Int64Val(v); x == 16 {
								hi = mp[0]
							}
						}
					}
					if hi == nil {
						continue
					}
					o1, i, ok1 := idx(hi)
					o2, j, ok2 := idx(pair[1])
					if !ok1 || !ok2 || o1 != o2 {
						continue
					}
					digits = o1
					k++
					n++
					key := fmt.Sprintf("canvas.Hex|len %d|byte %d", N, k)
					good := false
					want := ""
					if N <= 4 {
						good = i == j && i < N
						want = fmt.Sprintf("the digit at %d doubled", i)
					} else {
						good = i%2 == 0 && j == i+1 && j < N
						want = fmt.Sprintf("digits %d and %d", i-i%2, i-i%2+1)
					}
					if good {
						r.OK("E11.hex-digit-pairs", key, c.Pos(be.Pos()), types.ExprString(be))
					} else {
						r.Fail("E11.hex-digit-pairs", key, c.Pos(be.Pos()), fmt.Sprintf("in the branch for %d hexadecimal digits the byte `%s` takes its high digit from position %d and its low digit from position %d; a byte of this form is %s. The value decoded is not the one written", N, types.ExprString(be), i, j, want))
					}
					return false
				}
				return true
			})
		}
		if e, ok := is.Else.(*ast.IfStmt); ok {
			visit(e)
		}
	}
	for _, s := range fd.Body.List {
		if is, ok := s.(*ast.IfStmt); ok {
			visit(is)
		}
	}
	_ = digits
	r.Count("E11.hex-digit-pairs", n)
	r.Floor("E11.hex-digit-pairs", 16)
}

// E11ToleranceThreaded: a function that is given a tolerance hands that tolerance on.
func E11ToleranceThreaded(c *core.Ctx, r *core.Report) {
	r.Rule("E11.tolerance-threaded", "the tolerance of Flatten (and of Stroke, Offset and the rasterizing sinks built on it) reaches the flatteners through parameters. The tolerance positions are found by a fixpoint over the package: parameter 0 of Path.Flatten; downwards, a callee's parameter that receives an expression over a tolerance parameter of the caller; upwards, a float64 parameter passed unchanged into a tolerance position. Then, in every function that has a tolerance parameter, each call that fills a tolerance position of its callee passes an expression that mentions the function's own tolerance parameter — not the package default `Tolerance` or a constant: with the default in one branch (non-circular arcs), Flatten(t) ignores t there, the deviation stays at 0.01–0.02 whatever was asked, and the vertex count stops growing as t shrinks")
	p := c.MustPkg("")
	info := p.TypesInfo
	decls := map[*types.Func]*ast.FuncDecl{}
	for _, fd := range core.AllFuncDecls(p) {
		if f, ok := info.Defs[fd.Name].(*types.Func); ok && fd.Body != nil {
			decls[f] = fd
		}
	}
	paramObjs := func(fd *ast.FuncDecl) []types.Object {
		var out []types.Object
		for _, f := range fd.Type.Params.List {
			if len(f.Names) == 0 {
				out = append(out, nil)
			}
			for _, nm := range f.Names {
				out = append(out, info.Defs[nm])
			}
		}
		return out
	}
	isFloat := func(o types.Object) bool {
		if o == nil {
			return false
		}
		b, ok := o.Type().Underlying().(*types.Basic)
		return ok && b.Kind() == types.Float64
	}
	tol := map[*types.Func]map[int]bool{}
	mark := func(f *types.Func, i int) bool {
		if tol[f] == nil {
			tol[f] = map[int]bool{}
		}
		if tol[f][i] {
			return false
		}
		tol[f][i] = true
		return true
	}
	var flatten *types.Func
	for f, fd := range decls {
		if core.FuncName(fd) == "Path.Flatten" {
			flatten = f
		}
	}
	if flatten == nil {
		panic(core.Infra("Path.Flatten not found"))
	}
	mark(flatten, 0)
	mentionsAny := func(e ast.Expr, objs map[types.Object]bool) bool {
		hit := false
		ast.Inspect(e, func(m ast.Node) bool {
			if id, ok := m.(*ast.Ident); ok && objs[core.ObjOf(info, id)] {
				hit = true
			}
			return !hit
		})
		return hit
	}
	// locals computed from a tolerance parameter carry the tolerance too (tol := math.Max(tolerance, Epsilon))
	withDerived := func(fd *ast.FuncDecl, own map[types.Object]bool) {
		for changed := true; changed; {
			changed = false
			ast.Inspect(fd.Body, func(m ast.Node) bool {
				as, ok := m.(*ast.AssignStmt)
				if !ok || len(as.Lhs) != len(as.Rhs) {
					return true
				}
				for i, l := range as.Lhs {
					lid, ok := l.(*ast.Ident)
					if !ok {
						continue
					}
					o := core.ObjOf(info, lid)
					if o == nil || own[o] || !isFloat(o) || !mentionsAny(as.Rhs[i], own) || as.Tok != token.DEFINE && as.Tok != token.ASSIGN {
						continue
					}
					// a pure rescaling: besides the tolerance only constants, package-level values and math functions
					pure := true
					ast.Inspect(as.Rhs[i], func(k ast.Node) bool {
						id, ok := k.(*ast.Ident)
						if !ok {
							return true
						}
						switch x := core.ObjOf(info, id).(type) {
						case *types.Var:
							if !own[x] && x.Parent() != p.Types.Scope() {
								pure = false
							}
						}
						return true
					})
					if pure {
						own[o] = true
						changed = true
					}
				}
				return true
			})
		}
	}
	type site struct {
		caller *types.Func
		call   *ast.CallExpr
		callee *types.Func
	}
	var sites []site
	for f, fd := range decls {
		ast.Inspect(fd.Body, func(m ast.Node) bool {
			if call, ok := m.(*ast.CallExpr); ok {
				if g := core.CalleeOf(info, call); g != nil && decls[g] != nil {
					sites = append(sites, site{f, call, g})
				}
			}
			return true
		})
	}
	for changed := true; changed; {
		changed = false
		for _, s := range sites {
			ps := paramObjs(decls[s.caller])
			own := map[types.Object]bool{}
			for i, o := range ps {
				if tol[s.caller][i] && o != nil {
					own[o] = true
				}
			}
			if len(own) > 0 {
				withDerived(decls[s.caller], own)
			}
			gps := paramObjs(decls[s.callee])
			for i, a := range s.call.Args {
				if i >= len(gps) || !isFloat(gps[i]) {
					continue
				}
				// downwards
				if len(own) > 0 && mentionsAny(a, own) && !tol[s.callee][i] {
					// only when the argument is built from the tolerance and constants/other tolerance-free scalars
					if mark(s.callee, i) {
						changed = true
					}
				}
				// upwards: a float64 parameter passed unchanged
				if tol[s.callee][i] {
					if id, ok := core.Unparen(a).(*ast.Ident); ok {
						for k, o := range ps {
							if o != nil && core.ObjOf(info, id) == o && isFloat(o) && mark(s.caller, k) {
								changed = true
							}
						}
					}
				}
			}
		}
	}
	n, positions := 0, 0
	for _, m := range tol {
		positions += len(m)
	}
	sort.Slice(sites, func(i, j int) bool { return sites[i].call.Pos() < sites[j].call.Pos() })
	ord := map[string]int{}
	for _, s := range sites {
		if len(tol[s.caller]) == 0 {
			continue
		}
		ps := paramObjs(decls[s.caller])
		own := map[types.Object]bool{}
		var ownNames []string
		for i, o := range ps {
			if tol[s.caller][i] && o != nil {
				own[o] = true
				ownNames = append(ownNames, o.Name())
			}
		}
		withDerived(decls[s.caller], own)
		for i, a := range s.call.Args {
			if !tol[s.callee][i] {
				continue
			}
			n++
			base := fmt.Sprintf("canvas.%s -> %s|tolerance argument", core.FuncName(decls[s.caller]), core.FuncName(decls[s.callee]))
			ord[base]++
			key := fmt.Sprintf("%s #%d", base, ord[base])
			if mentionsAny(a, own) {
				r.OK("E11.tolerance-threaded", key, c.Pos(s.call.Pos()), types.ExprString(a))
			} else {
				r.Fail("E11.tolerance-threaded", key, c.Pos(s.call.Pos()), fmt.Sprintf("%s is given the tolerance `%s` but passes `%s` as the tolerance of %s: the caller's tolerance is ignored on this path, so the result deviates by what `%s` allows whatever was requested", core.FuncName(decls[s.caller]), strings.Join(ownNames, ", "), types.ExprString(a), core.FuncName(decls[s.callee]), types.ExprString(a)))
			}
		}
	}
	r.Count("E11.tolerance-positions", positions)
	r.Count("E11.tolerance-threaded", n)
	r.Floor("E11.tolerance-threaded", 8)
}

// E11IndentOnEveryPath: the first-line indent reaches the line breaker's items on every path.
func E11IndentOnEveryPath(c *core.Ctx, r *core.Report) {
	r.Rule("E11.indent-on-every-path", "GlyphsToItems turns glyphs into the boxes, glue and penalties the line breaker measures; RichText.ToText then places the first line at x = indent. The breaker must therefore measure the indent too: on every path through GlyphsToItems that returns the item list it built, a statement before the return uses the indent parameter in what it puts into that list (statements inside loops do not count, a loop may run zero times). If one branch — text that starts with white space — builds its first item without the indent, the first line is measured `indent` shorter than it is drawn: it sticks out of the box, and right-aligned and centred lines are shifted")
	p := c.MustPkg("text")
	info := p.TypesInfo
	fd := core.MustFuncDecl(p, "GlyphsToItems")
	r.Func("text.GlyphsToItems")
	var indent types.Object
	for _, f := range fd.Type.Params.List {
		for _, nm := range f.Names {
			if b, ok := info.TypeOf(f.Type).Underlying().(*types.Basic); ok && b.Kind() == types.Float64 {
				indent = info.Defs[nm]
			}
		}
	}
	if indent == nil {
		panic(core.Infra("GlyphsToItems: float64 parameter (indent) not found"))
	}
	mentions := func(n ast.Node, o types.Object) bool {
		hit := false
		ast.Inspect(n, func(m ast.Node) bool {
			if id, ok := m.(*ast.Ident); ok && core.ObjOf(info, id) == o {
				hit = true
			}
			return !hit
		})
		return hit
	}
	// the list: the slice of Item the returns hand back
	isItems := func(e ast.Expr) bool {
		id, ok := core.Unparen(e).(*ast.Ident)
		if !ok {
			return false
		}
		sl, ok := info.TypeOf(id).Underlying().(*types.Slice)
		if !ok {
			return false
		}
		nt, ok := sl.Elem().(*types.Named)
		return ok && nt.Obj().Name() == "Item"
	}
	nRet := 0
	var bad []ast.Node
	var walk func(stmts []ast.Stmt, done bool) (bool, bool) // (done at fall-through, falls through)
	walk = func(stmts []ast.Stmt, done bool) (bool, bool) {
		for _, st := range stmts {
			switch x := st.(type) {
			case *ast.ReturnStmt:
				if len(x.Results) == 1 && isItems(x.Results[0]) {
					nRet++
					if !done {
						bad = append(bad, x)
					}
				}
				return done, false
			case *ast.BlockStmt:
				d, falls := walk(x.List, done)
				if !falls {
					return d, false
				}
				done = d
			case *ast.IfStmt:
				dT, fT := walk(x.Body.List, done)
				dF, fF := done, true
				switch e := x.Else.(type) {
				case *ast.BlockStmt:
					dF, fF = walk(e.List, done)
				case *ast.IfStmt:
					dF, fF = walk([]ast.Stmt{e}, done)
				}
				switch {
				case fT && fF:
					done = dT && dF
				case fT:
					done = dT
				case fF:
					done = dF
				default:
					return done, false
				}
			case *ast.ForStmt:
				walk(x.Body.List, done) // reports returns inside; contributes nothing
			case *ast.RangeStmt:
				walk(x.Body.List, done)
			case *ast.SwitchStmt:
				all, hasDefault := true, false
				for _, cs := range x.Body.List {
					cc := cs.(*ast.CaseClause)
					if cc.List == nil {
						hasDefault = true
					}
					d, falls := walk(cc.Body, done)
					if falls && !d {
						all = false
					}
				}
				if !hasDefault {
					all = all && done
				}
				done = done || all
			default:
				if mentions(st, indent) {
					// the use must go into the list: an append to / element of a []Item, or an Item constructor
					uses := false
					ast.Inspect(st, func(m ast.Node) bool {
						switch y := m.(type) {
						case *ast.CallExpr:
							if mentions(y, indent) {
								if t := info.TypeOf(y); t != nil {
									if nt, ok := t.(*types.Named); ok && nt.Obj().Name() == "Item" {
										uses = true
									}
									if sl, ok := t.Underlying().(*types.Slice); ok {
										if nt, ok := sl.Elem().(*types.Named); ok && nt.Obj().Name() == "Item" {
											uses = true
										}
									}
								}
							}
						case *ast.AssignStmt:
							for i, l := range y.Lhs {
								if se, ok := l.(*ast.SelectorExpr); ok && i < len(y.Rhs) && mentions(y.Rhs[i], indent) {
									if ie, ok := core.Unparen(se.X).(*ast.IndexExpr); ok && isItems(ie.X) {
										uses = true
									}
								}
							}
						}
						return true
					})
					if uses {
						done = true
					}
				}
			}
		}
		return done, true
	}
	walk(fd.Body.List, false)
	r.Count("E11.indent-returns", nRet)
	r.Floor("E11.indent-returns", 1)
	key := "text.GlyphsToItems|the indent is in the items on every path that returns them"
	if len(bad) == 0 {
		r.OK("E11.indent-on-every-path", key, c.Pos(fd.Pos()), fmt.Sprintf("%d returns of the list", nRet))
	} else {
		r.Fail("E11.indent-on-every-path", key, c.Pos(bad[0].Pos()), "a path through GlyphsToItems reaches this return without having put the indent into the item list (the statement that uses it sits in one branch only): the line breaker measures the first line without the indent while ToText draws it shifted by the indent, so the first line sticks out of the box by up to the indent and aligned lines are displaced")
	}
}

// E11SignFlipPerIteration: a sign flipped inside a loop starts afresh in every iteration.
func E11SignFlipPerIteration(c *core.Ctx, r *core.Report) {
	r.Rule("E11.sign-flip-per-iteration", "where a loop body negates a variable in place (`v = -v`, under a condition on the current element: the sweep direction of this arc, the orientation of this glyph) the variable describes the current element only, so it is given a value that does not depend on its previous one earlier in the same iteration — it is declared in the loop body, or assigned there before the flip in a block that encloses the flip. Declared before the loop and flipped conditionally, the sign is carried over: in Path.offset a clockwise arc would swap inner and outer radius for itself and for every later arc of the sub-path")
	n := 0
	for _, rel := range []string{"", "text"} {
		p := c.MustPkg(rel)
		info := p.TypesInfo
		for _, fd := range core.AllFuncDecls(p) {
			if fd.Body == nil || strings.HasSuffix(c.Fset.Position(fd.Pos()).Filename, "_test.go") {
				continue
			}
			var stack []ast.Node
			k := 0
			ast.Inspect(fd.Body, func(m ast.Node) bool {
				if m == nil {
					stack = stack[:len(stack)-1]
					return true
				}
				stack = append(stack, m)
				as, ok := m.(*ast.AssignStmt)
				if !ok || len(as.Lhs) != 1 || len(as.Rhs) != 1 || as.Tok != token.ASSIGN {
					return true
				}
				lid, ok := as.Lhs[0].(*ast.Ident)
				if !ok {
					return true
				}
				u, ok := core.Unparen(as.Rhs[0]).(*ast.UnaryExpr)
				if !ok || u.Op != token.SUB {
					return true
				}
				rid, ok := core.Unparen(u.X).(*ast.Ident)
				if !ok || core.ObjOf(info, rid) != core.ObjOf(info, lid) {
					return true
				}
				v := core.ObjOf(info, lid)
				// innermost enclosing loop
				var loopBody *ast.BlockStmt
				loopIdx := -1
				for i := len(stack) - 2; i >= 0 && loopBody == nil; i-- {
					switch l := stack[i].(type) {
					case *ast.ForStmt:
						loopBody, loopIdx = l.Body, i
					case *ast.RangeStmt:
						loopBody, loopIdx = l.Body, i
					case *ast.FuncLit:
						i = -1
					}
				}
				if loopBody == nil {
					return true
				}
				k++
				n++
				key := fmt.Sprintf("%s.%s|sign flip of `%s` #%d", p.Types.Name(), core.FuncName(fd), lid.Name, k)
				if loopBody.Pos() <= v.Pos() && v.Pos() < loopBody.End() {
					r.OK("E11.sign-flip-per-iteration", key, c.Pos(as.Pos()), "declared in the loop body")
					return true
				}
				// a fresh assignment before the flip, in a block on the path from the loop body to the flip
				fresh := false
				for i := loopIdx + 1; i < len(stack)-1; i++ {
					var list []ast.Stmt
					switch b := stack[i].(type) {
					case *ast.BlockStmt:
						list = b.List
					case *ast.CaseClause:
						list = b.Body
					}
					for _, s := range list {
						if s.End() > as.Pos() {
							break
						}
						if a2, ok := s.(*ast.AssignStmt); ok && len(a2.Lhs) == len(a2.Rhs) {
							for j, l := range a2.Lhs {
								if id2, ok := l.(*ast.Ident); ok && core.ObjOf(info, id2) == v {
									self := false
									ast.Inspect(a2.Rhs[j], func(q ast.Node) bool {
										if id3, ok := q.(*ast.Ident); ok && core.ObjOf(info, id3) == v {
											self = true
										}
										return true
									})
									if !self && a2.Tok == token.ASSIGN {
										fresh = true
									}
								}
							}
						}
					}
				}
				if fresh {
					r.OK("E11.sign-flip-per-iteration", key, c.Pos(as.Pos()), "assigned afresh earlier in the iteration")
				} else {
					r.Fail("E11.sign-flip-per-iteration", key, c.Pos(as.Pos()), fmt.Sprintf("`%s = -%s` runs inside a loop but `%s` is declared before the loop and not given a fresh value earlier in the iteration: the flip made for one element stays in force for the following ones (and is undone by the next element that flips), so every second such element is treated with the wrong sign", lid.Name, lid.Name, lid.Name))
				}
				return true
			})
		}
	}
	r.Count("E11.sign-flip-per-iteration", n)
	r.Floor("E11.sign-flip-per-iteration", 2)
}

// E11SplitKeepsEndpoint: a helper that cuts one arc into pieces ends the last piece at the arc's end point.
func E11SplitKeepsEndpoint(c *core.Ctx, r *core.Report) {
	r.Rule("E11.split-keeps-endpoint", "the helpers that replace one elliptical arc (start … end) by several pieces computed in a loop from angles — xmonotoneEllipticArc, the circular branch of flattenEllipticArc — hand back a path that ends at `end` itself: the last builder call of the function (after the loop), or the builder call inside the loop through a variable that is assigned `end` on the terminating iteration, takes the coordinates of the end parameter. A position recomputed from the final angle lies 1e-16 next to it; for a closed path the end no longer equals the start, and CCW — which picks the bottom-right-most point with a strict comparison — takes the zero-length closing segment for the corner: a clockwise circle of two half arcs is reported counter-clockwise and its stroke is empty")
	p := c.MustPkg("")
	info := p.TypesInfo
	n := 0
	for _, fd := range core.AllFuncDecls(p) {
		if fd.Body == nil || fd.Recv != nil || fd.Type.Results.NumFields() != 1 {
			continue
		}
		// parameters: first and last of type Point named in the signature; arcs have radii in between
		var pts []types.Object
		hasBool := false
		for _, f := range fd.Type.Params.List {
			for _, nm := range f.Names {
				if nt, ok := info.TypeOf(f.Type).(*types.Named); ok && nt.Obj().Name() == "Point" {
					pts = append(pts, info.Defs[nm])
				}
				if b, ok := info.TypeOf(f.Type).Underlying().(*types.Basic); ok && b.Kind() == types.Bool {
					hasBool = true
				}
			}
		}
		if len(pts) != 2 || !hasBool {
			continue // not an arc helper (start, radii, flags, end)
		}
		if pt, ok := info.TypeOf(fd.Type.Results.List[0].Type).(*types.Pointer); !ok || !strings.HasSuffix(pt.Elem().String(), ".Path") {
			continue
		}
		end := pts[1]
		// builder calls on a local path, in loops whose positions are computed in this function
		builders := map[string]bool{"LineTo": true, "QuadTo": true, "CubeTo": true, "ArcTo": true}
		type bc struct {
			call   *ast.CallExpr
			inLoop bool
		}
		var calls []bc
		var visit func(n ast.Node, inLoop bool)
		visit = func(n ast.Node, inLoop bool) {
			ast.Inspect(n, func(m ast.Node) bool {
				switch x := m.(type) {
				case *ast.ForStmt:
					if x != n {
						visit(x.Body, true)
						return false
					}
				case *ast.RangeStmt:
					if x != n {
						return false // pieces produced by another helper: that helper is the one to look at
					}
				case *ast.FuncLit:
					return false
				case *ast.CallExpr:
					if se, ok := x.Fun.(*ast.SelectorExpr); ok && builders[se.Sel.Name] && len(x.Args) >= 2 {
						if f := core.CalleeOf(info, x); f != nil && f.Pkg() == p.Types {
							calls = append(calls, bc{x, inLoop})
						}
					}
				}
				return true
			})
		}
		visit(fd.Body, false)
		loopCalls := 0
		for _, b := range calls {
			if b.inLoop {
				loopCalls++
			}
		}
		if loopCalls == 0 {
			continue
		}
		isEndCoord := func(call *ast.CallExpr) bool {
			a := call.Args[len(call.Args)-2:]
			var objs [2]types.Object
			for i, e := range a {
				se, ok := core.Unparen(e).(*ast.SelectorExpr)
				if !ok {
					return false
				}
				id, ok := core.Unparen(se.X).(*ast.Ident)
				if !ok || (i == 0 && se.Sel.Name != "X") || (i == 1 && se.Sel.Name != "Y") {
					return false
				}
				objs[i] = core.ObjOf(info, id)
			}
			if objs[0] != objs[1] {
				return false
			}
			if objs[0] == end {
				return true
			}
			// a local that is assigned the end parameter somewhere in the function
			viaEnd := false
			ast.Inspect(fd.Body, func(m ast.Node) bool {
				if as, ok := m.(*ast.AssignStmt); ok && len(as.Lhs) == len(as.Rhs) {
					for i, l := range as.Lhs {
						if lid, ok := l.(*ast.Ident); ok && core.ObjOf(info, lid) == objs[0] {
							if rid, ok := core.Unparen(as.Rhs[i]).(*ast.Ident); ok && core.ObjOf(info, rid) == end {
								viaEnd = true
							}
						}
					}
				}
				return true
			})
			return viaEnd
		}
		// group by the return that follows: every builder-in-loop group needs an end-coordinate call in the loop or after it
		n++
		key := fmt.Sprintf("canvas.%s|the last piece ends at the end parameter", core.FuncName(fd))
		good := false
		for _, b := range calls {
			if isEndCoord(b.call) {
				good = true
			}
		}
		if good {
			r.OK("E11.split-keeps-endpoint", key, c.Pos(fd.Pos()), "")
		} else {
			r.Fail("E11.split-keeps-endpoint", key, c.Pos(fd.Pos()), fmt.Sprintf("%s builds its pieces in a loop from recomputed positions and no builder call takes the coordinates of `%s`: the path handed back ends next to the arc's end point, not at it; a closed path is no longer closed exactly and CCW (strict comparison at the right-most point) misreads the orientation", core.FuncName(fd), end.Name()))
		}
	}
	r.Count("E11.split-keeps-endpoint", n)
	r.Floor("E11.split-keeps-endpoint", 2)
}

// E11MatrixComposers: a Matrix method that composes does so by multiplication only.
func E11MatrixComposers(c *core.Ctx, r *core.Report) {
	r.Rule("E11.matrix-composers", "Matrix documents that its transformation methods compose on the right: m.Op(…) is m·Op. The methods that build their result by calling Mul or another Matrix-returning method (Translate, Rotate, RotateAbout, Scale, ScaleAbout, Shear, ShearAbout, the reflections) therefore get it from such calls alone, and no Matrix-returning method of Matrix ever writes an element of a Matrix value (the ones that work on entries — Mul, T, Inv — return a fresh literal): a correction added straight into the translation column (`m[0][2] += …`) is not mapped through the receiver's linear part, so the method is right on the identity and on pure translations only — RotateAbout on a scaled receiver would move the pivot")
	p := c.MustPkg("")
	info := p.TypesInfo
	isMatrix := func(t types.Type) bool {
		nt, ok := t.(*types.Named)
		return ok && nt.Obj().Name() == "Matrix" && nt.Obj().Pkg() == p.Types
	}
	n := 0
	for _, fd := range core.AllFuncDecls(p) {
		if fd.Recv == nil || fd.Body == nil || core.RecvName(fd) != "Matrix" || fd.Type.Results.NumFields() != 1 {
			continue
		}
		if !isMatrix(info.TypeOf(fd.Type.Results.List[0].Type)) {
			continue
		}
		composes := false
		writes := 0
		var write ast.Node
		ast.Inspect(fd.Body, func(m ast.Node) bool {
			switch x := m.(type) {
			case *ast.CallExpr:
				if se, ok := x.Fun.(*ast.SelectorExpr); ok {
					if t := info.TypeOf(se.X); t != nil && isMatrix(t) {
						if rt := info.TypeOf(x); rt != nil && isMatrix(rt) {
							composes = true
						}
					}
				}
			case *ast.AssignStmt:
				hit := false
				for _, l := range x.Lhs {
					e := core.Unparen(l)
					for {
						ie, ok := e.(*ast.IndexExpr)
						if !ok {
							break
						}
						if t := info.TypeOf(ie.X); t != nil && isMatrix(t) {
							hit = true
							if write == nil {
								write = x
							}
						}
						e = core.Unparen(ie.X)
					}
				}
				if hit {
					writes++
				}
			case *ast.IncDecStmt:
				if ie, ok := core.Unparen(x.X).(*ast.IndexExpr); ok {
					if ie2, ok := core.Unparen(ie.X).(*ast.IndexExpr); ok {
						if t := info.TypeOf(ie2.X); t != nil && isMatrix(t) {
							writes++
							if write == nil {
								write = x
							}
						}
					}
				}
			}
			return true
		})
		if !composes && write == nil {
			continue // builds a fresh literal from the entries (Mul, Inv)
		}
		if !composes && writes == 1 {
			if as, ok := write.(*ast.AssignStmt); ok && as.Tok == token.ASSIGN {
				// one parallel assignment that only moves entries around (T swaps two of them); an assignment
				// that computes with the entries (a negated row) is a transformation applied on the wrong side
				permutes := true
				for _, rhs := range as.Rhs {
					if _, ok := core.Unparen(rhs).(*ast.IndexExpr); !ok {
						permutes = false
					}
				}
				if permutes {
					continue
				}
			}
		}
		n++
		key := "canvas." + core.FuncName(fd) + "|composes by multiplication only"
		if write == nil {
			r.OK("E11.matrix-composers", key, c.Pos(fd.Pos()), "")
		} else {
			r.Fail("E11.matrix-composers", key, c.Pos(write.Pos()), fmt.Sprintf("%s writes an element of a Matrix directly instead of getting its result from Mul (or from another composing method): entries updated one after the other read entries that were already changed, and a term added to an entry is not multiplied by the receiver's linear part — the result equals m·Op only for special receivers (the identity, translations, scalings)", core.FuncName(fd)))
		}
	}
	r.Count("E11.matrix-composers", n)
	r.Floor("E11.matrix-composers", 8)
}

// E11LayerMatrixLeft: a transformation of the whole canvas goes on the left of a layer's matrix.
func E11LayerMatrixLeft(c *core.Ctx, r *core.Report) {
	r.Rule("E11.layer-matrix-left", "a layer's matrix maps the layer's own coordinates to canvas millimetres; a transformation of the canvas (Transform, Clip and Fit through it, the view of RenderViewTo) acts on canvas millimetres and is therefore applied after it: wherever a new matrix is derived from the `m` field of a layer, the field is the argument of Mul (T·l.m), never the receiver of a Matrix method (l.m·T). Matrix methods compose on the right, so `l.m.Translate(-x0, -y0)` shifts in the layer's local coordinates: right for layers whose matrix is a pure translation, wrong under CartesianII–IV or any scaled, rotated or reflected view")
	p := c.MustPkg("")
	info := p.TypesInfo
	isLayerM := func(e ast.Expr) bool {
		se, ok := core.Unparen(e).(*ast.SelectorExpr)
		if !ok {
			return false
		}
		s := info.Selections[se]
		if s == nil || s.Kind() != types.FieldVal {
			return false
		}
		v, ok := s.Obj().(*types.Var)
		if !ok {
			return false
		}
		rt := s.Recv()
		if pt, ok := rt.(*types.Pointer); ok {
			rt = pt.Elem()
		}
		nt, ok := rt.(*types.Named)
		if !ok || nt.Obj().Name() != "layer" || nt.Obj().Pkg() != p.Types {
			return false
		}
		mt, ok := v.Type().(*types.Named)
		return ok && mt.Obj().Name() == "Matrix"
	}
	n := 0
	for _, fd := range core.AllFuncDecls(p) {
		if fd.Body == nil || strings.HasSuffix(c.Fset.Position(fd.Pos()).Filename, "_test.go") {
			continue
		}
		k := 0
		ast.Inspect(fd.Body, func(m ast.Node) bool {
			call, ok := m.(*ast.CallExpr)
			if !ok {
				return true
			}
			se, ok := call.Fun.(*ast.SelectorExpr)
			if !ok {
				return true
			}
			rt := info.TypeOf(call)
			nt, isNamed := rt.(*types.Named)
			if !isNamed || nt.Obj().Name() != "Matrix" {
				return true
			}
			if isLayerM(se.X) {
				k++
				n++
				r.Fail("E11.layer-matrix-left", fmt.Sprintf("canvas.%s|matrix derived from a layer #%d", core.FuncName(fd), k), c.Pos(call.Pos()), fmt.Sprintf("`%s` applies %s on the right of the layer's matrix, i.e. in the layer's own coordinates; a transformation of the canvas is in millimetres of the canvas and belongs on the left (T.Mul(l.m)). The result is the same only for layers whose matrix is a pure translation", types.ExprString(call), se.Sel.Name))
				return true
			}
			if se.Sel.Name == "Mul" && len(call.Args) == 1 && isLayerM(call.Args[0]) {
				k++
				n++
				r.OK("E11.layer-matrix-left", fmt.Sprintf("canvas.%s|matrix derived from a layer #%d", core.FuncName(fd), k), c.Pos(call.Pos()), types.ExprString(call))
			}
			return true
		})
	}
	r.Count("E11.layer-matrix-left", n)
	r.Floor("E11.layer-matrix-left", 2)
}

// E11SinkForwardsEverySegment: the raster sinks hand every drawing command to the scanner on every path.
func E11SinkForwardsEverySegment(c *core.Ctx, r *core.Report) {
	r.Rule("E11.sink-forwards-every-segment", "Path.ToScanxScanner and Path.ToVectorRasterizer walk the command stream and hand it to the scan converter. Every path through the case of a drawing command (line, quadratic, cubic, arc, close) reaches a call on the sink — directly, or in the loop over the flattened curve — before the case ends: no `break` or `continue` leaves the case earlier. A curve segment may not be skipped for ending where it starts: a cubic whose end point equals its start point is a loop that encloses area (Contains and Flatten treat it so), and skipping it leaves its interior unpainted")
	p := c.MustPkg("")
	info := p.TypesInfo
	n := 0
	for _, name := range []string{"Path.ToScanxScanner", "Path.ToVectorRasterizer"} {
		fd := core.MustFuncDecl(p, name)
		r.Func("canvas." + name)
		// the sink: the first parameter of pointer type from another package
		var sink types.Object
		for _, f := range fd.Type.Params.List {
			for _, nm := range f.Names {
				if pt, ok := info.TypeOf(f.Type).(*types.Pointer); ok && sink == nil {
					if nt, ok := pt.Elem().(*types.Named); ok && nt.Obj().Pkg() != p.Types {
						sink = info.Defs[nm]
					}
				}
			}
		}
		if sink == nil {
			panic(core.Infra(name + ": sink parameter not found"))
		}
		callsSink := func(st ast.Stmt) bool {
			hit := false
			ast.Inspect(st, func(m ast.Node) bool {
				if call, ok := m.(*ast.CallExpr); ok {
					if se, ok := call.Fun.(*ast.SelectorExpr); ok {
						if id, ok := core.Unparen(se.X).(*ast.Ident); ok && core.ObjOf(info, id) == sink {
							hit = true
						}
					}
				}
				return !hit
			})
			return hit
		}
		for _, cc := range cmdSwitchClauses(p, fd) {
			label := core.CaseLabel(info, cc)
			if cc.List == nil || strings.Contains(label, "MoveToCmd") {
				continue
			}
			n++
			key := fmt.Sprintf("canvas.%s|%s|reaches the sink on every path", name, label)
			// a statement that is a loop or plain call containing a sink call discharges; an if that contains one does
			// not (its body is walked)
			hit := func(st ast.Stmt) bool {
				switch st.(type) {
				case *ast.IfStmt, *ast.BlockStmt:
					return false
				}
				return callsSink(st)
			}
			if ok, bad := cpsMustHitOpt(cc.Body, hit, true); ok {
				r.OK("E11.sink-forwards-every-segment", key, c.Pos(cc.Pos()), "")
			} else {
				pos := cc.Pos()
				if bad != nil {
					pos = bad.Pos()
				}
				r.Fail("E11.sink-forwards-every-segment", key, c.Pos(pos), fmt.Sprintf("a path through `%s` leaves the case (or reaches its end) without a call on the scan converter: the segment is dropped for some inputs. A curve that ends where it starts is not empty — a cubic loop encloses area — so its interior stays unpainted", label))
			}
		}
	}
	r.Count("E11.sink-forwards-every-segment", n)
	r.Floor("E11.sink-forwards-every-segment", 6)
}

// E11CutsSortedBeforeUse: SplitAt orders its cut list before it looks at any element of it.
func E11CutsSortedBeforeUse(c *core.Ctx, r *core.Report) {
	r.Rule("E11.cuts-sorted-before-use", "Path.SplitAt accepts its cut positions in any order and walks them with one index that only moves when a cut is made, so the list must be increasing before any element of it is read: every index or range expression on the cut list sits in a top-level statement of SplitAt that comes after the statement that sorts it (`sort.Float64s`, possibly guarded by `!sort.Float64sAreSorted`). A test of the first element made before the sort — dropping a leading 0 — sees the first element as given, not the smallest; a 0 elsewhere in the list then sorts to the front, the walk never gets past it and SplitAt returns the path in one piece")
	p := c.MustPkg("")
	info := p.TypesInfo
	fd := core.MustFuncDecl(p, "Path.SplitAt")
	r.Func("canvas.Path.SplitAt")
	var cuts types.Object
	for _, f := range fd.Type.Params.List {
		if _, ok := f.Type.(*ast.Ellipsis); ok && len(f.Names) == 1 {
			cuts = info.Defs[f.Names[0]]
		}
	}
	if cuts == nil {
		panic(core.Infra("SplitAt: variadic cut list not found"))
	}
	isCuts := func(e ast.Expr) bool {
		id, ok := core.Unparen(e).(*ast.Ident)
		return ok && core.ObjOf(info, id) == cuts
	}
	sortIdx := -1
	for i, st := range fd.Body.List {
		found := false
		ast.Inspect(st, func(m ast.Node) bool {
			if call, ok := m.(*ast.CallExpr); ok && len(call.Args) == 1 && isCuts(call.Args[0]) {
				if f := core.CalleeOf(info, call); f != nil && f.Pkg() != nil && f.Pkg().Path() == "sort" && (f.Name() == "Float64s") {
					found = true
				}
			}
			return true
		})
		if found && sortIdx < 0 {
			// unconditional, or guarded by the negated sortedness test only
			switch x := st.(type) {
			case *ast.ExprStmt:
				sortIdx = i
			case *ast.IfStmt:
				if u, ok := core.Unparen(x.Cond).(*ast.UnaryExpr); ok && u.Op == token.NOT {
					if call, ok := core.Unparen(u.X).(*ast.CallExpr); ok {
						if f := core.CalleeOf(info, call); f != nil && f.Name() == "Float64sAreSorted" && x.Else == nil {
							sortIdx = i
						}
					}
				}
			}
		}
	}
	key := "canvas.Path.SplitAt|the cut list is sorted before any element is read"
	r.Count("E11.cuts-sorted-before-use", 1)
	if sortIdx < 0 {
		r.Fail("E11.cuts-sorted-before-use", key, c.Pos(fd.Pos()), "no top-level statement of SplitAt sorts the cut list unconditionally (sort.Float64s, or that call under `if !sort.Float64sAreSorted(…)`): cuts given out of order are walked as they come and those behind a larger one are dropped")
		return
	}
	var early ast.Node
	reads := 0
	for i, st := range fd.Body.List {
		ast.Inspect(st, func(m ast.Node) bool {
			var target ast.Expr
			switch x := m.(type) {
			case *ast.IndexExpr:
				target = x.X
			case *ast.RangeStmt:
				target = x.X
			}
			if target != nil && isCuts(target) {
				reads++
				if i < sortIdx && early == nil {
					early = m
				}
			}
			return true
		})
	}
	r.Count("E11.cut-list-reads", reads)
	r.Floor("E11.cut-list-reads", 4)
	if early == nil {
		r.OK("E11.cuts-sorted-before-use", key, c.Pos(fd.Body.List[sortIdx].Pos()), fmt.Sprintf("%d element reads, all after the sort", reads))
	} else {
		r.Fail("E11.cuts-sorted-before-use", key, c.Pos(early.Pos()), fmt.Sprintf("`%s` is read before the cut list is sorted: it is the first element as the caller gave it, not the smallest. A decision taken on it (dropping a leading 0) misses a 0 given later in the list, which then sorts to the front; the walk's index never moves past a cut that is not greater than the position reached, every cut is dropped and the path comes back in one piece", c.Src(early)))
	}
}

// E11NoWrapWidthSkipsLeadingGlue: the hand-built breakpoints of unwrapped text measure a line as Linebreak does.
func E11NoWrapWidthSkipsLeadingGlue(c *core.Ctx, r *core.Report) {
	r.Rule("E11.nowrap-width-skips-leading-glue", "with width 0 RichText.ToText builds the breakpoints itself: a loop over the items that appends a Breakpoint at every forced break with the accumulated width. The white space that directly follows a break is skipped when the line is built and Linebreak does not count it into the next line, so the loop does not either: the accumulating `w += item.Width` is reached for a glue item only when a boolean that is set where a breakpoint is appended and cleared at a box item is false. Otherwise right-aligned and centred lines that start with white space after a newline are displaced by that white space")
	p := c.MustPkg("")
	info := p.TypesInfo
	fd := core.MustFuncDecl(p, "RichText.ToText")
	r.Func("canvas.RichText.ToText")
	key := "canvas.RichText.ToText|unwrapped line width leaves out the white space after a break"
	// the loop: ranges over []text.Item and appends &text.Breakpoint{…}
	var loop *ast.RangeStmt
	ast.Inspect(fd.Body, func(m ast.Node) bool {
		rs, ok := m.(*ast.RangeStmt)
		if !ok || loop != nil {
			return true
		}
		has := false
		ast.Inspect(rs.Body, func(k ast.Node) bool {
			if cl, ok := k.(*ast.CompositeLit); ok {
				if t := info.TypeOf(cl); t != nil && strings.HasSuffix(t.String(), "text.Breakpoint") {
					has = true
				}
			}
			return true
		})
		if has {
			loop = rs
		}
		return true
	})
	if loop == nil {
		r.Fail("E11.nowrap-width-skips-leading-glue", key, c.Pos(fd.Pos()), "the loop that builds the breakpoints of unwrapped text was not found")
		return
	}
	r.Count("E11.nowrap-width-skips-leading-glue", 1)
	// the accumulator statement and the conditions on the way to it
	var acc *ast.AssignStmt
	var conds []ast.Expr
	var walk func(n ast.Node, cs []ast.Expr)
	walk = func(n ast.Node, cs []ast.Expr) {
		switch x := n.(type) {
		case *ast.BlockStmt:
			for _, s := range x.List {
				walk(s, cs)
			}
		case *ast.IfStmt:
			walk(x.Body, append(append([]ast.Expr{}, cs...), x.Cond))
			if x.Else != nil {
				walk(x.Else, cs)
			}
		case *ast.AssignStmt:
			if x.Tok == token.ADD_ASSIGN && len(x.Rhs) == 1 && acc == nil {
				if se, ok := core.Unparen(x.Rhs[0]).(*ast.SelectorExpr); ok && se.Sel.Name == "Width" {
					acc, conds = x, cs
				}
			}
		}
	}
	walk(loop.Body, nil)
	if acc == nil {
		r.Fail("E11.nowrap-width-skips-leading-glue", key, c.Pos(loop.Pos()), "no `w += item.Width` in the loop")
		return
	}
	// a boolean local mentioned in the conditions, set true next to the append and false under a BoxType test
	good := ""
	undecided := false
	for _, cnd := range conds {
		ast.Inspect(cnd, func(k ast.Node) bool {
			id, ok := k.(*ast.Ident)
			if !ok {
				return true
			}
			o, ok := core.ObjOf(info, id).(*types.Var)
			if !ok {
				return true
			}
			if b, ok := o.Type().Underlying().(*types.Basic); !ok || b.Kind() != types.Bool {
				return true
			}
			setAtBreak, clearedAtBox := false, false
			var visit func(n ast.Node, underBox bool, withAppend bool)
			visit = func(n ast.Node, underBox bool, withAppend bool) {
				switch x := n.(type) {
				case *ast.BlockStmt:
					app := false
					for _, s := range x.List {
						ast.Inspect(s, func(q ast.Node) bool {
							if cl, ok := q.(*ast.CompositeLit); ok {
								if t := info.TypeOf(cl); t != nil && strings.HasSuffix(t.String(), "text.Breakpoint") {
									app = true
								}
							}
							return true
						})
					}
					for _, s := range x.List {
						visit(s, underBox, app)
					}
				case *ast.IfStmt:
					box := strings.Contains(types.ExprString(x.Cond), "BoxType") && !strings.Contains(types.ExprString(x.Cond), "!=")
					visit(x.Body, underBox || box, false)
					if x.Else != nil {
						visit(x.Else, underBox, false)
					}
				case *ast.AssignStmt:
					if len(x.Lhs) == 1 && len(x.Rhs) == 1 {
						if lid, ok := x.Lhs[0].(*ast.Ident); ok && core.ObjOf(info, lid) == o {
							if rid, ok := core.Unparen(x.Rhs[0]).(*ast.Ident); ok {
								if rid.Name == "true" && withAppend {
									setAtBreak = true
								}
								if rid.Name == "false" && underBox {
									clearedAtBox = true
								}
							}
						}
					}
				}
			}
			visit(loop.Body, false, false)
			if setAtBreak && clearedAtBox {
				// with the flag set and the item a glue, the conditions on the way to the accumulation must not all hold
				var eval func(e ast.Expr) (bool, bool)
				eval = func(e ast.Expr) (bool, bool) {
					e = core.Unparen(e)
					switch x := e.(type) {
					case *ast.Ident:
						if core.ObjOf(info, x) == o {
							return true, true
						}
					case *ast.UnaryExpr:
						if x.Op == token.NOT {
							v, ok := eval(x.X)
							return !v, ok
						}
					case *ast.BinaryExpr:
						switch x.Op {
						case token.LAND, token.LOR:
							a, okA := eval(x.X)
							b, okB := eval(x.Y)
							if x.Op == token.LAND {
								if (okA && !a) || (okB && !b) {
									return false, true
								}
								return a && b, okA && okB
							}
							if (okA && a) || (okB && b) {
								return true, true
							}
							return a || b, okA && okB
						case token.EQL, token.NEQ:
							for _, side := range []ast.Expr{x.X, x.Y} {
								kind := types.ExprString(side)
								for _, nm := range []string{"GlueType", "BoxType", "PenaltyType"} {
									if strings.HasSuffix(kind, nm) {
										isGlue := nm == "GlueType"
										return isGlue == (x.Op == token.EQL), true
									}
								}
							}
						}
					}
					return false, false
				}
				all, decided := true, true
				for _, cn := range conds {
					v, ok := eval(cn)
					if !ok {
						decided = false
					} else if !v {
						all = false
					}
				}
				if !all {
					good = o.Name()
				} else if !decided {
					undecided = true
				}
			}
			return true
		})
	}
	if undecided && good == "" {
		r.Fail("E11.nowrap-width-skips-leading-glue", key, c.Pos(acc.Pos()), "the conditions on the way to the accumulation could not be evaluated for a glue item directly after a break; the rule cannot decide this form")
		return
	}
	if good != "" {
		r.OK("E11.nowrap-width-skips-leading-glue", key, c.Pos(acc.Pos()), "guarded by "+good)
	} else {
		r.Fail("E11.nowrap-width-skips-leading-glue", key, c.Pos(acc.Pos()), fmt.Sprintf("`%s` adds every glue item to the line, also the white space that directly follows a forced break (no flag that is set where the breakpoint is appended and cleared at the next box guards it): that white space is skipped when the line is built and Linebreak leaves it out, so a right-aligned line starting with white space after a newline ends short of the edge by its width", c.Src(acc)))
	}
}

// E11PenAdvancesOnly: the pen of the outline converter moves by the advances and by nothing else.
func E11PenAdvancesOnly(c *core.Ctx, r *core.Report) {
	r.Rule("E11.pen-advances-only", "FontFace.toPath places each glyph outline at the sum of the preceding advances (plus the face's own offsets) and applies a glyph's XOffset/YOffset to that glyph only. In the loop over the glyphs, every assignment to a variable that outlives the iteration and is handed to the outline call (the pen) adds fields of the current glyph whose name ends in `Advance` and nothing else of the glyph: a glyph's offset added to the pen itself displaces every following glyph by it — the acute of \"q\\u0301x\" moves the x by −230 units — and the width returned is no longer the sum of the advances, so path rendering disagrees with TextWidth and the PDF")
	p := c.MustPkg("")
	info := p.TypesInfo
	fd := core.MustFuncDecl(p, "FontFace.toPath")
	r.Func("canvas.FontFace.toPath")
	var loop *ast.RangeStmt
	ast.Inspect(fd.Body, func(m ast.Node) bool {
		if rs, ok := m.(*ast.RangeStmt); ok && loop == nil {
			if sl, ok := info.TypeOf(rs.X).Underlying().(*types.Slice); ok {
				if nt, ok := sl.Elem().(*types.Named); ok && nt.Obj().Name() == "Glyph" {
					loop = rs
				}
			}
		}
		return true
	})
	if loop == nil {
		r.Fail("E11.pen-advances-only", "canvas.FontFace.toPath|glyph loop", c.Pos(fd.Pos()), "the loop over the glyphs was not found")
		return
	}
	var glyph types.Object
	if id, ok := loop.Value.(*ast.Ident); ok {
		glyph = info.Defs[id]
	}
	n := 0
	ast.Inspect(loop.Body, func(m ast.Node) bool {
		as, ok := m.(*ast.AssignStmt)
		if !ok || len(as.Lhs) != len(as.Rhs) {
			return true
		}
		for i, l := range as.Lhs {
			lid, ok := l.(*ast.Ident)
			if !ok {
				continue
			}
			o := core.ObjOf(info, lid)
			if o == nil || (loop.Body.Pos() <= o.Pos() && o.Pos() < loop.Body.End()) {
				continue // a local of the iteration
			}
			if b, ok := o.Type().Underlying().(*types.Basic); !ok || b.Info()&types.IsNumeric == 0 {
				continue
			}
			n++
			key := fmt.Sprintf("canvas.FontFace.toPath|pen update #%d (%s)", n, lid.Name)
			bad := ""
			ast.Inspect(as.Rhs[i], func(k ast.Node) bool {
				se, ok := k.(*ast.SelectorExpr)
				if !ok {
					return true
				}
				if id, ok := core.Unparen(se.X).(*ast.Ident); ok && core.ObjOf(info, id) == glyph {
					if !strings.HasSuffix(se.Sel.Name, "Advance") {
						bad = types.ExprString(se)
					}
				}
				return true
			})
			if bad == "" {
				r.OK("E11.pen-advances-only", key, c.Pos(as.Pos()), c.Src(as))
			} else {
				r.Fail("E11.pen-advances-only", key, c.Pos(as.Pos()), fmt.Sprintf("`%s` adds `%s` to the pen, which is carried to the following glyphs: the offset of one glyph (a combining mark, a rotated glyph in vertical text) displaces every glyph after it, and the returned width is no longer the sum of the advances that TextWidth and the PDF use", c.Src(as), bad))
			}
		}
		return true
	})
	r.Count("E11.pen-advances-only", n)
	r.Floor("E11.pen-advances-only", 2)
}

// E11ControlPointClausesSymmetric: CubeTo's test for a cubic that is really a line treats both control points alike.
func E11ControlPointClausesSymmetric(c *core.Ctx, r *core.Report) {
	r.Rule("E11.control-point-clauses-symmetric", "Path.CubeTo stores a line instead of a cubic when both control points lie on the chord between start and end. The condition is a conjunction with one clause per control point, and the two clauses are the same test: every conjunct that mentions the first control point becomes, with the first control point's name replaced by the second's, a conjunct that mentions the second — and no conjunct mentions both. A clause for the second control point that tests the first one's position against the end point (a half-finished rename) lets the second control point lie beyond the end: a cubic that overshoots its end point and comes back is stored as a line, and the overshoot is gone from Bounds, Length, Flatten and every renderer")
	p := c.MustPkg("")
	info := p.TypesInfo
	fd := core.MustFuncDecl(p, "Path.CubeTo")
	r.Func("canvas.Path.CubeTo")
	var params []types.Object
	for _, f := range fd.Type.Params.List {
		for _, nm := range f.Names {
			params = append(params, info.Defs[nm])
		}
	}
	if len(params) != 6 {
		panic(core.Infra("CubeTo: six parameters expected"))
	}
	var cp [2]types.Object
	ast.Inspect(fd.Body, func(m ast.Node) bool {
		as, ok := m.(*ast.AssignStmt)
		if !ok || len(as.Lhs) != len(as.Rhs) {
			return true
		}
		for i, rhs := range as.Rhs {
			cl, ok := core.Unparen(rhs).(*ast.CompositeLit)
			if !ok || len(cl.Elts) != 2 {
				continue
			}
			a, ok1 := core.Unparen(cl.Elts[0]).(*ast.Ident)
			b, ok2 := core.Unparen(cl.Elts[1]).(*ast.Ident)
			lid, ok3 := as.Lhs[i].(*ast.Ident)
			if !ok1 || !ok2 || !ok3 {
				continue
			}
			for k := 0; k < 2; k++ {
				if core.ObjOf(info, a) == params[2*k] && core.ObjOf(info, b) == params[2*k+1] {
					cp[k] = core.ObjOf(info, lid)
				}
			}
		}
		return true
	})
	if cp[0] == nil || cp[1] == nil {
		r.Fail("E11.control-point-clauses-symmetric", "canvas.Path.CubeTo|control points", c.Pos(fd.Pos()), "the two Point locals built from the control point parameters were not found")
		return
	}
	mentions := func(e ast.Node, o types.Object) bool {
		hit := false
		ast.Inspect(e, func(m ast.Node) bool {
			if id, ok := m.(*ast.Ident); ok && core.ObjOf(info, id) == o {
				hit = true
			}
			return !hit
		})
		return hit
	}
	n := 0
	ast.Inspect(fd.Body, func(m ast.Node) bool {
		is, ok := m.(*ast.IfStmt)
		if !ok || !mentions(is.Cond, cp[0]) || !mentions(is.Cond, cp[1]) {
			return true
		}
		var conj []ast.Expr
		var flat func(e ast.Expr)
		flat = func(e ast.Expr) {
			e = core.Unparen(e)
			if b, ok := e.(*ast.BinaryExpr); ok && b.Op == token.LAND {
				flat(b.X)
				flat(b.Y)
				return
			}
			conj = append(conj, e)
		}
		flat(is.Cond)
		n++
		key := fmt.Sprintf("canvas.Path.CubeTo|condition #%d treats both control points alike", n)
		rename := func(e ast.Expr, from, to types.Object) string {
			// print with every occurrence of the identifier `from` written as `to`
			src := " " + types.ExprString(e) + " "
			var out strings.Builder
			for i := 0; i < len(src); {
				if strings.HasPrefix(src[i:], from.Name()) && !isWordByte(src[i-1]) && (i+len(from.Name()) >= len(src) || !isWordByte(src[i+len(from.Name())])) {
					out.WriteString(to.Name())
					i += len(from.Name())
					continue
				}
				out.WriteByte(src[i])
				i++
			}
			return strings.TrimSpace(out.String())
		}
		texts := map[string]bool{}
		for _, e := range conj {
			texts[types.ExprString(e)] = true
		}
		bad := ""
		for _, e := range conj {
			m0, m1 := mentions(e, cp[0]), mentions(e, cp[1])
			switch {
			case m0 && m1:
				bad = fmt.Sprintf("the conjunct `%s` mentions both control points", types.ExprString(e))
			case m0 && !texts[rename(e, cp[0], cp[1])]:
				bad = fmt.Sprintf("the conjunct `%s` for %s has no counterpart for %s", types.ExprString(e), cp[0].Name(), cp[1].Name())
			case m1 && !texts[rename(e, cp[1], cp[0])]:
				bad = fmt.Sprintf("the conjunct `%s` for %s has no counterpart for %s", types.ExprString(e), cp[1].Name(), cp[0].Name())
			}
		}
		if bad == "" {
			r.OK("E11.control-point-clauses-symmetric", key, c.Pos(is.Pos()), fmt.Sprintf("%d conjuncts", len(conj)))
		} else {
			r.Fail("E11.control-point-clauses-symmetric", key, c.Pos(is.Pos()), bad+": the two control points are not put to the same test, so one of them may lie off the chord (beyond the end point) while the cubic is still stored as a straight line — the part of the curve that overshoots disappears")
		}
		return true
	})
	r.Count("E11.control-point-clauses-symmetric", n)
	r.Floor("E11.control-point-clauses-symmetric", 2)
}

// E11EmptyValueAccepted: the attribute reader rejects by length only what it could not unquote.
func E11EmptyValueAccepted(c *core.Ctx, r *core.Report) {
	r.Rule("E11.empty-value-accepted", "svgParser.parseAttributes takes the quoted value of an attribute, leaves the attribute loop when the value is too short to carry its two quotes, and strips them with a slice `v[a : len(v)-b]`. The slice is valid for len(v) ≥ a+b, so the length test that leaves the loop rejects exactly the lengths below a+b: `len(v) < a+b`. Rejecting len(v) = a+b as well (`<= 2`) treats the empty value `\"\"` as a missing one: the loop is left in the middle of the attributes, the remaining ones are lost, the element is pushed but never popped, and its transform and paint leak into every later sibling")
	p := c.MustPkg("")
	info := p.TypesInfo
	fd := core.MustFuncDecl(p, "svgParser.parseAttributes")
	r.Func("canvas.svgParser.parseAttributes")
	key := "canvas.svgParser.parseAttributes|length test matches what the unquoting slice needs"
	r.Count("E11.empty-value-accepted", 1)
	lenOf := func(e ast.Expr) types.Object {
		call, ok := core.Unparen(e).(*ast.CallExpr)
		if !ok || len(call.Args) != 1 {
			return nil
		}
		if id, ok := call.Fun.(*ast.Ident); !ok || id.Name != "len" {
			return nil
		}
		if a, ok := core.Unparen(call.Args[0]).(*ast.Ident); ok {
			return core.ObjOf(info, a)
		}
		return nil
	}
	// the slice v[a : len(v)-b]
	var v types.Object
	need := -1
	var slicePos token.Pos
	ast.Inspect(fd.Body, func(m ast.Node) bool {
		se, ok := m.(*ast.SliceExpr)
		if !ok || se.Low == nil || se.High == nil {
			return true
		}
		id, ok := core.Unparen(se.X).(*ast.Ident)
		if !ok {
			return true
		}
		a, okA := core.ConstInt(info, se.Low)
		be, okB := core.Unparen(se.High).(*ast.BinaryExpr)
		if !okA || !okB || be.Op != token.SUB || lenOf(be.X) != core.ObjOf(info, id) {
			return true
		}
		b, okC := core.ConstInt(info, be.Y)
		if !okC {
			return true
		}
		v, need, slicePos = core.ObjOf(info, id), int(a+b), se.Pos()
		return true
	})
	if v == nil {
		r.Fail("E11.empty-value-accepted", key, c.Pos(fd.Pos()), "the slice that strips the quotes (`v[a : len(v)-b]`) was not found")
		return
	}
	// the guard: len(v) < K  or  len(v) <= K  (canonical form has the smaller side on the left)
	var guardPos token.Pos
	rejectsBelow := -1 // lengths < rejectsBelow are rejected
	ast.Inspect(fd.Body, func(m ast.Node) bool {
		is, ok := m.(*ast.IfStmt)
		if !ok || is.Pos() > slicePos {
			return true
		}
		be, ok := core.Unparen(is.Cond).(*ast.BinaryExpr)
		if !ok || lenOf(be.X) != v {
			return true
		}
		k, ok := core.ConstInt(info, be.Y)
		if !ok {
			return true
		}
		switch be.Op {
		case token.LSS:
			rejectsBelow, guardPos = int(k), is.Pos()
		case token.LEQ:
			rejectsBelow, guardPos = int(k)+1, is.Pos()
		}
		return true
	})
	switch {
	case rejectsBelow < 0:
		r.Fail("E11.empty-value-accepted", key, c.Pos(slicePos), fmt.Sprintf("no length test `len(%s) < %d` precedes the slice: a value shorter than its quotes makes it panic", v.Name(), need))
	case rejectsBelow < need:
		r.Fail("E11.empty-value-accepted", key, c.Pos(guardPos), fmt.Sprintf("the length test rejects lengths below %d but the slice needs at least %d bytes: a shorter value makes it panic", rejectsBelow, need))
	case rejectsBelow > need:
		r.Fail("E11.empty-value-accepted", key, c.Pos(guardPos), fmt.Sprintf("the length test rejects every value shorter than %d bytes, but the unquoting slice is valid from %d bytes on: a value of exactly %d bytes — the empty value \"\" — is taken for a missing one, the attribute loop is left early, the attributes after it are lost and the element's state is never popped", rejectsBelow, need, need))
	default:
		r.OK("E11.empty-value-accepted", key, c.Pos(guardPos), fmt.Sprintf("rejects len < %d", need))
	}
}

// E11ArcFlagConsulted: no result of an arc helper is produced without looking at the large-arc flag.
func E11ArcFlagConsulted(c *core.Ctx, r *core.Report) {
	r.Rule("E11.arc-flag-consulted", "an elliptical arc is given by its end points, radii, rotation and two flags; the end points and radii alone describe two different arcs (the minor and the major one), so nothing about the arc's extent follows from the chord. In every helper of the package that takes the two flags (two consecutive bool parameters after the radii) and returns a value, each path to a return has used the large-arc flag before — in a condition or as an argument of a call — unless the return hands back a value built without the end point (the degenerate early-outs). An early-out that judges the sagitta from the chord (`r − √(r² − chord²/4) ≤ tolerance`) before the angles are computed collapses an almost complete circle to its short chord, an error of 2r whatever the tolerance")
	p := c.MustPkg("")
	info := p.TypesInfo
	n := 0
	for _, fd := range core.AllFuncDecls(p) {
		if fd.Body == nil || fd.Type.Results.NumFields() == 0 || strings.HasSuffix(c.Fset.Position(fd.Pos()).Filename, "_test.go") {
			continue
		}
		var params []types.Object
		for _, f := range fd.Type.Params.List {
			for _, nm := range f.Names {
				params = append(params, info.Defs[nm])
			}
		}
		var large types.Object
		for i := 0; i+1 < len(params); i++ {
			isBool := func(o types.Object) bool {
				if o == nil {
					return false
				}
				b, ok := o.Type().Underlying().(*types.Basic)
				return ok && b.Kind() == types.Bool
			}
			if isBool(params[i]) && isBool(params[i+1]) && large == nil {
				large = params[i]
			}
		}
		if large == nil {
			continue
		}
		// the helpers that produce geometry (a path or a list of curves), not the decoder of the flags itself
		produces := false
		for _, res := range fd.Type.Results.List {
			switch t := info.TypeOf(res.Type).(type) {
			case *types.Pointer:
				if strings.HasSuffix(t.Elem().String(), ".Path") {
					produces = true
				}
			case *types.Slice:
				produces = true
			}
		}
		if !produces {
			continue
		}
		mentions := func(nd ast.Node) bool {
			hit := false
			ast.Inspect(nd, func(m ast.Node) bool {
				if id, ok := m.(*ast.Ident); ok && core.ObjOf(info, id) == large {
					hit = true
				}
				return !hit
			})
			return hit
		}
		var bad []ast.Node
		rets := 0
		var walk func(stmts []ast.Stmt, done bool) (bool, bool)
		walk = func(stmts []ast.Stmt, done bool) (bool, bool) {
			for _, st := range stmts {
				switch x := st.(type) {
				case *ast.ReturnStmt:
					rets++
					if !done && !mentions(x) {
						bad = append(bad, x)
					}
					return done, false
				case *ast.BlockStmt:
					d, falls := walk(x.List, done)
					if !falls {
						return d, false
					}
					done = d
				case *ast.IfStmt:
					if x.Init != nil && mentions(x.Init) {
						done = true
					}
					dc := done || mentions(x.Cond)
					dT, fT := walk(x.Body.List, dc)
					dF, fF := dc, true
					switch e := x.Else.(type) {
					case *ast.BlockStmt:
						dF, fF = walk(e.List, dc)
					case *ast.IfStmt:
						dF, fF = walk([]ast.Stmt{e}, dc)
					}
					switch {
					case fT && fF:
						done = dT && dF
					case fT:
						done = dT
					case fF:
						done = dF
					default:
						return done, false
					}
				case *ast.ForStmt:
					walk(x.Body.List, done)
				case *ast.RangeStmt:
					if mentions(x.X) {
						done = true
					}
					walk(x.Body.List, done)
				case *ast.SwitchStmt:
					for _, cs := range x.Body.List {
						walk(cs.(*ast.CaseClause).Body, done)
					}
				default:
					if mentions(st) {
						done = true
					}
				}
			}
			return done, true
		}
		walk(fd.Body.List, false)
		if rets == 0 {
			continue
		}
		// the degenerate early-outs: a return whose value does not involve the last Point parameter (the end point) or
		// that returns the parameters unchanged is not an arc
		var endPt types.Object
		for _, o := range params {
			if o != nil {
				if nt, ok := o.Type().(*types.Named); ok && nt.Obj().Name() == "Point" {
					endPt = o
				}
			}
		}
		n++
		key := "canvas." + core.FuncName(fd) + "|the large-arc flag is used before every return"
		var real []ast.Node
		for _, b := range bad {
			// does the function, before this return, build something from the end point? (a path through LineTo(end))
			uses := false
			if endPt != nil {
				ast.Inspect(fd.Body, func(m ast.Node) bool {
					if m == nil || m.Pos() >= b.End() {
						return m == nil || m.Pos() < b.End()
					}
					if id, ok := m.(*ast.Ident); ok && core.ObjOf(info, id) == endPt && m.Pos() < b.Pos() {
						// inside the statement list that holds the return
						uses = true
					}
					return true
				})
			} else {
				uses = true
			}
			if uses {
				real = append(real, b)
			}
		}
		if len(real) == 0 {
			r.OK("E11.arc-flag-consulted", key, c.Pos(fd.Pos()), fmt.Sprintf("%d return(s)", rets))
		} else {
			r.Fail("E11.arc-flag-consulted", key, c.Pos(real[0].Pos()), fmt.Sprintf("%s can return here without having looked at `%s` (neither in a condition nor as an argument on the way): the end points and radii fit both the minor and the major arc, so a result decided from the chord alone is wrong for one of them — an almost complete circle drawn as one large arc becomes its short chord", core.FuncName(fd), large.Name()))
		}
	}
	r.Count("E11.arc-flag-consulted", n)
	r.Floor("E11.arc-flag-consulted", 4)
}

// E11ArcJoinDirectionFlags: the arcs joiner walks the two offset circles in opposite senses, at every call.
func E11ArcJoinDirectionFlags(c *core.Ctx, r *core.Report) {
	r.Rule("E11.arc-join-direction-flags", "ArcsJoiner.Join extends the offset curve of the segment before the corner forwards and that of the segment after it backwards until they meet, and asks closestArcIntersection for the crossing that comes first along each circle. The sense in which a circle is walked follows from the sign of its segment's radius, and because the second segment is walked backwards its flag is the negation of the first one's form: every call that passes a comparison of the first radius passes the same comparison, every call that passes one of the second radius passes the same one, and the second is the negation of the first with the radius renamed (`r0 < 0` and `0 <= r1`). One call written like its neighbour for the other segment picks the far crossing as the join tip: a fin beyond the miter limit")
	p := c.MustPkg("")
	info := p.TypesInfo
	fd := core.MustFuncDecl(p, "ArcsJoiner.Join")
	r.Func("canvas.ArcsJoiner.Join")
	// the two radius parameters: the last two float64 parameters
	var radii []types.Object
	for _, f := range fd.Type.Params.List {
		for _, nm := range f.Names {
			if b, ok := info.TypeOf(f.Type).Underlying().(*types.Basic); ok && b.Kind() == types.Float64 {
				radii = append(radii, info.Defs[nm])
			}
		}
	}
	if len(radii) < 2 {
		panic(core.Infra("ArcsJoiner.Join: radius parameters not found"))
	}
	r0, r1 := radii[len(radii)-2], radii[len(radii)-1]
	type site struct {
		pos  token.Pos
		text string
		neg  string
	}
	groups := map[types.Object][]site{}
	negate := func(e ast.Expr) string {
		be, ok := core.Unparen(e).(*ast.BinaryExpr)
		if !ok {
			return "!(" + types.ExprString(e) + ")"
		}
		switch be.Op {
		case token.LSS: // a < b  ->  b <= a
			return types.ExprString(be.Y) + " <= " + types.ExprString(be.X)
		case token.LEQ: // a <= b ->  b < a
			return types.ExprString(be.Y) + " < " + types.ExprString(be.X)
		}
		return "!(" + types.ExprString(e) + ")"
	}
	ast.Inspect(fd.Body, func(m ast.Node) bool {
		call, ok := m.(*ast.CallExpr)
		if !ok || len(call.Args) < 2 {
			return true
		}
		if f := core.CalleeOf(info, call); f == nil || f.Name() != "closestArcIntersection" {
			return true
		}
		flag := call.Args[1]
		for _, rad := range []types.Object{r0, r1} {
			hit := false
			ast.Inspect(flag, func(k ast.Node) bool {
				if id, ok := k.(*ast.Ident); ok && core.ObjOf(info, id) == rad {
					hit = true
				}
				return true
			})
			if hit {
				groups[rad] = append(groups[rad], site{call.Pos(), types.ExprString(flag), negate(flag)})
			}
		}
		return true
	})
	n := len(groups[r0]) + len(groups[r1])
	r.Count("E11.arc-join-direction-flags", n)
	r.Floor("E11.arc-join-direction-flags", 4)
	if len(groups[r0]) == 0 || len(groups[r1]) == 0 {
		r.Fail("E11.arc-join-direction-flags", "canvas.ArcsJoiner.Join|direction flags", c.Pos(fd.Pos()), "calls of closestArcIntersection with a flag computed from each of the two radii were not found")
		return
	}
	ref0 := groups[r0][0].text
	want1 := strings.ReplaceAll(groups[r0][0].neg, r0.Name(), r1.Name())
	for i, s := range groups[r0] {
		key := fmt.Sprintf("canvas.ArcsJoiner.Join|direction flag of the first circle #%d", i+1)
		if s.text == ref0 {
			r.OK("E11.arc-join-direction-flags", key, c.Pos(s.pos), s.text)
		} else {
			r.Fail("E11.arc-join-direction-flags", key, c.Pos(s.pos), fmt.Sprintf("the flag `%s` differs from the one the other call for the same circle passes (`%s`)", s.text, ref0))
		}
	}
	for i, s := range groups[r1] {
		key := fmt.Sprintf("canvas.ArcsJoiner.Join|direction flag of the second circle #%d", i+1)
		if s.text == want1 {
			r.OK("E11.arc-join-direction-flags", key, c.Pos(s.pos), s.text)
		} else {
			r.Fail("E11.arc-join-direction-flags", key, c.Pos(s.pos), fmt.Sprintf("the second circle is walked backwards from the corner, so its flag is the negation of the first one's form, `%s`; this call passes `%s` and closestArcIntersection returns the far crossing: the join tip lies beyond the miter limit", want1, s.text))
		}
	}
}

// E11ViewBoxSeparators: the four numbers of a viewBox are split at white space and commas.
func E11ViewBoxSeparators(c *core.Ctx, r *core.Report) {
	r.Rule("E11.viewbox-separators", "SVG writes the viewBox as four numbers separated by white space and/or a comma. svgParser.parseViewBox therefore does not cut the attribute with strings.Split at one fixed separator (which rejects `0,0,50,50` and a doubled space with 'bad viewBox' and leaves the drawing unscaled): the list is obtained from strings.FieldsFunc with a predicate that names both the space and the comma, from strings.Fields after commas were replaced, or from one of the importer's own number-list readers")
	p := c.MustPkg("")
	info := p.TypesInfo
	fd := core.MustFuncDecl(p, "svgParser.parseViewBox")
	r.Func("canvas.svgParser.parseViewBox")
	key := "canvas.svgParser.parseViewBox|numbers separated by white space and/or commas"
	r.Count("E11.viewbox-separators", 1)
	// the attribute: the last string parameter
	var attr types.Object
	for _, f := range fd.Type.Params.List {
		for _, nm := range f.Names {
			if b, ok := info.TypeOf(f.Type).Underlying().(*types.Basic); ok && b.Kind() == types.String {
				attr = info.Defs[nm]
			}
		}
	}
	mentionsAttr := func(e ast.Node) bool {
		hit := false
		ast.Inspect(e, func(m ast.Node) bool {
			if id, ok := m.(*ast.Ident); ok && core.ObjOf(info, id) == attr {
				hit = true
			}
			return !hit
		})
		return hit
	}
	verdict, pos, why := "", fd.Pos(), ""
	ast.Inspect(fd.Body, func(m ast.Node) bool {
		call, ok := m.(*ast.CallExpr)
		if !ok || len(call.Args) == 0 || !mentionsAttr(call.Args[0]) {
			return true
		}
		f := core.CalleeOf(info, call)
		if f == nil {
			return true
		}
		q := f.Name()
		if f.Pkg() != nil && f.Pkg().Path() == "strings" {
			q = "strings." + q
		}
		switch q {
		case "strings.Split", "strings.SplitN":
			verdict, pos, why = "bad", call.Pos(), fmt.Sprintf("`%s` cuts the attribute at one fixed separator: a comma-separated viewBox (`0,0,50,50`) or two spaces between numbers give 'bad viewBox' and the drawing is not scaled", types.ExprString(call))
		case "strings.FieldsFunc":
			if len(call.Args) == 2 {
				hasComma, hasSpace := false, false
				ast.Inspect(call.Args[1], func(k ast.Node) bool {
					if e, ok := k.(ast.Expr); ok {
						if v, isInt := core.ConstInt(info, e); isInt {
							if v == ',' {
								hasComma = true
							}
							if v == ' ' {
								hasSpace = true
							}
						}
						if ce, ok := e.(*ast.CallExpr); ok {
							if g := core.CalleeOf(info, ce); g != nil && g.Name() == "IsSpace" {
								hasSpace = true
							}
						}
					}
					return true
				})
				if hasComma && hasSpace && verdict == "" {
					verdict, pos = "ok", call.Pos()
				} else if verdict == "" {
					verdict, pos, why = "bad", call.Pos(), "the separator predicate does not name both the space and the comma"
				}
			}
		case "strings.Fields":
			// fine if commas were replaced in the argument
			if ce, ok := core.Unparen(call.Args[0]).(*ast.CallExpr); ok {
				if g := core.CalleeOf(info, ce); g != nil && strings.HasPrefix(g.Name(), "Replace") && verdict == "" {
					verdict, pos = "ok", call.Pos()
				}
			}
		default:
			if f.Pkg() == p.Types && (strings.Contains(f.Name(), "parsePoints") || strings.Contains(f.Name(), "parseNumbers")) && verdict == "" {
				verdict, pos = "ok", call.Pos()
			}
		}
		return true
	})
	switch verdict {
	case "ok":
		r.OK("E11.viewbox-separators", key, c.Pos(pos), "")
	case "bad":
		r.Fail("E11.viewbox-separators", key, c.Pos(pos), why)
	default:
		r.Fail("E11.viewbox-separators", key, c.Pos(pos), "the call that splits the viewBox attribute into its numbers was not recognised (strings.FieldsFunc with a predicate for space and comma, strings.Fields after replacing commas, or the importer's number-list reader)")
	}
}

// E11ViewScaleInvariant: the view's magnification is taken from the whole matrix, not from its diagonal.
func E11ViewScaleInvariant(c *core.Ctx, r *core.Report) {
	r.Rule("E11.view-scale-invariant", "the path renderers scale a tolerance, a stroke width or dash lengths by the magnification of the view matrix. That factor must not change under rotation of the view, so RenderPath of every back-end (rasterizer, PDF, PS, SVG) uses its matrix parameter only as a whole — as the receiver or an argument of a call (Decompose, Det, IsSimilarity, Transform, Mul, …) — and never reads single entries `m[i][j]`: the diagonal of a view rotated by a quarter turn is zero whatever its scale, and a tolerance left unscaled under a 60× magnification flattens the stroke outline 6 px off")
	n := 0
	for _, spec := range []struct{ rel, fn string }{{"renderers/rasterizer", "Rasterizer.RenderPath"}, {"renderers/pdf", "PDF.RenderPath"}, {"renderers/ps", "PS.RenderPath"}, {"renderers/svg", "SVG.RenderPath"}} {
		p := c.MustPkg(spec.rel)
		info := p.TypesInfo
		fd := core.MustFuncDecl(p, spec.fn)
		r.Func(p.Types.Name() + "." + spec.fn)
		var mObj types.Object
		for _, f := range fd.Type.Params.List {
			for _, nm := range f.Names {
				if o := info.Defs[nm]; o != nil && strings.HasSuffix(o.Type().String(), "canvas.Matrix") {
					mObj = o
				}
			}
		}
		if mObj == nil {
			panic(core.Infra(spec.fn + ": matrix parameter not found"))
		}
		// matrix-typed aliases (m2 := m.Scale(…)) count as the matrix too
		mats := map[types.Object]bool{mObj: true}
		ast.Inspect(fd.Body, func(m ast.Node) bool {
			if as, ok := m.(*ast.AssignStmt); ok {
				for _, l := range as.Lhs {
					if id, ok := l.(*ast.Ident); ok {
						if o := core.ObjOf(info, id); o != nil && strings.HasSuffix(o.Type().String(), "canvas.Matrix") {
							mats[o] = true
						}
					}
				}
			}
			return true
		})
		uses, k := 0, 0
		var stack []ast.Node
		ast.Inspect(fd.Body, func(m ast.Node) bool {
			if m == nil {
				stack = stack[:len(stack)-1]
				return true
			}
			stack = append(stack, m)
			id, ok := m.(*ast.Ident)
			if !ok || !mats[core.ObjOf(info, id)] || len(stack) < 2 {
				return true
			}
			uses++
			if ie, ok := stack[len(stack)-2].(*ast.IndexExpr); ok && ie.X == ast.Expr(id) {
				// not the left-hand side of an assignment to an entry? entries are never written here either
				k++
				n++
				src := types.ExprString(ie)
				if len(stack) >= 3 {
					if ie2, ok := stack[len(stack)-3].(*ast.IndexExpr); ok {
						src = types.ExprString(ie2)
					}
				}
				r.Fail("E11.view-scale-invariant", fmt.Sprintf("%s.%s|entry of the view matrix read #%d", p.Types.Name(), spec.fn, k), c.Pos(ie.Pos()), fmt.Sprintf("`%s` reads one entry of the view matrix: a magnification (or any other property of the view) taken from single entries changes with the rotation of the view — on the diagonal it vanishes at a quarter turn — so a tolerance or width derived from it is wrong for rotated views", src))
			}
			return true
		})
		n++
		key := fmt.Sprintf("%s.%s|the view matrix is used as a whole", p.Types.Name(), spec.fn)
		if k == 0 {
			r.OK("E11.view-scale-invariant", key, c.Pos(fd.Pos()), fmt.Sprintf("%d uses, none indexed", uses))
		}
	}
	r.Count("E11.view-scale-invariant", n)
	r.Floor("E11.view-scale-invariant", 4)
}

// E11ImageExtentFromSize: the extent of an image is the size of its rectangle, not its far corner.
func E11ImageExtentFromSize(c *core.Ctx, r *core.Report) {
	r.Rule("E11.image-extent-from-size", "an image.Image may have a rectangle that does not start at (0,0) (a SubImage crop); renderers and Canvas.Fit treat it as occupying (0,0)–(Size) in its own pixel space. In canvas.go and in the four back-ends every use of the far corner of an image rectangle (`.Max.X`, `.Max.Y` of a value of type image.Rectangle) is the minuend of a subtraction whose subtrahend is the near corner of the same rectangle and axis (`Max − Min`, conversions looked through), or the extent is taken with Size()/Dx()/Dy(). An extent or a reflection axis computed from Max alone is off by Min: a cropped image drawn under CartesianII–IV stays upright but is displaced")
	n := 0
	for _, rel := range []string{"", "renderers/svg", "renderers/pdf", "renderers/ps", "renderers/rasterizer"} {
		p := c.MustPkg(rel)
		info := p.TypesInfo
		pk := "canvas"
		if rel != "" {
			pk = rel
		}
		isRect := func(e ast.Expr) bool {
			t := info.TypeOf(e)
			if t == nil {
				return false
			}
			nt, ok := t.(*types.Named)
			return ok && nt.Obj().Name() == "Rectangle" && nt.Obj().Pkg() != nil && nt.Obj().Pkg().Path() == "image"
		}
		for _, fd := range core.AllFuncDecls(p) {
			if fd.Body == nil || strings.HasSuffix(c.Fset.Position(fd.Pos()).Filename, "_test.go") || (rel == "" && !strings.HasSuffix(c.Fset.Position(fd.Pos()).Filename, "canvas.go")) {
				continue
			}
			k := 0
			var stack []ast.Node
			ast.Inspect(fd.Body, func(m ast.Node) bool {
				if m == nil {
					stack = stack[:len(stack)-1]
					return true
				}
				stack = append(stack, m)
				// extents taken with Size()/Dx()/Dy()
				if call, ok := m.(*ast.CallExpr); ok {
					if se, ok := call.Fun.(*ast.SelectorExpr); ok && isRect(se.X) && (se.Sel.Name == "Size" || se.Sel.Name == "Dx" || se.Sel.Name == "Dy") {
						k++
						n++
						r.OK("E11.image-extent-from-size", fmt.Sprintf("%s.%s|image extent #%d", pk, core.FuncName(fd), k), c.Pos(call.Pos()), types.ExprString(call))
					}
					return true
				}
				// R.Max.X / R.Max.Y
				se, ok := m.(*ast.SelectorExpr)
				if !ok || (se.Sel.Name != "X" && se.Sel.Name != "Y") {
					return true
				}
				inner, ok := core.Unparen(se.X).(*ast.SelectorExpr)
				if !ok || inner.Sel.Name != "Max" || !isRect(inner.X) {
					return true
				}
				// an assignment to the corner (cropping a rectangle) is not a use of the extent
				if len(stack) >= 2 {
					if as, ok := stack[len(stack)-2].(*ast.AssignStmt); ok {
						for _, l := range as.Lhs {
							if l == ast.Expr(se) {
								return true
							}
						}
					}
				}
				// the bound of a loop over the pixels (`i < b.Max.X`) is not an extent
				if len(stack) >= 2 {
					if be, ok := stack[len(stack)-2].(*ast.BinaryExpr); ok && (be.Op == token.LSS || be.Op == token.LEQ || be.Op == token.GTR || be.Op == token.GEQ) {
						return true
					}
				}
				k++
				n++
				key := fmt.Sprintf("%s.%s|image extent #%d", pk, core.FuncName(fd), k)
				// the enclosing expression up to the statement mentions the Min of the same axis
				// the far corner is the minuend of a subtraction whose subtrahend is the near corner of the same
				// rectangle and axis (conversions and parentheses in between are looked through)
				paired := false
				stripConv := func(e ast.Expr) ast.Expr {
					for {
						e = core.Unparen(e)
						call, ok := e.(*ast.CallExpr)
						if !ok || len(call.Args) != 1 {
							return e
						}
						if tv, ok := info.Types[call.Fun]; !ok || !tv.IsType() {
							return e
						}
						e = call.Args[0]
					}
				}
				for i := len(stack) - 2; i >= 0; i-- {
					switch x := stack[i].(type) {
					case *ast.ParenExpr:
						continue
					case *ast.CallExpr:
						if tv, ok := info.Types[x.Fun]; ok && tv.IsType() {
							continue
						}
					case *ast.BinaryExpr:
						if x.Op == token.SUB && stripConv(x.X) == ast.Expr(se) {
							if s2, ok := stripConv(x.Y).(*ast.SelectorExpr); ok && s2.Sel.Name == se.Sel.Name {
								if in2, ok := core.Unparen(s2.X).(*ast.SelectorExpr); ok && in2.Sel.Name == "Min" && types.ExprString(in2.X) == types.ExprString(inner.X) {
									paired = true
								}
							}
						}
					}
					break
				}
				if paired {
					r.OK("E11.image-extent-from-size", key, c.Pos(se.Pos()), "Max − Min")
				} else {
					r.Fail("E11.image-extent-from-size", key, c.Pos(se.Pos()), fmt.Sprintf("`%s` takes the far corner of the image's rectangle without its near corner: for an image whose rectangle does not start at the origin (a SubImage) the extent, or an axis of reflection derived from it, is off by Min — under CartesianII–IV the image is drawn displaced by Min/resolution", types.ExprString(se)))
				}
				return true
			})
		}
	}
	r.Count("E11.image-extent-from-size", n)
	r.Floor("E11.image-extent-from-size", 6)
}

// E11ViewBoxInOneMatrix: the whole viewBox mapping goes into the view that element transforms are composed onto.
func E11ViewBoxInOneMatrix(c *core.Ctx, r *core.Report) {
	r.Rule("E11.viewbox-in-one-matrix", "the viewBox maps user units to the viewport by Scale(w/vbw, h/vbh)·Translate(−min-x, −min-y), applied outside every element's own transform. The importer composes `transform` attributes onto the context's view, so in svgParser.init, on the branch with a viewBox, the matrix handed to SetView is built from all four components of the viewBox parameter (through locals if need be). If the origin is put elsewhere (the coordinate view, which DrawPath applies inside the view), it is subtracted inside the element and group transforms: right only for min-x = min-y = 0 or pure translations, and a rectangle under `scale(2)` in a viewBox starting at (50,50) lands off the canvas")
	p := c.MustPkg("")
	info := p.TypesInfo
	fd := core.MustFuncDecl(p, "svgParser.init")
	r.Func("canvas.svgParser.init")
	var vb types.Object
	for _, f := range fd.Type.Params.List {
		for _, nm := range f.Names {
			if _, ok := info.TypeOf(f.Type).Underlying().(*types.Array); ok {
				vb = info.Defs[nm]
			}
		}
	}
	if vb == nil {
		panic(core.Infra("svgParser.init: viewBox array parameter not found"))
	}
	defs := map[types.Object][]ast.Expr{}
	ast.Inspect(fd.Body, func(m ast.Node) bool {
		if as, ok := m.(*ast.AssignStmt); ok && len(as.Lhs) == len(as.Rhs) {
			for i, l := range as.Lhs {
				if id, ok := l.(*ast.Ident); ok {
					defs[core.ObjOf(info, id)] = append(defs[core.ObjOf(info, id)], as.Rhs[i])
				}
			}
		}
		return true
	})
	var comps func(e ast.Expr, seen map[types.Object]bool, out map[int64]bool)
	comps = func(e ast.Expr, seen map[types.Object]bool, out map[int64]bool) {
		ast.Inspect(e, func(m ast.Node) bool {
			switch x := m.(type) {
			case *ast.IndexExpr:
				if id, ok := core.Unparen(x.X).(*ast.Ident); ok && core.ObjOf(info, id) == vb {
					if k, ok := core.ConstInt(info, x.Index); ok {
						out[k] = true
					}
				}
			case *ast.Ident:
				o := core.ObjOf(info, x)
				if o != nil && !seen[o] {
					seen[o] = true
					for _, d := range defs[o] {
						comps(d, seen, out)
					}
				}
			}
			return true
		})
	}
	n := 0
	ast.Inspect(fd.Body, func(m ast.Node) bool {
		call, ok := m.(*ast.CallExpr)
		if !ok || len(call.Args) != 1 {
			return true
		}
		f := core.CalleeOf(info, call)
		if f == nil || f.Name() != "SetView" {
			return true
		}
		got := map[int64]bool{}
		comps(call.Args[0], map[types.Object]bool{}, got)
		if len(got) == 0 {
			return true // the branch without a viewBox
		}
		n++
		key := fmt.Sprintf("canvas.svgParser.init|view set from the viewBox #%d", n)
		var missing []string
		for k, nm := range []string{"min-x", "min-y", "width", "height"} {
			if !got[int64(k)] {
				missing = append(missing, nm)
			}
		}
		if len(missing) == 0 {
			r.OK("E11.viewbox-in-one-matrix", key, c.Pos(call.Pos()), "")
		} else {
			r.Fail("E11.viewbox-in-one-matrix", key, c.Pos(call.Pos()), fmt.Sprintf("the view matrix set for a document with a viewBox does not depend on its %s: whatever carries that part of the mapping instead is not the matrix the element transforms are composed onto, so it is applied inside those transforms — elements under a scale or rotation are displaced whenever the viewBox does not start at the origin", strings.Join(missing, " and ")))
		}
		return true
	})
	r.Count("E11.viewbox-in-one-matrix", n)
	r.Floor("E11.viewbox-in-one-matrix", 1)
}

// E11AngleRangeNormalised: the angle-range predicates reduce their angles by a full normalisation.
func E11AngleRangeNormalised(c *core.Ctx, r *core.Report) {
	r.Rule("E11.angle-range-normalised", "angleBetween and angleBetweenExclusive document that their angles may lie outside [0,2π); Path.Bounds hands them raw atan2 results (in [−π, π]) together with start angles in [0,2π) and end angles in (−2π,4π), so differences down to −3π occur. Every angle variable that takes part in the comparison the predicate returns was last assigned from angleNorm(…) (or math.Mod): one conditional ±2π is not a normalisation, and with it the right-most extreme of a large counter-clockwise arc that starts late in the turn is judged off the arc — Bounds no longer contains the arc")
	p := c.MustPkg("")
	info := p.TypesInfo
	n := 0
	for _, name := range []string{"angleBetween", "angleBetweenExclusive"} {
		fd := core.MustFuncDecl(p, name)
		r.Func("canvas." + name)
		params := map[types.Object]bool{}
		for _, f := range fd.Type.Params.List {
			for _, nm := range f.Names {
				params[info.Defs[nm]] = true
			}
		}
		// last assignment of each float variable
		last := map[types.Object]ast.Expr{}
		lastTok := map[types.Object]token.Token{}
		ast.Inspect(fd.Body, func(m ast.Node) bool {
			as, ok := m.(*ast.AssignStmt)
			if !ok {
				return true
			}
			for i, l := range as.Lhs {
				id, ok := l.(*ast.Ident)
				if !ok {
					continue
				}
				if len(as.Lhs) == len(as.Rhs) {
					// the swap `lower, upper = upper, lower` does not change what the values are
					if rid, ok := core.Unparen(as.Rhs[i]).(*ast.Ident); ok && params[core.ObjOf(info, rid)] && len(as.Lhs) == 2 {
						continue
					}
					last[core.ObjOf(info, id)] = as.Rhs[i]
					lastTok[core.ObjOf(info, id)] = as.Tok
				}
			}
			return true
		})
		// variables in the comparisons that decide the result: conditions of ifs that return, and returned expressions
		compared := map[types.Object]token.Pos{}
		collect := func(e ast.Expr) {
			ast.Inspect(e, func(m ast.Node) bool {
				if id, ok := m.(*ast.Ident); ok {
					if o, isVar := core.ObjOf(info, id).(*types.Var); isVar && params[o] || (isVar && last[o] != nil) {
						if _, seen := compared[o]; !seen {
							compared[o] = id.Pos()
						}
					}
				}
				return true
			})
		}
		ast.Inspect(fd.Body, func(m ast.Node) bool {
			switch x := m.(type) {
			case *ast.ReturnStmt:
				for _, res := range x.Results {
					if _, isIdent := core.Unparen(res).(*ast.Ident); !isIdent {
						collect(res)
					}
				}
			case *ast.IfStmt:
				returns := false
				for _, s := range x.Body.List {
					if _, ok := s.(*ast.ReturnStmt); ok {
						returns = true
					}
				}
				if returns {
					collect(x.Cond)
				}
			}
			return true
		})
		var objs []types.Object
		for o := range compared {
			objs = append(objs, o)
		}
		sort.Slice(objs, func(i, j int) bool { return objs[i].Name() < objs[j].Name() })
		for _, o := range objs {
			n++
			key := fmt.Sprintf("canvas.%s|`%s` is normalised before it is compared", name, o.Name())
			good := false
			if rhs := last[o]; rhs != nil && lastTok[o] == token.ASSIGN || rhs != nil && lastTok[o] == token.DEFINE {
				if call, ok := core.Unparen(rhs).(*ast.CallExpr); ok {
					if f := core.CalleeOf(info, call); f != nil && (f.Name() == "angleNorm" || (f.Name() == "Mod" && f.Pkg() != nil && f.Pkg().Path() == "math")) {
						good = true
					}
				}
			}
			if good {
				r.OK("E11.angle-range-normalised", key, c.Pos(compared[o]), types.ExprString(last[o]))
			} else {
				how := "is compared as it was passed in"
				if rhs := last[o]; rhs != nil {
					how = "was last assigned `" + types.ExprString(rhs) + "`"
				}
				r.Fail("E11.angle-range-normalised", key, c.Pos(compared[o]), fmt.Sprintf("`%s` %s, not from angleNorm(…): the predicate accepts angles outside [0,2π) and its callers pass differences of more than one turn, for which a single ±2π (or none) leaves the value out of range — an extreme angle that lies on the arc is reported off it", o.Name(), how))
			}
		}
	}
	r.Count("E11.angle-range-normalised", n)
	r.Floor("E11.angle-range-normalised", 4)
}

// E11ObjectOwnItem: every inline-object placeholder is an item of its own.
func E11ObjectOwnItem(c *core.Ctx, r *core.Report) {
	r.Rule("E11.object-own-item", "RichText.ToText decides from the first glyph of a span whether the span is an inline object and then places that one object: it relies on ScriptItemizer putting every placeholder (U+FFFD) into an item of its own. The boundary condition of the itemizer therefore holds in all three cases that involve a placeholder — text before placeholder, placeholder before text, and placeholder before placeholder (evaluated from the expression: comparisons of the current and the previous rune with the placeholder set to the case at hand, `0 < j` true). A condition that is true only where text and placeholder meet merges adjacent objects into one span: the second object is never placed, the text after it is drawn in its place, and aligned lines end short by its width")
	p := c.MustPkg("text")
	info := p.TypesInfo
	fd := core.MustFuncDecl(p, "ScriptItemizer")
	r.Func("text.ScriptItemizer")
	// the boolean local whose definition compares runes with unicode.ReplacementChar
	isPlaceholder := func(e ast.Expr) bool {
		se, ok := core.Unparen(e).(*ast.SelectorExpr)
		return ok && se.Sel.Name == "ReplacementChar"
	}
	var def ast.Expr
	var defPos token.Pos
	ast.Inspect(fd.Body, func(m ast.Node) bool {
		as, ok := m.(*ast.AssignStmt)
		if !ok || len(as.Lhs) != 1 || len(as.Rhs) != 1 {
			return true
		}
		has := false
		ast.Inspect(as.Rhs[0], func(k ast.Node) bool {
			if e, ok := k.(ast.Expr); ok && isPlaceholder(e) {
				has = true
			}
			return true
		})
		if b, ok := info.TypeOf(as.Lhs[0]).Underlying().(*types.Basic); ok && b.Kind() == types.Bool && has && def == nil {
			def, defPos = as.Rhs[0], as.Pos()
		}
		return true
	})
	if def == nil {
		r.Fail("E11.object-own-item", "text.ScriptItemizer|placeholder boundary", c.Pos(fd.Pos()), "the boolean that marks a boundary at the object placeholder (a comparison with unicode.ReplacementChar) was not found")
		return
	}
	n := 0
	for _, cs := range []struct {
		name      string
		cur, prev bool
	}{{"text before placeholder", true, false}, {"placeholder before text", false, true}, {"placeholder before placeholder", true, true}} {
		n++
		env := func(e ast.Expr) tri {
			be, ok := e.(*ast.BinaryExpr)
			if !ok {
				return tUnknown
			}
			if be.Op == token.EQL || be.Op == token.NEQ {
				var other ast.Expr
				if isPlaceholder(be.X) {
					other = be.Y
				} else if isPlaceholder(be.Y) {
					other = be.X
				}
				if other != nil {
					val := cs.cur
					if _, isIndex := core.Unparen(other).(*ast.IndexExpr); isIndex {
						val = cs.prev // runes[j-1]
					}
					return triOf(val == (be.Op == token.EQL))
				}
			}
			if be.Op == token.LSS || be.Op == token.LEQ || be.Op == token.NEQ {
				// 0 < j : there is a previous rune in the cases considered
				if v, ok := core.ConstInt(info, be.X); ok && v == 0 {
					return tTrue
				}
			}
			return tUnknown
		}
		key := "text.ScriptItemizer|boundary for " + cs.name
		switch evalBool(info, def, env) {
		case tTrue:
			r.OK("E11.object-own-item", key, c.Pos(defPos), "")
		case tFalse:
			r.Fail("E11.object-own-item", key, c.Pos(defPos), fmt.Sprintf("`%s` is false for a %s: the two end up in one item, ToText reads only the first glyph of the span to find the object and its width, so the other object is never placed and everything after it on the line is displaced by its width", types.ExprString(def), cs.name))
		default:
			r.Fail("E11.object-own-item", key, c.Pos(defPos), fmt.Sprintf("`%s` could not be evaluated for a %s", types.ExprString(def), cs.name))
		}
	}
	r.Count("E11.object-own-item", n)
}

// E11BezierNormalHelper: the normal of a Bézier at a parameter comes from the helper that survives a vanishing derivative.
func E11BezierNormalHelper(c *core.Ctx, r *core.Report) {
	r.Rule("E11.bezier-normal-helper", "the derivative of a cubic vanishes at an end whose control point coincides with the end point (a retracted handle); cubicBezierNormal falls back to the next distinct control point there. The stroker computes the offset curve with that helper, so every other normal of the same segment — the end normals Path.offset hands to the joiners and cappers — comes from it too: nowhere in the package (outside the helper) is a normal made by turning the result of a Bézier derivative function (…BezierDeriv, …BezierDirection) with Rot90CW/Rot90CCW. With a zero end normal the joins and caps collapse onto the centre line and the offset curve, which starts at the true normal, no longer connects to them")
	p := c.MustPkg("")
	info := p.TypesInfo
	n := 0
	for _, fd := range core.AllFuncDecls(p) {
		if fd.Body == nil || strings.HasSuffix(c.Fset.Position(fd.Pos()).Filename, "_test.go") {
			continue
		}
		name := core.FuncName(fd)
		k := 0
		ast.Inspect(fd.Body, func(m ast.Node) bool {
			call, ok := m.(*ast.CallExpr)
			if !ok {
				return true
			}
			if f := core.CalleeOf(info, call); f != nil && f.Pkg() == p.Types && f.Name() == "cubicBezierNormal" && name != "cubicBezierNormal" {
				k++
				n++
				r.OK("E11.bezier-normal-helper", fmt.Sprintf("canvas.%s|normal of a Bézier #%d", name, k), c.Pos(call.Pos()), "cubicBezierNormal")
				return true
			}
			se, ok := call.Fun.(*ast.SelectorExpr)
			if !ok || (se.Sel.Name != "Rot90CW" && se.Sel.Name != "Rot90CCW") {
				return true
			}
			inner, ok := core.Unparen(se.X).(*ast.CallExpr)
			if !ok {
				return true
			}
			g := core.CalleeOf(info, inner)
			if g == nil || g.Pkg() != p.Types || !strings.Contains(g.Name(), "Bezier") || !(strings.HasSuffix(g.Name(), "Deriv") || strings.HasSuffix(g.Name(), "Direction")) {
				return true
			}
			if name == "cubicBezierNormal" {
				return true
			}
			k++
			n++
			r.Fail("E11.bezier-normal-helper", fmt.Sprintf("canvas.%s|normal of a Bézier #%d", name, k), c.Pos(call.Pos()), fmt.Sprintf("`%s` turns the derivative into a normal directly: at an end whose control point coincides with the end point the derivative is zero, the normal has no direction, and the joins and caps built from it collapse while the offset curve (which uses cubicBezierNormal and its fallback) does not meet them", types.ExprString(call)))
			return true
		})
	}
	r.Count("E11.bezier-normal-helper", n)
	r.Floor("E11.bezier-normal-helper", 4)
}

// E11DashReductionDivides: a dash array is cut down to a repeated prefix only when the prefix divides it.
func E11DashReductionDivides(c *core.Ctx, r *core.Report) {
	r.Rule("E11.dash-reduction-divides", "dashCanonical replaces a dash array that is a whole number of repetitions of a shorter pattern by that pattern. Wherever it keeps a prefix `d = d[:K]` with K a variable, the statement is reached under a condition that K divides the length: `len(d) % K == 0`, or K was computed as `len(d) / c` under `len(d) % c == 0`. Without it an array that ends in the middle of a repetition — [2 1 2 1 2], which stands for 2 1 2 1 2 2 1 2 1 2 with period 16 — is truncated to [2 1] with period 3, and every dash and gap after the first pair is wrong")
	p := c.MustPkg("")
	info := p.TypesInfo
	fd := core.MustFuncDecl(p, "dashCanonical")
	r.Func("canvas.dashCanonical")
	n := 0
	var stack []ast.Node
	modLen := func(cond ast.Expr, arr string, by func(ast.Expr) bool) bool {
		found := false
		ast.Inspect(cond, func(m ast.Node) bool {
			be, ok := m.(*ast.BinaryExpr)
			if !ok || be.Op != token.EQL {
				return true
			}
			for _, pr := range [][2]ast.Expr{{be.X, be.Y}, {be.Y, be.X}} {
				rem, ok := core.Unparen(pr[0]).(*ast.BinaryExpr)
				if !ok || rem.Op != token.REM {
					continue
				}
				if v, isC := core.ConstInt(info, pr[1]); !isC || v != 0 {
					continue
				}
				if types.ExprString(core.Unparen(rem.X)) == "len("+arr+")" && by(rem.Y) {
					found = true
				}
			}
			return true
		})
		return found
	}
	ast.Inspect(fd.Body, func(m ast.Node) bool {
		if m == nil {
			stack = stack[:len(stack)-1]
			return true
		}
		stack = append(stack, m)
		as, ok := m.(*ast.AssignStmt)
		if !ok || len(as.Lhs) != 1 || len(as.Rhs) != 1 {
			return true
		}
		se, ok := core.Unparen(as.Rhs[0]).(*ast.SliceExpr)
		if !ok || se.Low != nil || se.High == nil {
			return true
		}
		arr := types.ExprString(se.X)
		if types.ExprString(as.Lhs[0]) != arr {
			return true
		}
		hid, ok := core.Unparen(se.High).(*ast.Ident)
		if !ok {
			return true // d[:len(d)-1] and the like drop a known number of entries
		}
		K := core.ObjOf(info, hid)
		n++
		key := fmt.Sprintf("canvas.dashCanonical|prefix kept #%d divides the array", n)
		// conditions on the way: enclosing for conditions and if conditions whose body holds the statement
		var conds []ast.Expr
		for i := len(stack) - 2; i >= 0; i-- {
			switch x := stack[i].(type) {
			case *ast.ForStmt:
				if x.Cond != nil {
					conds = append(conds, x.Cond)
				}
			case *ast.IfStmt:
				if x.Body.Pos() <= as.Pos() && as.Pos() < x.Body.End() {
					conds = append(conds, x.Cond)
				}
			}
		}
		good := false
		for _, cnd := range conds {
			if modLen(cnd, arr, func(e ast.Expr) bool {
				id, ok := core.Unparen(e).(*ast.Ident)
				return ok && core.ObjOf(info, id) == K
			}) {
				good = true
			}
		}
		if !good {
			// K := len(d) / c  under  len(d) % c == 0
			ast.Inspect(fd.Body, func(k ast.Node) bool {
				a2, ok := k.(*ast.AssignStmt)
				if !ok || len(a2.Lhs) != 1 || len(a2.Rhs) != 1 {
					return true
				}
				if lid, ok := a2.Lhs[0].(*ast.Ident); !ok || core.ObjOf(info, lid) != K {
					return true
				}
				q, ok := core.Unparen(a2.Rhs[0]).(*ast.BinaryExpr)
				if !ok || q.Op != token.QUO || types.ExprString(core.Unparen(q.X)) != "len("+arr+")" {
					return true
				}
				cv, isC := core.ConstInt(info, q.Y)
				if !isC {
					return true
				}
				for _, cnd := range conds {
					if modLen(cnd, arr, func(e ast.Expr) bool {
						v, ok := core.ConstInt(info, e)
						return ok && v == cv
					}) {
						good = true
					}
				}
				return true
			})
		}
		if good {
			r.OK("E11.dash-reduction-divides", key, c.Pos(as.Pos()), c.Src(as))
		} else {
			r.Fail("E11.dash-reduction-divides", key, c.Pos(as.Pos()), fmt.Sprintf("`%s` keeps a prefix of the dash array without a condition that its length divides the array's: an array that repeats a pattern and then stops in the middle of a repetition is cut down to the pattern, which has another period and, for an odd count, another dash/gap parity", c.Src(as)))
		}
		return true
	})
	r.Count("E11.dash-reduction-divides", n)
	r.Floor("E11.dash-reduction-divides", 1)
}

// E11MagnitudeTestOnAbs: a threshold on the size of a number is tested on its absolute value.
func E11MagnitudeTestOnAbs(c *core.Ctx, r *core.Report) {
	r.Rule("E11.magnitude-test-on-abs", "dec.String (the formatter behind every ToPS/ToPDF operand) rounds a number of magnitude ≥ 1 to the configured number of significant digits itself before handing it to the minifier, whose own rounding drops a digit when it carries into a new integer digit (99.9999996 → \"10.\"). The test that selects this branch is about magnitude, so every ordering comparison of the method between a positive constant and a value computed from the receiver compares the absolute value (math.Abs, directly or through a local). Compared with the signed value, negative coordinates never take the branch and −99.9999996 is written −10., a tenth of its size")
	p := c.MustPkg("")
	info := p.TypesInfo
	fd := core.MustFuncDecl(p, "dec.String")
	r.Func("canvas.dec.String")
	recv := info.Defs[fd.Recv.List[0].Names[0]]
	defs := map[types.Object]ast.Expr{}
	ast.Inspect(fd.Body, func(m ast.Node) bool {
		if as, ok := m.(*ast.AssignStmt); ok && len(as.Lhs) == len(as.Rhs) {
			for i, l := range as.Lhs {
				if id, ok := l.(*ast.Ident); ok {
					defs[core.ObjOf(info, id)] = as.Rhs[i]
				}
			}
		}
		return true
	})
	var fromRecv func(e ast.Expr, depth int) (bool, bool) // depends on the receiver, is an absolute value
	fromRecv = func(e ast.Expr, depth int) (bool, bool) {
		e = core.Unparen(e)
		if name, call := core.MathFunc(info, e); name == "Abs" && len(call.Args) == 1 {
			dep, _ := fromRecv(call.Args[0], depth)
			return dep, true
		}
		switch x := e.(type) {
		case *ast.Ident:
			o := core.ObjOf(info, x)
			if o == recv {
				return true, false
			}
			if d, ok := defs[o]; ok && depth < 5 {
				return fromRecv(d, depth+1)
			}
		case *ast.CallExpr:
			if len(x.Args) == 1 {
				if tv, isT := info.Types[x.Fun]; isT && tv.IsType() {
					return fromRecv(x.Args[0], depth)
				}
			}
		}
		dep := false
		ast.Inspect(e, func(m ast.Node) bool {
			if id, ok := m.(*ast.Ident); ok && core.ObjOf(info, id) == recv {
				dep = true
			}
			return true
		})
		return dep, false
	}
	// a two-sided test (`big < f || f < -big`) handles the negative side itself
	twoSided := map[ast.Node]bool{}
	ast.Inspect(fd.Body, func(m ast.Node) bool {
		or, ok := m.(*ast.BinaryExpr)
		if !ok || or.Op != token.LOR {
			return true
		}
		var pos, neg ast.Node
		ast.Inspect(or, func(k ast.Node) bool {
			be, ok := k.(*ast.BinaryExpr)
			if !ok || (be.Op != token.LSS && be.Op != token.LEQ) {
				return true
			}
			if cv := core.ConstVal(info, be.X); cv != nil && numSign(cv) == 1 {
				pos = be
			}
			if cv := core.ConstVal(info, be.Y); cv != nil && numSign(cv) == -1 {
				neg = be
			}
			return true
		})
		if pos != nil && neg != nil {
			twoSided[pos] = true
		}
		return true
	})
	n := 0
	ast.Inspect(fd.Body, func(m ast.Node) bool {
		be, ok := m.(*ast.BinaryExpr)
		if !ok || (be.Op != token.LSS && be.Op != token.LEQ) || twoSided[be] {
			return true
		}
		// canonical form: constant <= value  (a lower bound on the value)
		cv := core.ConstVal(info, be.X)
		if cv == nil || numSign(cv) != 1 {
			return true
		}
		dep, abs := fromRecv(be.Y, 0)
		if !dep {
			return true
		}
		n++
		key := fmt.Sprintf("canvas.dec.String|magnitude test #%d", n)
		if abs {
			r.OK("E11.magnitude-test-on-abs", key, c.Pos(be.Pos()), types.ExprString(be))
		} else {
			r.Fail("E11.magnitude-test-on-abs", key, c.Pos(be.Pos()), fmt.Sprintf("`%s` tests the signed value against a positive threshold: no negative number passes, so negative operands skip the rounding this branch does for them and the minifier's carry drops a digit — −99.9999996 is written `-10.`", types.ExprString(be)))
		}
		return true
	})
	r.Count("E11.magnitude-test-on-abs", n)
	r.Floor("E11.magnitude-test-on-abs", 1)
}

// E11PieceFlagNotWholeArcs: a piece cut out of an arc does not inherit the whole arc's large flag.
func E11PieceFlagNotWholeArcs(c *core.Ctx, r *core.Report) {
	r.Rule("E11.piece-flag-not-whole-arcs", "the large-arc flag says that an arc spans more than half a turn. A helper that takes an arc (with its two flags) and emits it as several arcs in a loop — XMonotone's cut at the left- and right-most points — gives each piece a flag of its own: a constant, or a value computed from the piece's angles. The flag parameter of the whole arc is never passed to ArcTo inside that loop: every piece of a large arc that is shorter than half a turn would become the complementary arc through the same end points, off the ellipse and not x-monotone")
	p := c.MustPkg("")
	info := p.TypesInfo
	n := 0
	for _, fd := range core.AllFuncDecls(p) {
		if fd.Body == nil || strings.HasSuffix(c.Fset.Position(fd.Pos()).Filename, "_test.go") {
			continue
		}
		var params []types.Object
		for _, f := range fd.Type.Params.List {
			for _, nm := range f.Names {
				params = append(params, info.Defs[nm])
			}
		}
		var large types.Object
		for i := 0; i+1 < len(params); i++ {
			isBool := func(o types.Object) bool {
				if o == nil {
					return false
				}
				b, ok := o.Type().Underlying().(*types.Basic)
				return ok && b.Kind() == types.Bool
			}
			if isBool(params[i]) && isBool(params[i+1]) && large == nil {
				large = params[i]
			}
		}
		if large == nil {
			continue
		}
		k := 0
		var visit func(nd ast.Node, inLoop bool)
		visit = func(nd ast.Node, inLoop bool) {
			ast.Inspect(nd, func(m ast.Node) bool {
				switch x := m.(type) {
				case *ast.ForStmt:
					if ast.Node(x) != nd {
						visit(x.Body, true)
						return false
					}
				case *ast.RangeStmt:
					if ast.Node(x) != nd {
						visit(x.Body, true)
						return false
					}
				case *ast.CallExpr:
					if !inLoop || len(x.Args) < 7 {
						return true
					}
					if se, ok := x.Fun.(*ast.SelectorExpr); !ok || se.Sel.Name != "ArcTo" {
						return true
					}
					k++
					n++
					key := fmt.Sprintf("canvas.%s|piece #%d has a flag of its own", core.FuncName(fd), k)
					if id, ok := core.Unparen(x.Args[3]).(*ast.Ident); ok && core.ObjOf(info, id) == large {
						r.Fail("E11.piece-flag-not-whole-arcs", key, c.Pos(x.Pos()), fmt.Sprintf("`%s` gives a piece of the arc the whole arc's `%s` flag: a piece shorter than half a turn of a large arc is then drawn as the complementary arc through the same two points", types.ExprString(x), large.Name()))
					} else {
						r.OK("E11.piece-flag-not-whole-arcs", key, c.Pos(x.Pos()), types.ExprString(x.Args[3]))
					}
				}
				return true
			})
		}
		visit(fd.Body, false)
	}
	r.Count("E11.piece-flag-not-whole-arcs", n)
	r.Floor("E11.piece-flag-not-whole-arcs", 1)
}

// E11CursorRevalidatedAfterJoin: a position remembered as the path's length is checked again after the path was rebuilt.
func E11CursorRevalidatedAfterJoin(c *core.Ctx, r *core.Report) {
	r.Rule("E11.cursor-revalidated-after-join", "Path.replace remembers `i = len(p.d)` as the place where the rest of the path will start and then rebuilds the path with `p = p.Join(rest)`. Join adds the first command of the rest through the command functions, and a Close directly after a bare MoveTo removes that MoveTo: the path can come back shorter than i. Before i is used as an index again, the statement list therefore sets it anew or clamps it (`if len(p.d) < i { i = len(p.d) }`). Without that, a last sub-path that is closed and whose only curve flattens to nothing makes `p.d[i-3]` read past the end: Flatten panics")
	p := c.MustPkg("")
	info := p.TypesInfo
	fd := core.MustFuncDecl(p, "Path.replace")
	r.Func("canvas.Path.replace")
	recv := info.Defs[fd.Recv.List[0].Names[0]]
	isLenOfPath := func(e ast.Expr) bool {
		call, ok := core.Unparen(e).(*ast.CallExpr)
		if !ok || len(call.Args) != 1 || types.ExprString(call.Fun) != "len" {
			return false
		}
		se, ok := core.Unparen(call.Args[0]).(*ast.SelectorExpr)
		if !ok {
			return false
		}
		id, ok := core.Unparen(se.X).(*ast.Ident)
		return ok && core.ObjOf(info, id) == recv
	}
	n := 0
	ast.Inspect(fd.Body, func(m ast.Node) bool {
		bl, ok := m.(*ast.BlockStmt)
		if !ok {
			return true
		}
		for a, st := range bl.List {
			as, ok := st.(*ast.AssignStmt)
			if !ok || len(as.Lhs) != 1 || len(as.Rhs) != 1 || !isLenOfPath(as.Rhs[0]) {
				continue
			}
			iid, ok := as.Lhs[0].(*ast.Ident)
			if !ok {
				continue
			}
			idx := core.ObjOf(info, iid)
			// a later statement of the list rebuilds the receiver from a call
			for b := a + 1; b < len(bl.List); b++ {
				as2, ok := bl.List[b].(*ast.AssignStmt)
				if !ok || len(as2.Lhs) != 1 || len(as2.Rhs) != 1 {
					continue
				}
				lid, ok := as2.Lhs[0].(*ast.Ident)
				if !ok || core.ObjOf(info, lid) != recv {
					continue
				}
				if _, isCall := core.Unparen(as2.Rhs[0]).(*ast.CallExpr); !isCall {
					continue
				}
				n++
				key := fmt.Sprintf("canvas.Path.replace|position `%s` checked again after the path is rebuilt #%d", iid.Name, n)
				good := false
				for _, later := range bl.List[b+1:] {
					switch x := later.(type) {
					case *ast.AssignStmt:
						if len(x.Lhs) == 1 && len(x.Rhs) == 1 {
							if l2, ok := x.Lhs[0].(*ast.Ident); ok && core.ObjOf(info, l2) == idx && isLenOfPath(x.Rhs[0]) {
								good = true
							}
						}
					case *ast.IfStmt:
						mentionsLen, mentionsIdx := false, false
						ast.Inspect(x.Cond, func(k ast.Node) bool {
							if e, ok := k.(ast.Expr); ok && isLenOfPath(e) {
								mentionsLen = true
							}
							if id, ok := k.(*ast.Ident); ok && core.ObjOf(info, id) == idx {
								mentionsIdx = true
							}
							return true
						})
						if mentionsLen && mentionsIdx {
							for _, s := range x.Body.List {
								if a3, ok := s.(*ast.AssignStmt); ok && len(a3.Lhs) == 1 {
									if l3, ok := a3.Lhs[0].(*ast.Ident); ok && core.ObjOf(info, l3) == idx {
										good = true
									}
								}
							}
						}
					}
				}
				if good {
					r.OK("E11.cursor-revalidated-after-join", key, c.Pos(as2.Pos()), "")
				} else {
					r.Fail("E11.cursor-revalidated-after-join", key, c.Pos(as2.Pos()), fmt.Sprintf("`%s` rebuilds the path after `%s` was taken as its length, and nothing in the list sets or clamps `%s` afterwards: the rebuilt path can be shorter (a Close that follows a bare MoveTo removes it), and the next `p.d[%s-3]` reads past the end", c.Src(as2), iid.Name, iid.Name, iid.Name))
				}
			}
		}
		return true
	})
	r.Count("E11.cursor-revalidated-after-join", n)
	r.Floor("E11.cursor-revalidated-after-join", 1)
}

// E11EmptyCloseKeepsPosition: the path-data parser keeps the position of a sub-path that Close removed.
func E11EmptyCloseKeepsPosition(c *core.Ctx, r *core.Report) {
	r.Rule("E11.empty-close-keeps-position", "SVG path data continues after `z` at the start of the sub-path just closed. Path.Close removes a sub-path that is a MoveTo only, and with it the place the builder would continue from. The `Z` case of ParseSVGPath therefore compares the builder's pen (p.Pos()) with the parser's own current point after the Close, and a MoveTo is issued — in that case, or before the next drawing command under a flag set there — when they differ. Without it `M5 5zl1 1` is read as `M0 0L6 6`, and after an earlier sub-path the line is attached to that sub-path")
	p := c.MustPkg("")
	info := p.TypesInfo
	fd := core.MustFuncDecl(p, "ParseSVGPath")
	r.Func("canvas.ParseSVGPath")
	key := "canvas.ParseSVGPath|case 'Z'|position kept when Close removes an empty sub-path"
	r.Count("E11.empty-close-keeps-position", 1)
	var zcase *ast.CaseClause
	ast.Inspect(fd.Body, func(m ast.Node) bool {
		cc, ok := m.(*ast.CaseClause)
		if !ok {
			return true
		}
		for _, e := range cc.List {
			if v, ok := core.ConstInt(info, e); ok && (v == 'Z' || v == 'z') {
				// the clause that calls Close
				ast.Inspect(cc, func(k ast.Node) bool {
					if call, ok := k.(*ast.CallExpr); ok {
						if f := core.CalleeOf(info, call); f != nil && f.Name() == "Close" {
							zcase = cc
						}
					}
					return true
				})
			}
		}
		return true
	})
	if zcase == nil {
		r.Fail("E11.empty-close-keeps-position", key, c.Pos(fd.Pos()), "the case of ParseSVGPath that handles Z/z by calling Close was not found")
		return
	}
	callsPos := func(nd ast.Node) bool {
		hit := false
		ast.Inspect(nd, func(k ast.Node) bool {
			if call, ok := k.(*ast.CallExpr); ok {
				if f := core.CalleeOf(info, call); f != nil && f.Name() == "Pos" {
					hit = true
				}
			}
			return true
		})
		return hit
	}
	callsMoveTo := func(nd ast.Node) bool {
		hit := false
		ast.Inspect(nd, func(k ast.Node) bool {
			if call, ok := k.(*ast.CallExpr); ok {
				if f := core.CalleeOf(info, call); f != nil && f.Name() == "MoveTo" {
					hit = true
				}
			}
			return true
		})
		return hit
	}
	good := false
	var flag types.Object
	ast.Inspect(zcase, func(m ast.Node) bool {
		switch x := m.(type) {
		case *ast.IfStmt:
			if callsPos(x.Cond) && callsMoveTo(x.Body) {
				good = true
			}
		case *ast.AssignStmt:
			if len(x.Lhs) == 1 && len(x.Rhs) == 1 && callsPos(x.Rhs[0]) {
				if id, ok := x.Lhs[0].(*ast.Ident); ok {
					flag = core.ObjOf(info, id)
				}
			}
		}
		return true
	})
	var reissue *ast.IfStmt
	if !good && flag != nil {
		ast.Inspect(fd.Body, func(m ast.Node) bool {
			is, ok := m.(*ast.IfStmt)
			if !ok || !callsMoveTo(is.Body) {
				return true
			}
			ast.Inspect(is.Cond, func(k ast.Node) bool {
				if id, ok := k.(*ast.Ident); ok && core.ObjOf(info, id) == flag {
					good = true
					reissue = is
				}
				return true
			})
			return true
		})
	}
	// a close that follows such a close: the flag design loses the position again unless the MoveTo is also
	// re-issued in front of a Z, or the Z case consults the flag (or a copy taken before it is reset)
	if reissue != nil {
		key2 := "canvas.ParseSVGPath|case 'Z'|position kept through a repeated close"
		r.Count("E11.empty-close-keeps-position", 1)
		excludesZ := false
		ast.Inspect(reissue.Cond, func(k ast.Node) bool {
			if e, ok := k.(ast.Expr); ok {
				if v, ok := core.ConstInt(info, e); ok && (v == 'Z' || v == 'z') {
					excludesZ = true
				}
			}
			return true
		})
		copies := map[types.Object]bool{flag: true}
		ast.Inspect(fd.Body, func(k ast.Node) bool {
			if as, ok := k.(*ast.AssignStmt); ok && len(as.Lhs) == 1 && len(as.Rhs) == 1 {
				if rid, ok := core.Unparen(as.Rhs[0]).(*ast.Ident); ok && core.ObjOf(info, rid) == flag {
					if lid, ok := as.Lhs[0].(*ast.Ident); ok {
						copies[core.ObjOf(info, lid)] = true
					}
				}
			}
			return true
		})
		consulted := false
		ast.Inspect(zcase, func(k ast.Node) bool {
			if is, ok := k.(*ast.IfStmt); ok {
				ast.Inspect(is.Cond, func(q ast.Node) bool {
					if id, ok := q.(*ast.Ident); ok && copies[core.ObjOf(info, id)] {
						consulted = true
					}
					return true
				})
			}
			return true
		})
		if !excludesZ || consulted {
			r.OK("E11.empty-close-keeps-position", key2, c.Pos(zcase.Pos()), "")
		} else {
			r.Fail("E11.empty-close-keeps-position", key2, c.Pos(zcase.Pos()), "the MoveTo is not re-issued in front of a Z, and the Z case does not consult the flag either: a second close (`M7 7zzL9 9`) takes the position from the builder, which has forgotten the removed sub-path, and the line starts at the origin or at the start of the previous sub-path")
		}
	}
	if good {
		r.OK("E11.empty-close-keeps-position", key, c.Pos(zcase.Pos()), "")
	} else {
		r.Fail("E11.empty-close-keeps-position", key, c.Pos(zcase.Pos()), "after p.Close() the parser does not compare the builder's pen with its own current point (no test of p.Pos() that leads to a MoveTo): when Close removes a sub-path that was a MoveTo only, the next relative or absolute drawing command starts at the end of the previous sub-path (or at the origin) instead of at the closed sub-path's start — `M5 5zl1 1` becomes `M0 0L6 6`")
	}
}

// E11AboutIsConjugation: a transformation about a pivot is the transformation between a translation and its inverse.
func E11AboutIsConjugation(c *core.Ctx, r *core.Report) {
	r.Rule("E11.about-is-conjugation", "the Matrix methods named …About transform about a pivot: Translate(p)·Op·Translate(−p), appended to the receiver. Each of them returns exactly that chain — receiver.Translate(a, b).Op(…).Translate(a′, b′) with a′ = −a and b′ = −b (a constant zero stays zero). A 'simplified' chain such as Shear(sx,sy).Translate(−sx·y, −sy·x) is right only when the cross terms vanish: chained methods compose to the right, so the offset is itself sheared, and the pivot moves whenever both shear factors are non-zero")
	p := c.MustPkg("")
	info := p.TypesInfo
	n := 0
	for _, fd := range core.AllFuncDecls(p) {
		if fd.Recv == nil || fd.Body == nil || core.RecvName(fd) != "Matrix" || !strings.HasSuffix(fd.Name.Name, "About") {
			continue
		}
		n++
		key := "canvas.Matrix." + fd.Name.Name + "|translate to the pivot, transform, translate back"
		recv := info.Defs[fd.Recv.List[0].Names[0]]
		var ret ast.Expr
		stmts := 0
		for _, st := range fd.Body.List {
			stmts++
			if rs, ok := st.(*ast.ReturnStmt); ok && len(rs.Results) == 1 {
				ret = rs.Results[0]
			}
		}
		fail := func(why string) {
			r.Fail("E11.about-is-conjugation", key, c.Pos(fd.Pos()), why+": about a pivot p the transformation is Translate(p)·Op·Translate(−p); any other arrangement agrees with it only for special arguments (one shear factor zero, a pivot at the origin)")
		}
		if ret == nil || stmts != 1 {
			fail("the method is not a single return of the three-link chain")
			continue
		}
		link := func(e ast.Expr) (string, []ast.Expr, ast.Expr, bool) {
			call, ok := core.Unparen(e).(*ast.CallExpr)
			if !ok {
				return "", nil, nil, false
			}
			se, ok := call.Fun.(*ast.SelectorExpr)
			if !ok {
				return "", nil, nil, false
			}
			return se.Sel.Name, call.Args, se.X, true
		}
		chain := ret
		// receiver.Mul(Identity.Translate(…).Op(…).Translate(…)) is the same product
		if nm, args, x, ok := link(ret); ok && nm == "Mul" && len(args) == 1 {
			if id, ok := core.Unparen(x).(*ast.Ident); ok && core.ObjOf(info, id) == recv {
				chain = args[0]
			}
		}
		n3, a3, x3, ok3 := link(chain)
		n2, _, x2, ok2 := link(x3)
		n1, a1, x1, ok1 := link(x2)
		rid, okR := core.Unparen(x1).(*ast.Ident)
		if okR && chain != ret && rid.Name == "Identity" {
			recv = core.ObjOf(info, rid)
		}
		if !ok3 || !ok2 || !ok1 || !okR || core.ObjOf(info, rid) != recv {
			fail(fmt.Sprintf("`%s` is not receiver.Translate(…).Op(…).Translate(…)", types.ExprString(ret)))
			continue
		}
		if n1 != "Translate" || n3 != "Translate" || n2 == "Translate" || len(a1) != 2 || len(a3) != 2 {
			fail(fmt.Sprintf("`%s` does not begin and end with a Translate of two arguments around the transformation", types.ExprString(ret)))
			continue
		}
		isNeg := func(a, b ast.Expr) bool {
			if v, ok := core.ConstVal(info, a).(constant.Value); ok && v != nil && numSign(v) == 0 {
				w := core.ConstVal(info, b)
				return w != nil && numSign(w) == 0
			}
			u, ok := core.Unparen(b).(*ast.UnaryExpr)
			return ok && u.Op == token.SUB && types.ExprString(core.Unparen(u.X)) == types.ExprString(core.Unparen(a))
		}
		if isNeg(a1[0], a3[0]) && isNeg(a1[1], a3[1]) {
			r.OK("E11.about-is-conjugation", key, c.Pos(ret.Pos()), types.ExprString(ret))
		} else {
			fail(fmt.Sprintf("`%s`: the last translation is not the inverse of the first", types.ExprString(ret)))
		}
	}
	r.Count("E11.about-is-conjugation", n)
	r.Floor("E11.about-is-conjugation", 5)
}

// E11CloseUsesOwnStart: Reverse closes a sub-path with that sub-path's own start, not the next one's.
func E11CloseUsesOwnStart(c *core.Ctx, r *core.Report) {
	r.Rule("E11.close-uses-own-start", "Path.Reverse walks the records backwards and keeps the start of the reversed sub-path it is building in a local; when it reaches the MoveTo of the original sub-path it emits the pending Close record with that start and only then moves on to the next sub-path. In the MoveTo case, every append of a Close record (`CloseCmd, v.X, v.Y, CloseCmd`) therefore comes before any assignment to v in that case. With the assignment first, the Close of a curved closed sub-path carries the start of the next reversed sub-path: a spurious segment to another sub-path's end, Reverse changes the length and is no involution")
	p := c.MustPkg("")
	info := p.TypesInfo
	fd := core.MustFuncDecl(p, "Path.Reverse")
	r.Func("canvas.Path.Reverse")
	n := 0
	for _, cc := range cmdSwitchClauses(p, fd) {
		if !strings.Contains(core.CaseLabel(info, cc), "MoveToCmd") {
			continue
		}
		// appends of a Close record and the variable they take the point from
		type closeSite struct {
			pos token.Pos
			v   types.Object
		}
		var closes []closeSite
		assigns := map[types.Object][]token.Pos{}
		ast.Inspect(cc, func(m ast.Node) bool {
			switch x := m.(type) {
			case *ast.CallExpr:
				if fn, ok := core.Unparen(x.Fun).(*ast.Ident); ok && fn.Name == "append" && len(x.Args) >= 5 {
					isClose := func(e ast.Expr) bool {
						id, ok := core.Unparen(e).(*ast.Ident)
						return ok && id.Name == "CloseCmd"
					}
					if isClose(x.Args[1]) && isClose(x.Args[len(x.Args)-1]) {
						if se, ok := core.Unparen(x.Args[2]).(*ast.SelectorExpr); ok {
							if id, ok := core.Unparen(se.X).(*ast.Ident); ok {
								closes = append(closes, closeSite{x.Pos(), core.ObjOf(info, id)})
							}
						}
					}
				}
			case *ast.AssignStmt:
				for _, l := range x.Lhs {
					if id, ok := l.(*ast.Ident); ok {
						assigns[core.ObjOf(info, id)] = append(assigns[core.ObjOf(info, id)], x.Pos())
					}
				}
			}
			return true
		})
		for _, cs := range closes {
			n++
			key := fmt.Sprintf("canvas.Path.Reverse|case MoveToCmd|Close record #%d written before its start variable is reassigned", n)
			early := false
			for _, ap := range assigns[cs.v] {
				if ap < cs.pos {
					early = true
				}
			}
			if !early {
				r.OK("E11.close-uses-own-start", key, c.Pos(cs.pos), cs.v.Name())
			} else {
				r.Fail("E11.close-uses-own-start", key, c.Pos(cs.pos), fmt.Sprintf("the Close record is written with `%s` after `%s` was already set for the next sub-path: the sub-path being finished is closed to the start of the following one (the end of the preceding original sub-path) — a spurious straight segment, so Reverse().Length() differs from Length() and Reverse().Reverse() is not the path", cs.v.Name(), cs.v.Name()))
			}
		}
	}
	r.Count("E11.close-uses-own-start", n)
	r.Floor("E11.close-uses-own-start", 1)
}

// E11ZeroFactor: a factor that is still the zero value of its variable when it is used.
func E11ZeroFactor(c *core.Ctx, r *core.Report) {
	r.Rule("E11.zero-factor", "SVG importer (svg.go): a local declared `var x T` (zero value) whose field x.f is used as a factor or divisor (`… * float64(x.f)`) has, on at least one path from the declaration to that use, received a value (an assignment to x or x.f, its address taken, a closure or pointer-receiver method that can write it) — or the field is never assigned afterwards either. A factor that is zero on every path while the field is assigned further down means the two statements were exchanged: parseColor premultiplies the colour channels by col.A, which must have been parsed first, or every rgba() paint becomes black (forward may-write analysis over the statement structure; expected count zero, the mutant of the thorough tier is the positive example)")
	p := c.MustPkg("")
	info := p.TypesInfo
	sites, funcs := 0, 0
	for _, fd := range core.AllFuncDecls(p) {
		if fd.Body == nil || filepath.Base(c.Fset.Position(fd.Pos()).Filename) != "svg.go" {
			continue
		}
		funcs++
		// tracked: locals declared without a value, of struct type
		tracked := map[types.Object]bool{}
		ast.Inspect(fd.Body, func(n ast.Node) bool {
			ds, ok := n.(*ast.DeclStmt)
			if !ok {
				return true
			}
			gd, ok := ds.Decl.(*ast.GenDecl)
			if !ok || gd.Tok != token.VAR {
				return true
			}
			for _, sp := range gd.Specs {
				vs := sp.(*ast.ValueSpec)
				if len(vs.Values) != 0 {
					continue
				}
				for _, nm := range vs.Names {
					if o := info.Defs[nm]; o != nil {
						if _, ok := o.Type().Underlying().(*types.Struct); ok {
							tracked[o] = true
						}
					}
				}
			}
			return true
		})
		if len(tracked) == 0 {
			continue
		}
		rootField := func(e ast.Expr) (types.Object, string) {
			// x.f (one level) → x, "f"; x → x, ""
			switch v := core.Unparen(e).(type) {
			case *ast.Ident:
				if o := core.ObjOf(info, v); tracked[o] {
					return o, ""
				}
			case *ast.SelectorExpr:
				if id, ok := core.Unparen(v.X).(*ast.Ident); ok {
					if o := core.ObjOf(info, id); tracked[o] {
						return o, v.Sel.Name
					}
				}
				if o, _ := rootFieldDeep(info, v.X, tracked); o != nil {
					return o, "*"
				}
			case *ast.IndexExpr:
				if o, _ := rootFieldDeep(info, v.X, tracked); o != nil {
					return o, "*"
				}
			}
			return nil, ""
		}
		// later writes per (var, field)
		type wr struct {
			o types.Object
			f string
		}
		writesAt := map[wr][]token.Pos{}
		ast.Inspect(fd.Body, func(n ast.Node) bool {
			if as, ok := n.(*ast.AssignStmt); ok {
				for _, l := range as.Lhs {
					if o, f := rootField(l); o != nil {
						writesAt[wr{o, f}] = append(writesAt[wr{o, f}], l.Pos())
					}
				}
			}
			return true
		})
		type S map[string]bool // "name" or "name.f" possibly written; nil = dead
		key := func(o types.Object, f string) string {
			if f == "" {
				return o.Name()
			}
			return o.Name() + "." + f
		}
		touch := func(s S, k string) S {
			if s[k] {
				return s
			}
			out := S{k: true}
			for x := range s {
				out[x] = true
			}
			return out
		}
		var checkReads func(e ast.Expr, s S)
		checkReads = func(e ast.Expr, s S) {
			ast.Inspect(e, func(n ast.Node) bool {
				if _, ok := n.(*ast.FuncLit); ok {
					return false
				}
				be, ok := n.(*ast.BinaryExpr)
				if !ok || (be.Op != token.MUL && be.Op != token.QUO) {
					return true
				}
				for _, opnd := range []ast.Expr{be.X, be.Y} {
					x := core.Unparen(opnd)
					for {
						call, ok := x.(*ast.CallExpr)
						if !ok || len(call.Args) != 1 {
							break
						}
						if tv, ok := info.Types[call.Fun]; !ok || !tv.IsType() {
							break
						}
						x = core.Unparen(call.Args[0])
					}
					o, f := rootField(x)
					if o == nil || f == "" || f == "*" {
						continue
					}
					sites++
					if s[key(o, "")] || s[key(o, f)] || s[key(o, "*")] {
						continue
					}
					later := false
					for _, w := range writesAt[wr{o, f}] {
						if w > be.Pos() {
							later = true
						}
					}
					if later {
						r.Fail("E11.zero-factor", fmt.Sprintf("canvas.%s|%s.%s used as a factor", core.FuncName(fd), o.Name(), f), c.Pos(be.Pos()), fmt.Sprintf("`%s`: on every path from `var %s` to this point %s.%s is still zero, and it is assigned only further down — the product is always zero", c.Src(be), o.Name(), o.Name(), f))
					}
				}
				return true
			})
		}
		effects := func(e ast.Expr, s S) S {
			// address taken, closures, pointer-receiver methods: the variable may be written from here on
			ast.Inspect(e, func(n ast.Node) bool {
				switch v := n.(type) {
				case *ast.FuncLit:
					ast.Inspect(v.Body, func(m ast.Node) bool {
						if id, ok := m.(*ast.Ident); ok && tracked[core.ObjOf(info, id)] {
							s = touch(s, id.Name)
						}
						return true
					})
					return false
				case *ast.UnaryExpr:
					if v.Op == token.AND {
						if o, _ := rootFieldDeep(info, v.X, tracked); o != nil {
							s = touch(s, o.Name())
						}
					}
				case *ast.CallExpr:
					if se, ok := v.Fun.(*ast.SelectorExpr); ok {
						if sel := info.Selections[se]; sel != nil && sel.Kind() == types.MethodVal {
							if sig, ok := sel.Obj().Type().(*types.Signature); ok && sig.Recv() != nil {
								if _, isPtr := sig.Recv().Type().(*types.Pointer); isPtr {
									if o, _ := rootFieldDeep(info, se.X, tracked); o != nil {
										s = touch(s, o.Name())
									}
								}
							}
						}
					}
				}
				return true
			})
			return s
		}
		fl := &core.Flow[S]{
			Join: func(a, b S) S {
				out := S{}
				for k := range a {
					out[k] = true
				}
				for k := range b {
					out[k] = true
				}
				return out
			},
			Equal: func(a, b S) bool {
				if len(a) != len(b) || (a == nil) != (b == nil) {
					return false
				}
				for k := range a {
					if !b[k] {
						return false
					}
				}
				return true
			},
			Dead:   func() S { return nil },
			IsDead: func(s S) bool { return s == nil },
			Exit:   func(ast.Node, S) {},
			Expr: func(e ast.Expr, s S) S {
				checkReads(e, s)
				return effects(e, s)
			},
			Stmt: func(st ast.Stmt, s S) (S, bool) {
				switch x := st.(type) {
				case *ast.DeclStmt:
					// `var x T` starts x afresh
					if gd, ok := x.Decl.(*ast.GenDecl); ok && gd.Tok == token.VAR {
						out := S{}
						for k := range s {
							out[k] = true
						}
						for _, sp := range gd.Specs {
							for _, nm := range sp.(*ast.ValueSpec).Names {
								if tracked[info.Defs[nm]] {
									for k := range out {
										if k == nm.Name || strings.HasPrefix(k, nm.Name+".") {
											delete(out, k)
										}
									}
								}
							}
							for _, v := range sp.(*ast.ValueSpec).Values {
								checkReads(v, out)
								out = effects(v, out)
							}
						}
						return out, true
					}
				case *ast.AssignStmt:
					for _, rhs := range x.Rhs {
						checkReads(rhs, s)
						s = effects(rhs, s)
					}
					for _, l := range x.Lhs {
						if o, f := rootField(l); o != nil {
							s = touch(s, key(o, f))
						} else {
							checkReads(l, s)
							s = effects(l, s)
						}
					}
					return s, true
				case *ast.IncDecStmt:
					if o, f := rootField(x.X); o != nil {
						return touch(s, key(o, f)), true
					}
				case *ast.RangeStmt:
					for _, l := range []ast.Expr{x.Key, x.Value} {
						if l != nil {
							if o, f := rootField(l); o != nil {
								s = touch(s, key(o, f))
							}
						}
					}
					return s, false
				}
				return s, false
			},
		}
		fl.Run(fd.Body, S{})
	}
	r.Count("E11.zero-factor-functions", funcs)
	r.Floor("E11.zero-factor-functions", 10)
	r.OK("E11.zero-factor", "canvas.svg.go|factors of zero-declared locals", c.Pos(p.Syntax[0].Pos()), fmt.Sprintf("%d functions of svg.go, %d uses of a field of a zero-declared local as a factor examined", funcs, sites))
}

// rootFieldDeep: the tracked variable at the root of a selector/index chain.
func rootFieldDeep(info *types.Info, e ast.Expr, tracked map[types.Object]bool) (types.Object, bool) {
	for {
		switch v := core.Unparen(e).(type) {
		case *ast.Ident:
			if o := core.ObjOf(info, v); tracked[o] {
				return o, true
			}
			return nil, false
		case *ast.SelectorExpr:
			e = v.X
		case *ast.IndexExpr:
			e = v.X
		case *ast.StarExpr:
			e = v.X
		default:
			return nil, false
		}
	}
}

// E11LeadingCutExact: SplitAt discards a leading cut only when Dash would not have requested it.
func E11LeadingCutExact(c *core.Ctx, r *core.Report) {
	r.Rule("E11.leading-cut-exact", "Dash decides which of the pieces SplitAt returns are dashes from the parity of the number of cuts it requested, and it requests every boundary with `0.0 < pos` — an exact comparison. SplitAt may therefore discard a leading cut (`ts = ts[k:]` in front of the segment loop) only under a guard that is true for non-positive cuts only: comparisons of ts[0] with the constant zero by ==, < or <= and tests of len(ts), joined by && and ||. A guard with a tolerance (`Equal(ts[0], 0.0)`) also discards a cut a rounding error above zero, every later piece changes parity and Dash draws the gaps (`Dash(math.Nextafter(2,0), 2, 1)`)")
	p := c.MustPkg("")
	info := p.TypesInfo
	fd := core.MustFuncDecl(p, "Path.SplitAt")
	ts := paramObj(info, fd, 0)
	if ts == nil {
		panic(core.Infra("SplitAt: the parameter with the cut positions was not found"))
	}
	isTs := func(e ast.Expr) bool {
		id, ok := core.Unparen(e).(*ast.Ident)
		return ok && core.ObjOf(info, id) == ts
	}
	var leaf func(e ast.Expr) string
	leaf = func(e ast.Expr) string {
		e = core.Unparen(e)
		if be, ok := e.(*ast.BinaryExpr); ok {
			switch be.Op {
			case token.LAND, token.LOR:
				if bad := leaf(be.X); bad != "" {
					return bad
				}
				return leaf(be.Y)
			case token.EQL, token.LSS, token.LEQ, token.NEQ, token.GTR, token.GEQ:
				// a test of len(ts)
				for _, side := range []ast.Expr{be.X, be.Y} {
					if call, ok := core.Unparen(side).(*ast.CallExpr); ok && len(call.Args) == 1 {
						if id, ok := call.Fun.(*ast.Ident); ok && id.Name == "len" && isTs(call.Args[0]) {
							return ""
						}
					}
				}
				// ts[0] against the constant zero
				x, y := core.Unparen(be.X), core.Unparen(be.Y)
				op := be.Op
				if _, isConst := core.ConstInt(info, x); isConst || numSign(core.ConstVal(info, x)) == 0 && core.ConstVal(info, x) != nil {
					x, y = y, x
					switch op {
					case token.LSS:
						op = token.GTR
					case token.LEQ:
						op = token.GEQ
					case token.GTR:
						op = token.LSS
					case token.GEQ:
						op = token.LEQ
					}
				}
				ie, ok := x.(*ast.IndexExpr)
				if !ok || !isTs(ie.X) {
					break
				}
				if k, ok := core.ConstInt(info, ie.Index); !ok || k != 0 {
					break
				}
				v := core.ConstVal(info, y)
				if v == nil || numSign(v) != 0 {
					return fmt.Sprintf("`%s` compares the cut with a value other than zero", c.Src(be))
				}
				if op == token.EQL || op == token.LSS || op == token.LEQ {
					return ""
				}
				return fmt.Sprintf("`%s` is true for positive cuts", c.Src(be))
			}
		}
		return fmt.Sprintf("`%s` is not an exact comparison of the first cut with zero", c.Src(e))
	}
	n := 0
	var stack []ast.Node
	ast.Inspect(fd.Body, func(nd ast.Node) bool {
		if nd == nil {
			stack = stack[:len(stack)-1]
			return true
		}
		stack = append(stack, nd)
		as, ok := nd.(*ast.AssignStmt)
		if !ok || len(as.Lhs) != 1 || len(as.Rhs) != 1 || !isTs(as.Lhs[0]) {
			return true
		}
		se, ok := core.Unparen(as.Rhs[0]).(*ast.SliceExpr)
		if !ok || !isTs(se.X) || se.Low == nil {
			return true
		}
		n++
		key := fmt.Sprintf("canvas.Path.SplitAt|leading cuts discarded #%d", n)
		bad := ""
		guards := 0
		for i := len(stack) - 2; i >= 0; i-- {
			var cond ast.Expr
			switch g := stack[i].(type) {
			case *ast.IfStmt:
				cond = g.Cond
			case *ast.ForStmt:
				cond = g.Cond
			}
			if cond != nil {
				guards++
				if b := leaf(cond); b != "" && bad == "" {
					bad = b
				}
			}
		}
		switch {
		case guards == 0:
			r.Fail("E11.leading-cut-exact", key, c.Pos(as.Pos()), "a leading cut is discarded unconditionally")
		case bad != "":
			r.Fail("E11.leading-cut-exact", key, c.Pos(as.Pos()), "the guard of `"+c.Src(as)+"`: "+bad+": a cut that Dash requested (it tests `0.0 < pos` exactly) is discarded, the pieces after it change parity and Dash draws the gaps instead of the dashes")
		default:
			r.OK("E11.leading-cut-exact", key, c.Pos(as.Pos()), "")
		}
		return true
	})
	// the other half of the contract: Dash requests with an exact `0.0 < pos`
	dd := core.MustFuncDecl(p, "Path.Dash")
	exact := 0
	ast.Inspect(dd.Body, func(nd ast.Node) bool {
		is, ok := nd.(*ast.IfStmt)
		if !ok {
			return true
		}
		be, ok := core.Unparen(is.Cond).(*ast.BinaryExpr)
		if !ok || be.Op != token.LSS {
			return true
		}
		if v := core.ConstVal(info, be.X); v == nil || numSign(v) != 0 {
			return true
		}
		appends := false
		ast.Inspect(is.Body, func(k ast.Node) bool {
			if call, ok := k.(*ast.CallExpr); ok {
				if id, ok := call.Fun.(*ast.Ident); ok && id.Name == "append" {
					appends = true
				}
			}
			return true
		})
		if appends {
			exact++
		}
		return true
	})
	if exact > 0 {
		r.OK("E11.leading-cut-exact", "canvas.Path.Dash|cuts requested when 0 < pos", c.Pos(dd.Pos()), "")
	} else {
		r.Fail("E11.leading-cut-exact", "canvas.Path.Dash|cuts requested when 0 < pos", c.Pos(dd.Pos()), "Dash no longer requests its cuts under an exact `0.0 < pos`: the contract with SplitAt's exact test of the first cut cannot be checked")
	}
	r.Count("E11.leading-cut-sites", n)
	r.Floor("E11.leading-cut-sites", 1)
}

// E11SVGMatrixOrder: matrix(a,b,c,d,e,f) of SVG is column-major.
func E11SVGMatrixOrder(c *core.Ctx, r *core.Report) {
	r.Rule("E11.svg-matrix-order", "SVG's `matrix(a,b,c,d,e,f)` maps (x,y) to (a·x + c·y + e, b·x + d·y + f): the arguments run down the columns. Wherever the module formats a string `matrix(%v,…)` with six verbs, each argument contains exactly one element of a Matrix and the elements are, in order, [0][0], [1][0], [0][1], [1][1], [0][2], [1][2]; the two off-diagonal arguments carry the same sign treatment (both negated for the axis flip, or neither). Written row by row the string denotes the transposed linear part — invisible for symmetric matrices (the ones the tests use), wrong for every shear")
	n := 0
	for _, rel := range []string{"", "renderers/svg"} {
		p := c.MustPkg(rel)
		info := p.TypesInfo
		for _, fd := range core.AllFuncDecls(p) {
			if fd.Body == nil {
				continue
			}
			ast.Inspect(fd.Body, func(m ast.Node) bool {
				call, ok := m.(*ast.CallExpr)
				if !ok {
					return true
				}
				fi := -1
				for i, a := range call.Args {
					if s, ok := constString(info, a); ok && strings.Contains(s, "matrix(") && strings.Count(s, "%") == 6 {
						fi = i
					}
				}
				if fi < 0 || len(call.Args) != fi+7 {
					return true
				}
				n++
				key := fmt.Sprintf("%s.%s|matrix(…) #%d", map[string]string{"": "canvas"}[rel]+rel, core.FuncName(fd), n)
				want := [][2]int64{{0, 0}, {1, 0}, {0, 1}, {1, 1}, {0, 2}, {1, 2}}
				bad := ""
				neg := make([]bool, 6)
				for k := 0; k < 6; k++ {
					arg := call.Args[fi+1+k]
					var got [][2]int64
					ast.Inspect(arg, func(q ast.Node) bool {
						outer, ok := q.(*ast.IndexExpr)
						if !ok {
							return true
						}
						inner, ok := core.Unparen(outer.X).(*ast.IndexExpr)
						if !ok || !isNamed(info.TypeOf(inner.X), "tdewolff/canvas", "Matrix") {
							return true
						}
						i, ok1 := core.ConstInt(info, inner.Index)
						j, ok2 := core.ConstInt(info, outer.Index)
						if ok1 && ok2 {
							got = append(got, [2]int64{i, j})
						}
						return false
					})
					ast.Inspect(arg, func(q ast.Node) bool {
						if u, ok := q.(*ast.UnaryExpr); ok && u.Op == token.SUB {
							neg[k] = !neg[k]
						}
						return true
					})
					if len(got) != 1 {
						bad = fmt.Sprintf("argument %d `%s` does not contain exactly one matrix element", k+1, c.Src(arg))
						break
					}
					if got[0] != want[k] {
						bad = fmt.Sprintf("argument %d is the element [%d][%d], the column-major order of SVG wants [%d][%d] there (`%s`)", k+1, got[0][0], got[0][1], want[k][0], want[k][1], c.Src(arg))
						break
					}
				}
				if bad == "" && neg[1] != neg[2] {
					bad = "the two off-diagonal arguments are not negated alike"
				}
				if bad == "" {
					r.OK("E11.svg-matrix-order", key, c.Pos(call.Pos()), "")
				} else {
					r.Fail("E11.svg-matrix-order", key, c.Pos(call.Pos()), bad+": the string denotes another transformation than the matrix (for a shear, its transpose)")
				}
				return true
			})
		}
	}
	r.Count("E11.svg-matrix-sites", n)
	r.Floor("E11.svg-matrix-sites", 1)
}

// E11ArcRotationRewritten: a transformed arc keeps its stored rotation only under a uniform scaling.
func E11ArcRotationRewritten(c *core.Ctx, r *core.Report) {
	r.Rule("E11.arc-rotation-rewritten", "Path.Transform, arc case: every branch that rewrites the end point of the arc record (slots +5, +6) and leaves the case also rewrites the stored rotation (slot +3), or is guarded by a test that the two diagonal entries of the matrix are equal *with their signs* (`m[0][0] == m[1][1]`, directly or through Equal) — a translation or uniform scaling, which keeps the axes of the ellipse. A guard on the absolute values also lets the axis reflections through (`Scale(1,-1)`), which turn the rotation φ into −φ: the reflected arc keeps the old rotation between mirrored end points and Bounds(reflect(p)) is no longer reflect(Bounds(p))")
	p := c.MustPkg("")
	info := p.TypesInfo
	fd := core.MustFuncDecl(p, "Path.Transform")
	mObj := paramObj(info, fd, 0)
	var arc *ast.CaseClause
	for _, cc := range cmdSwitchClauses(p, fd) {
		if strings.Contains(core.CaseLabel(info, cc), "ArcToCmd") {
			arc = cc
		}
	}
	if arc == nil {
		panic(core.Infra("Path.Transform: the ArcToCmd case was not found"))
	}
	slots := func(nd ast.Node) map[int]bool {
		out := map[int]bool{}
		ast.Inspect(nd, func(k ast.Node) bool {
			if as, ok := k.(*ast.AssignStmt); ok {
				for _, l := range as.Lhs {
					if ie, ok := core.Unparen(l).(*ast.IndexExpr); ok && core.IsPathDataSel(info, ie.X) {
						if _, off, ok := linForm(info, ie.Index); ok {
							out[off] = true
						}
					}
				}
			}
			return true
		})
		return out
	}
	leaves := func(b *ast.BlockStmt) bool {
		if len(b.List) == 0 {
			return false
		}
		switch x := b.List[len(b.List)-1].(type) {
		case *ast.BranchStmt:
			return x.Tok == token.CONTINUE || x.Tok == token.BREAK
		case *ast.ReturnStmt:
			return true
		}
		return false
	}
	// isDiag: m[k][k]
	isDiag := func(e ast.Expr, k int64) bool {
		outer, ok := core.Unparen(e).(*ast.IndexExpr)
		if !ok {
			return false
		}
		inner, ok := core.Unparen(outer.X).(*ast.IndexExpr)
		if !ok {
			return false
		}
		id, ok := core.Unparen(inner.X).(*ast.Ident)
		if !ok || core.ObjOf(info, id) != mObj {
			return false
		}
		a, ok1 := core.ConstInt(info, inner.Index)
		b, ok2 := core.ConstInt(info, outer.Index)
		return ok1 && ok2 && a == k && b == k
	}
	var signedEq func(e ast.Expr, depth int) bool
	signedEq = func(e ast.Expr, depth int) bool {
		if depth > 4 {
			return false
		}
		found := false
		ast.Inspect(e, func(k ast.Node) bool {
			switch x := k.(type) {
			case *ast.BinaryExpr:
				if x.Op == token.EQL && ((isDiag(x.X, 0) && isDiag(x.Y, 1)) || (isDiag(x.X, 1) && isDiag(x.Y, 0))) {
					found = true
				}
			case *ast.CallExpr:
				if f := core.CalleeOf(info, x); f != nil && f.Name() == "Equal" && len(x.Args) == 2 {
					if (isDiag(x.Args[0], 0) && isDiag(x.Args[1], 1)) || (isDiag(x.Args[0], 1) && isDiag(x.Args[1], 0)) {
						found = true
					}
				}
			case *ast.Ident:
				// a bool local: follow its one definition
				if o := core.ObjOf(info, x); o != nil {
					if bt, ok := o.Type().Underlying().(*types.Basic); ok && bt.Info()&types.IsBoolean != 0 {
						ast.Inspect(fd.Body, func(q ast.Node) bool {
							if as, ok := q.(*ast.AssignStmt); ok && len(as.Lhs) == len(as.Rhs) {
								for i, l := range as.Lhs {
									if lid, ok := l.(*ast.Ident); ok && core.ObjOf(info, lid) == o && signedEq(as.Rhs[i], depth+1) {
										found = true
									}
								}
							}
							return true
						})
					}
				}
			}
			return true
		})
		return found
	}
	n := 0
	ast.Inspect(&ast.BlockStmt{List: arc.Body}, func(k ast.Node) bool {
		is, ok := k.(*ast.IfStmt)
		if !ok || !leaves(is.Body) {
			return true
		}
		s := slots(is.Body)
		if !(s[5] || s[6]) {
			return true
		}
		n++
		key := fmt.Sprintf("canvas.Path.Transform|arc rewritten under `%s`", c.Src(is.Cond))
		switch {
		case s[3]:
			r.OK("E11.arc-rotation-rewritten", key, c.Pos(is.Pos()), "the rotation is rewritten too")
		case signedEq(is.Cond, 0):
			r.OK("E11.arc-rotation-rewritten", key, c.Pos(is.Pos()), "guarded by the signed equality of the diagonal")
		default:
			r.Fail("E11.arc-rotation-rewritten", key, c.Pos(is.Pos()), "this branch maps the arc's end point and leaves its stored rotation as it is, without a test that m[0][0] and m[1][1] are equal with their signs: an axis reflection passes (|m00| = |m11|), and the reflected arc keeps the un-mirrored rotation (`M5 3L20 3A30 10 30 1 1 50 25z` under ReflectX)")
		}
		return true
	})
	// the main path
	s := slots(&ast.BlockStmt{List: arc.Body})
	if s[5] && s[6] && s[3] {
		r.OK("E11.arc-rotation-rewritten", "canvas.Path.Transform|arc case rewrites end point and rotation", c.Pos(arc.Pos()), fmt.Sprintf("%d early branches", n))
	} else {
		r.Fail("E11.arc-rotation-rewritten", "canvas.Path.Transform|arc case rewrites end point and rotation", c.Pos(arc.Pos()), "the arc case does not rewrite the end point and the rotation of the record")
	}
	r.Count("E11.arc-rotation-rewritten", 1)
}

// E11SpanOffsetAxes: the origin WalkSpans reports for a span, per writing mode.
func E11SpanOffsetAxes(c *core.Ctx, r *core.Report) {
	r.Rule("E11.span-offset-axes", "Text.WalkSpans hands the PDF and SVG writers the origin of every span; RenderAsPath places the outlines at (span.X, −line.y) in horizontal and (line.y, −span.X) in vertical writing modes and FontFace.toPath adds the face's XOffset to x and its YOffset to y (sub- and superscripts). The two arguments of every callback call in WalkSpans are evaluated as polynomials over span.X, line.y and the two offsets, branch by branch of the writing-mode test and through parallel assignments: horizontally (span.X + mm·XOffset, −line.y + mm·YOffset), vertically (line.y + mm·XOffset, −span.X + mm·YOffset). Exchanged or negated offsets move a superscript in vertical text away from where path rendering draws it")
	p := c.MustPkg("")
	info := p.TypesInfo
	fd := core.MustFuncDecl(p, "Text.WalkSpans")
	cb := paramObj(info, fd, 0)
	sym := func(e ast.Expr) string {
		e = core.Unparen(e)
		for {
			call, ok := e.(*ast.CallExpr)
			if !ok || len(call.Args) != 1 {
				break
			}
			if tv, ok := info.Types[call.Fun]; !ok || !tv.IsType() {
				break
			}
			e = core.Unparen(call.Args[0])
		}
		if se, ok := e.(*ast.SelectorExpr); ok {
			switch se.Sel.Name {
			case "X":
				if isNamedDeref(info.TypeOf(se.X), "TextSpan") {
					return "spanX"
				}
			case "y":
				return "lineY"
			case "MmPerEm":
				return "mm"
			case "XOffset":
				return "XOff"
			case "YOffset":
				return "YOff"
			}
		}
		return ""
	}
	type env map[types.Object]poly
	type result struct {
		mode string
		x, y poly
		ok   bool
		pos  token.Pos
	}
	var results []result
	eval := func(e ast.Expr, en env) (poly, bool) {
		return polyOf(info, e, func(x ast.Expr) string {
			if id, ok := core.Unparen(x).(*ast.Ident); ok {
				if _, has := en[core.ObjOf(info, id)]; has {
					return "§" + id.Name
				}
			}
			return sym(x)
		}, nil)
	}
	subst := func(pl poly, en env, names map[string]types.Object) poly {
		// replace §name symbols by their polynomials
		out := poly{}
		for k, coef := range pl {
			term := poly{"": coef}
			if k != "" {
				for _, f := range strings.Split(k, "*") {
					if strings.HasPrefix(f, "§") {
						term = polyMul(term, en[names[f[2:]]])
					} else {
						term = polyMul(term, poly{f: 1})
					}
				}
			}
			out = polyAdd(out, term, 1)
		}
		return polyTrim(out)
	}
	var run func(list []ast.Stmt, en env, mode string)
	run = func(list []ast.Stmt, en env, mode string) {
		names := map[string]types.Object{}
		for o := range en {
			names[o.Name()] = o
		}
		for idx, st := range list {
			switch x := st.(type) {
			case *ast.AssignStmt:
				if len(x.Lhs) != len(x.Rhs) {
					continue
				}
				vals := make([]poly, len(x.Rhs))
				oks := make([]bool, len(x.Rhs))
				for i, rhs := range x.Rhs {
					pl, ok := eval(rhs, en)
					if ok {
						pl = subst(pl, en, names)
					}
					vals[i], oks[i] = pl, ok
				}
				for i, l := range x.Lhs {
					if id, ok := l.(*ast.Ident); ok && oks[i] {
						o := core.ObjOf(info, id)
						en[o] = vals[i]
						names[o.Name()] = o
					}
				}
			case *ast.IfStmt:
				be, ok := core.Unparen(x.Cond).(*ast.BinaryExpr)
				thenMode, elseMode := mode, mode
				if ok && (be.Op == token.EQL || be.Op == token.NEQ) && (core.ConstName(info, be.Y) == "HorizontalTB" || core.ConstName(info, be.X) == "HorizontalTB") {
					if be.Op == token.EQL {
						thenMode, elseMode = "horizontal", "vertical"
					} else {
						thenMode, elseMode = "vertical", "horizontal"
					}
				}
				cp := func() env {
					o := env{}
					for k, v := range en {
						o[k] = v
					}
					return o
				}
				rest := list[idx+1:]
				if thenMode != mode || elseMode != mode {
					run(append(append([]ast.Stmt{}, x.Body.List...), rest...), cp(), thenMode)
					if eb, ok := x.Else.(*ast.BlockStmt); ok {
						run(append(append([]ast.Stmt{}, eb.List...), rest...), cp(), elseMode)
					} else {
						run(rest, cp(), elseMode)
					}
					return
				}
			case *ast.ExprStmt:
				call, ok := x.X.(*ast.CallExpr)
				if !ok || len(call.Args) < 2 {
					continue
				}
				if id, ok := call.Fun.(*ast.Ident); !ok || core.ObjOf(info, id) != cb {
					continue
				}
				px, ok1 := eval(call.Args[0], en)
				py, ok2 := eval(call.Args[1], en)
				if ok1 && ok2 {
					px, py = subst(px, en, names), subst(py, en, names)
				}
				results = append(results, result{mode, px, py, ok1 && ok2, call.Pos()})
			}
		}
	}
	// the body of the loop over the spans
	var body *ast.BlockStmt
	ast.Inspect(fd.Body, func(m ast.Node) bool {
		if rs, ok := m.(*ast.RangeStmt); ok {
			hasCb := false
			for _, st := range rs.Body.List {
				ast.Inspect(st, func(k ast.Node) bool {
					if call, ok := k.(*ast.CallExpr); ok {
						if id, ok := call.Fun.(*ast.Ident); ok && core.ObjOf(info, id) == cb {
							hasCb = true
						}
					}
					return true
				})
			}
			if hasCb {
				body = rs.Body
			}
		}
		return true
	})
	if body == nil {
		panic(core.Infra("Text.WalkSpans: the loop that calls the callback was not found"))
	}
	run(body.List, env{}, "")
	want := map[string][2]poly{
		"horizontal": {poly{"spanX": 1, "XOff*mm": 1}, poly{"lineY": -1, "YOff*mm": 1}},
		"vertical":   {poly{"lineY": 1, "XOff*mm": 1}, poly{"spanX": -1, "YOff*mm": 1}},
	}
	seen := map[string]bool{}
	for _, res := range results {
		key := "canvas.Text.WalkSpans|origin of a span, " + res.mode + " writing"
		seen[res.mode] = true
		w, known := want[res.mode]
		switch {
		case !known:
			r.Fail("E11.span-offset-axes", "canvas.Text.WalkSpans|callback outside a writing-mode branch", c.Pos(res.pos), "a callback call whose writing mode is not decided by a test against HorizontalTB")
		case !res.ok:
			r.Fail("E11.span-offset-axes", key, c.Pos(res.pos), "the arguments are not polynomials in span.X, line.y and the face offsets")
		case !polyEqual(res.x, w[0]) || !polyEqual(res.y, w[1]):
			r.Fail("E11.span-offset-axes", key, c.Pos(res.pos), fmt.Sprintf("the span is reported at (%s, %s), path rendering draws it at (%s, %s)", res.x, res.y, w[0], w[1]))
		default:
			r.OK("E11.span-offset-axes", key, c.Pos(res.pos), fmt.Sprintf("(%s, %s)", res.x, res.y))
		}
	}
	for _, m := range []string{"horizontal", "vertical"} {
		if !seen[m] {
			r.Fail("E11.span-offset-axes", "canvas.Text.WalkSpans|origin of a span, "+m+" writing", c.Pos(fd.Pos()), "no callback call found for this writing mode")
		}
	}
	r.Count("E11.span-offset-axes", len(results))
	r.Floor("E11.span-offset-axes", 2)
}

func isNamedDeref(t types.Type, name string) bool {
	if t == nil {
		return false
	}
	if pt, ok := t.(*types.Pointer); ok {
		t = pt.Elem()
	}
	nt, ok := t.(*types.Named)
	return ok && nt.Obj().Name() == name
}

// E11JoinCoincidence: Join welds two paths only when the end of one is the start of the other.
func E11JoinCoincidence(c *core.Ctx, r *core.Report) {
	r.Rule("E11.join-coincidence", "Path.Join continues p with q's commands only when p ends (open) where q starts; otherwise it appends q with its MoveTo. The condition of that early return is evaluated over the four valuations of \"the x coordinates are equal\" and \"the y coordinates are equal\" (an Equal or == between the x values, resp. the y values, of p's last point and q's first point; closedness taken as false): it must hold exactly when at least one coordinate differs. `!Equal(x…) && !Equal(y…)` welds points that share one coordinate — Dash uses Join to reunite the two parts of a dash around the start of a closed sub-path, and a square that starts inside a gap gets its leading gap drawn")
	p := c.MustPkg("")
	info := p.TypesInfo
	fd := core.MustFuncDecl(p, "Path.Join")
	recv := info.Defs[fd.Recv.List[0].Names[0]]
	q := paramObj(info, fd, 0)
	locals := singleDefs(info, fd.Body)
	// axis: 0 = x, 1 = y, -1 = neither; side: which path
	var axisOf func(e ast.Expr, depth int) (int, types.Object)
	axisOf = func(e ast.Expr, depth int) (int, types.Object) {
		e = core.Unparen(e)
		if depth > 4 {
			return -1, nil
		}
		switch x := e.(type) {
		case *ast.IndexExpr:
			if !core.IsPathDataSel(info, x.X) {
				return -1, nil
			}
			root := core.RootIdent(x.X)
			if root == nil {
				return -1, nil
			}
			o := core.ObjOf(info, root)
			if v, ok := core.ConstInt(info, x.Index); ok { // q.d[1], q.d[2]
				if v == 1 {
					return 0, o
				}
				if v == 2 {
					return 1, o
				}
				return -1, nil
			}
			if be, ok := core.Unparen(x.Index).(*ast.BinaryExpr); ok && be.Op == token.SUB { // p.d[len(p.d)-3]
				if v, ok := core.ConstInt(info, be.Y); ok {
					if v == 3 {
						return 0, o
					}
					if v == 2 {
						return 1, o
					}
				}
			}
		case *ast.SelectorExpr:
			ax := -1
			if x.Sel.Name == "X" {
				ax = 0
			} else if x.Sel.Name == "Y" {
				ax = 1
			}
			if ax < 0 {
				return -1, nil
			}
			// a Point local: p.Pos() / Point{q.d[1], q.d[2]} / q.StartPos()
			if id, ok := core.Unparen(x.X).(*ast.Ident); ok {
				if d, ok := locals[core.ObjOf(info, id)]; ok {
					var o types.Object
					ast.Inspect(d, func(k ast.Node) bool {
						if kid, ok := k.(*ast.Ident); ok {
							if ko := core.ObjOf(info, kid); ko == recv || ko == q {
								o = ko
							}
						}
						return true
					})
					return ax, o
				}
			}
			if call, ok := core.Unparen(x.X).(*ast.CallExpr); ok {
				if root := core.RootIdent(call.Fun); root != nil {
					return ax, core.ObjOf(info, root)
				}
			}
		}
		return -1, nil
	}
	var target *ast.IfStmt
	for _, st := range fd.Body.List {
		is, ok := st.(*ast.IfStmt)
		if !ok || !allPathsReturn(is.Body) {
			continue
		}
		mentions := false
		ast.Inspect(is.Cond, func(k ast.Node) bool {
			if e, ok := k.(ast.Expr); ok {
				if ax, _ := axisOf(e, 0); ax >= 0 {
					mentions = true
				}
			}
			return true
		})
		if mentions {
			target = is
		}
	}
	key := "canvas.Path.Join|appended unless the end of p is the start of q"
	r.Count("E11.join-coincidence", 1)
	if target == nil {
		r.Fail("E11.join-coincidence", key, c.Pos(fd.Pos()), "the early return that compares the end of the receiver with the start of the argument was not found")
		return
	}
	bad := ""
	for _, eqX := range []bool{true, false} {
		for _, eqY := range []bool{true, false} {
			env := func(e ast.Expr) tri {
				var a, b ast.Expr
				neg := false
				switch x := e.(type) {
				case *ast.CallExpr:
					if f := core.CalleeOf(info, x); f != nil && f.Name() == "Equal" && len(x.Args) == 2 {
						a, b = x.Args[0], x.Args[1]
					} else if f != nil && (f.Name() == "Closed") {
						return tFalse
					} else if f != nil && f.Name() == "Equals" && len(x.Args) == 1 {
						return triOf(eqX && eqY)
					}
				case *ast.BinaryExpr:
					if x.Op == token.EQL || x.Op == token.NEQ {
						// p.d[len(p.d)-1] == CloseCmd: the receiver is open
						if core.ConstName(info, x.Y) == "CloseCmd" || core.ConstName(info, x.X) == "CloseCmd" {
							return triOf(x.Op == token.NEQ)
						}
						a, b, neg = x.X, x.Y, x.Op == token.NEQ
					}
				}
				if a == nil {
					return tUnknown
				}
				ax1, o1 := axisOf(a, 0)
				ax2, o2 := axisOf(b, 0)
				if ax1 < 0 || ax1 != ax2 || o1 == o2 {
					return tUnknown
				}
				v := eqX
				if ax1 == 1 {
					v = eqY
				}
				return triOf(v != neg)
			}
			got := evalBool(info, target.Cond, env)
			want := triOf(!(eqX && eqY))
			if got == tUnknown {
				bad = "the condition `" + c.Src(target.Cond) + "` cannot be evaluated"
			} else if got != want && bad == "" {
				bad = fmt.Sprintf("with x %s and y %s the paths are %s, the condition `%s` says otherwise", map[bool]string{true: "equal", false: "different"}[eqX], map[bool]string{true: "equal", false: "different"}[eqY], map[bool]string{true: "joined although the points differ", false: "appended although the points coincide"}[got == tFalse], c.Src(target.Cond))
			}
		}
	}
	if bad == "" {
		r.OK("E11.join-coincidence", key, c.Pos(target.Pos()), "")
	} else {
		r.Fail("E11.join-coincidence", key, c.Pos(target.Pos()), bad)
	}
}

// E11AccumulatorRestart: a hull accumulated over nested loops is started once.
func E11AccumulatorRestart(c *core.Ctx, r *core.Report) {
	r.Rule("E11.accumulator-restart", "canvas.go: a variable declared in front of a loop nest that is both extended inside it (`acc = acc.Add(x)`: the right-hand side reads acc) and overwritten inside it (`acc = x`) is an accumulator with a first-element case. Every overwrite is guarded by a test of the accumulator itself (`acc.Empty()`) or by a flag that is declared outside every loop of the nest — a flag (re)initialised inside the outer loop restarts the accumulation with each of its iterations, and Canvas.Fit then fits the canvas to the layers of whichever z-index the map yields last")
	p := c.MustPkg("")
	info := p.TypesInfo
	n := 0
	for _, fd := range core.AllFuncDecls(p) {
		if fd.Body == nil || filepath.Base(c.Fset.Position(fd.Pos()).Filename) != "canvas.go" {
			continue
		}
		// loops with their extents
		type span struct{ pos, end token.Pos }
		var loops []span
		ast.Inspect(fd.Body, func(m ast.Node) bool {
			switch x := m.(type) {
			case *ast.ForStmt:
				loops = append(loops, span{x.Pos(), x.End()})
			case *ast.RangeStmt:
				loops = append(loops, span{x.Pos(), x.End()})
			}
			return true
		})
		if len(loops) == 0 {
			continue
		}
		enclosing := func(pos token.Pos) []span {
			var out []span
			for _, l := range loops {
				if l.pos <= pos && pos < l.end {
					out = append(out, l)
				}
			}
			return out
		}
		mentions := func(nd ast.Node, o types.Object) bool {
			hit := false
			ast.Inspect(nd, func(k ast.Node) bool {
				if id, ok := k.(*ast.Ident); ok && core.ObjOf(info, id) == o {
					hit = true
				}
				return true
			})
			return hit
		}
		// candidate accumulators
		type asg struct {
			as    *ast.AssignStmt
			self  bool
			stack []ast.Node
		}
		byVar := map[types.Object][]asg{}
		var stack []ast.Node
		ast.Inspect(fd.Body, func(m ast.Node) bool {
			if m == nil {
				stack = stack[:len(stack)-1]
				return true
			}
			stack = append(stack, m)
			as, ok := m.(*ast.AssignStmt)
			if !ok || as.Tok != token.ASSIGN || len(as.Lhs) != 1 || len(as.Rhs) != 1 {
				return true
			}
			id, ok := as.Lhs[0].(*ast.Ident)
			if !ok {
				return true
			}
			o := core.ObjOf(info, id)
			if o == nil || len(enclosing(as.Pos())) == 0 {
				return true
			}
			// declared in front of the loops that enclose the assignment
			outside := true
			for _, l := range enclosing(as.Pos()) {
				if o.Pos() >= l.pos {
					outside = false
				}
			}
			if !outside {
				return true
			}
			byVar[o] = append(byVar[o], asg{as, mentions(as.Rhs[0], o), append([]ast.Node{}, stack...)})
			return true
		})
		for o, list := range byVar {
			hasSelf, hasOver := false, false
			for _, a := range list {
				if a.self {
					hasSelf = true
				} else {
					hasOver = true
				}
			}
			if !hasSelf || !hasOver {
				continue
			}
			k := 0
			for _, a := range list {
				if a.self {
					continue
				}
				n++
				k++
				key := fmt.Sprintf("canvas.%s|%s started #%d", core.FuncName(fd), o.Name(), k)
				outer := enclosing(a.as.Pos())
				good, why := false, ""
				for i := len(a.stack) - 2; i >= 0; i-- {
					is, ok := a.stack[i].(*ast.IfStmt)
					if !ok || is.Pos() < outer[0].pos {
						continue
					}
					if mentions(is.Cond, o) {
						good = true
						break
					}
					ast.Inspect(is.Cond, func(q ast.Node) bool {
						id, ok := q.(*ast.Ident)
						if !ok {
							return true
						}
						fo := core.ObjOf(info, id)
						if v, ok := fo.(*types.Var); ok && !v.IsField() {
							if bt, ok := v.Type().Underlying().(*types.Basic); ok && bt.Info()&types.IsBoolean != 0 {
								if fo.Pos() < outer[0].pos {
									good = true
								} else {
									why = fmt.Sprintf("the flag `%s` is declared inside the loop nest (%s), so `%s` is started anew with every iteration of the loop around it", fo.Name(), c.Pos(fo.Pos()), o.Name())
								}
							}
						}
						return true
					})
				}
				switch {
				case good:
					r.OK("E11.accumulator-restart", key, c.Pos(a.as.Pos()), "")
				case why != "":
					r.Fail("E11.accumulator-restart", key, c.Pos(a.as.Pos()), why+": what was accumulated before is overwritten")
				default:
					r.Fail("E11.accumulator-restart", key, c.Pos(a.as.Pos()), fmt.Sprintf("`%s` overwrites the accumulator inside the loops without a test of the accumulator or of a flag declared in front of them", c.Src(a.as)))
				}
			}
		}
	}
	r.Count("E11.accumulator-starts", n)
	r.Floor("E11.accumulator-starts", 1)
}

// E11ImageReplacedExtent: the origin of a drawn image is computed from the height of the image that is drawn.
func E11ImageReplacedExtent(c *core.Ctx, r *core.Report) {
	r.Rule("E11.image-replaced-extent", "Rasterizer.RenderImage may replace its image by a copy with a transparent margin of m pixels on every side and then places that copy: the point handed to m.Dot for the origin has y = H + m, with H the height of the caller's image (the copy is H + 2m high and its lower margin lies below the image). Heights are followed as polynomials in H and m: of the parameter, of a local measured on it (`size := img.Bounds().Size()`), of the copy (`image.NewRGBA(image.Rect(0, 0, w, h))` has height h) and of the parameter after `img = img2`; the origin's y is evaluated on the path that makes the copy and on the path that does not (there m = 0) and must be H + m on both. `size.Y - margin` with the size measured on the original is H − m: rotated and sheared images land 2m source pixels from their place")
	p := c.MustPkg("renderers/rasterizer")
	info := p.TypesInfo
	fd := core.MustFuncDecl(p, "Rasterizer.RenderImage")
	img := paramObj(info, fd, 0)
	if img == nil {
		panic(core.Infra("RenderImage: image parameter not found"))
	}
	key := "renderers/rasterizer.Rasterizer.RenderImage|origin from the height of the image that is drawn"
	r.Count("E11.image-replaced-extent", 1)
	type env struct {
		height map[types.Object]poly // height of an image-typed variable
		sizeY  map[types.Object]poly // Y of a local holding a Size()
	}
	var marginObj types.Object
	// the margin: the int local added twice to the copy's size; found as the local named in `…+margin*2`
	ast.Inspect(fd.Body, func(m ast.Node) bool {
		be, ok := m.(*ast.BinaryExpr)
		if !ok || be.Op != token.MUL {
			return true
		}
		for _, pr := range [][2]ast.Expr{{be.X, be.Y}, {be.Y, be.X}} {
			if v, ok := core.ConstInt(info, pr[1]); ok && v == 2 {
				if id, ok := core.Unparen(pr[0]).(*ast.Ident); ok && marginObj == nil {
					marginObj = core.ObjOf(info, id)
				}
			}
		}
		return true
	})
	if marginObj == nil {
		r.Fail("E11.image-replaced-extent", key, c.Pos(fd.Pos()), "the margin (the local doubled in the size of the copy) was not found")
		return
	}
	var evalE func(e ast.Expr, en *env) (poly, bool)
	evalE = func(e ast.Expr, en *env) (poly, bool) {
		e = core.Unparen(e)
		// conversions
		if call, ok := e.(*ast.CallExpr); ok && len(call.Args) == 1 {
			if tv, ok := info.Types[call.Fun]; ok && tv.IsType() {
				return evalE(call.Args[0], en)
			}
		}
		if tv, ok := info.Types[e]; ok && tv.Value != nil {
			if v, exact := constant.Int64Val(constant.ToInt(tv.Value)); exact {
				return polyTrim(poly{"": int(v)}), true
			}
		}
		switch x := e.(type) {
		case *ast.Ident:
			if core.ObjOf(info, x) == marginObj {
				return poly{"m": 1}, true
			}
		case *ast.UnaryExpr:
			if x.Op == token.SUB {
				if a, ok := evalE(x.X, en); ok {
					return polyAdd(poly{}, a, -1), true
				}
			}
		case *ast.BinaryExpr:
			a, ok1 := evalE(x.X, en)
			b, ok2 := evalE(x.Y, en)
			if ok1 && ok2 {
				switch x.Op {
				case token.ADD:
					return polyAdd(a, b, 1), true
				case token.SUB:
					return polyAdd(a, b, -1), true
				case token.MUL:
					return polyMul(a, b), true
				}
			}
		case *ast.SelectorExpr:
			if x.Sel.Name != "Y" {
				return nil, false
			}
			// size.Y
			if id, ok := core.Unparen(x.X).(*ast.Ident); ok {
				if pl, ok := en.sizeY[core.ObjOf(info, id)]; ok {
					return pl, true
				}
			}
			// V.Bounds().Size().Y
			if call, ok := core.Unparen(x.X).(*ast.CallExpr); ok {
				if se, ok := call.Fun.(*ast.SelectorExpr); ok && se.Sel.Name == "Size" {
					if bc, ok := core.Unparen(se.X).(*ast.CallExpr); ok {
						if bs, ok := bc.Fun.(*ast.SelectorExpr); ok && bs.Sel.Name == "Bounds" {
							if id, ok := core.Unparen(bs.X).(*ast.Ident); ok {
								if pl, ok := en.height[core.ObjOf(info, id)]; ok {
									return pl, true
								}
							}
						}
					}
				}
			}
		}
		return nil, false
	}
	var originY []struct {
		pl   poly
		ok   bool
		copy bool
		pos  token.Pos
	}
	var run func(list []ast.Stmt, en *env, copied bool)
	run = func(list []ast.Stmt, en *env, copied bool) {
		for idx, st := range list {
			switch x := st.(type) {
			case *ast.AssignStmt:
				if len(x.Lhs) == 1 && len(x.Rhs) == 1 {
					lid, _ := x.Lhs[0].(*ast.Ident)
					rhs := core.Unparen(x.Rhs[0])
					if lid != nil {
						lo := core.ObjOf(info, lid)
						// size := V.Bounds().Size()
						if call, ok := rhs.(*ast.CallExpr); ok {
							if se, ok := call.Fun.(*ast.SelectorExpr); ok && se.Sel.Name == "Size" {
								if pl, ok := evalE(&ast.SelectorExpr{X: rhs, Sel: ast.NewIdent("Y")}, en); ok {
									en.sizeY[lo] = pl
								}
							}
							// img2 := image.NewRGBA(image.Rect(x0, y0, x1, y1))
							if f := core.CalleeOf(info, call); f != nil && strings.HasPrefix(f.Name(), "New") && len(call.Args) == 1 {
								if rc, ok := core.Unparen(call.Args[0]).(*ast.CallExpr); ok && len(rc.Args) == 4 {
									y0, ok1 := evalE(rc.Args[1], en)
									y1, ok2 := evalE(rc.Args[3], en)
									if ok1 && ok2 {
										en.height[lo] = polyAdd(y1, y0, -1)
									}
								}
							}
						}
						// img = img2
						if rid, ok := rhs.(*ast.Ident); ok {
							if pl, ok := en.height[core.ObjOf(info, rid)]; ok {
								en.height[lo] = pl
								if lo == img {
									copied = true
								}
							}
						}
					}
				}
				// origin := m.Dot(canvas.Point{X, Y})…
				ast.Inspect(x, func(k ast.Node) bool {
					call, ok := k.(*ast.CallExpr)
					if !ok || len(call.Args) != 1 {
						return true
					}
					if f := core.CalleeOf(info, call); f == nil || f.Name() != "Dot" {
						return true
					}
					if cl, ok := core.Unparen(call.Args[0]).(*ast.CompositeLit); ok && len(cl.Elts) == 2 {
						y := cl.Elts[1]
						if kv, ok := y.(*ast.KeyValueExpr); ok {
							y = kv.Value
						}
						pl, ok := evalE(y, en)
						originY = append(originY, struct {
							pl   poly
							ok   bool
							copy bool
							pos  token.Pos
						}{pl, ok, copied, call.Pos()})
					}
					return true
				})
			case *ast.IfStmt:
				// both ways: the block that may replace the image, and the rest without it
				cp := func() *env {
					o := &env{map[types.Object]poly{}, map[types.Object]poly{}}
					for k, v := range en.height {
						o.height[k] = v
					}
					for k, v := range en.sizeY {
						o.sizeY[k] = v
					}
					return o
				}
				replaces := false
				ast.Inspect(x.Body, func(k ast.Node) bool {
					if as, ok := k.(*ast.AssignStmt); ok {
						for _, l := range as.Lhs {
							if id, ok := l.(*ast.Ident); ok && core.ObjOf(info, id) == img {
								replaces = true
							}
						}
					}
					return true
				})
				if replaces {
					rest := list[idx+1:]
					run(append(append([]ast.Stmt{}, x.Body.List...), rest...), cp(), copied)
					run(rest, cp(), copied)
					return
				}
			}
		}
	}
	run(fd.Body.List, &env{map[types.Object]poly{img: {"H": 1}}, map[types.Object]poly{}}, false)
	if len(originY) == 0 {
		r.Fail("E11.image-replaced-extent", key, c.Pos(fd.Pos()), "the point handed to m.Dot for the origin was not found")
		return
	}
	bad := ""
	for _, o := range originY {
		if !o.ok {
			bad = "the y of the origin is not a polynomial in the image height and the margin"
			continue
		}
		got := o.pl
		want := poly{"H": 1, "m": 1}
		path := "the path that draws the copy with the margin"
		if !o.copy {
			// no copy: the margin is zero
			g := poly{}
			for k, v := range got {
				if !strings.Contains(k, "m") {
					g[k] = v
				}
			}
			got, want, path = polyTrim(g), poly{"H": 1}, "the path that draws the caller's image (margin 0)"
		}
		if !polyEqual(got, want) && bad == "" {
			bad = fmt.Sprintf("on %s the origin's y is %s, it has to be %s (the lower margin lies below the image): the image is placed %s source pixels off along its own vertical axis", path, got, want, polyAdd(want, got, -1))
		}
	}
	if bad == "" {
		r.OK("E11.image-replaced-extent", key, c.Pos(originY[0].pos), fmt.Sprintf("%d paths", len(originY)))
	} else {
		r.Fail("E11.image-replaced-extent", key, c.Pos(originY[0].pos), bad)
	}
}

// E11SplitPartition: the pieces whose lengths cubicBezierLength adds up tile the curve.
func E11SplitPartition(c *core.Ctx, r *core.Report) {
	r.Rule("E11.split-partition", "cubicBezierLength splits a cubic at its inflection points and sums the lengths of the pieces it collected. The function is interpreted path by path over its if/else structure with every quadruple of Point variables standing for an interval of the original parameter: the four parameters are [0,1]; `cubicBezierSplit(a, b, c, d, t)` of an interval [s,e] yields [s,k] and [k,e] for a fresh cut k; tuple assignments carry intervals along. On every path the quadruples appended to the list of pieces tile [0,1]: each starts where the previous one ended, none is counted twice and none is missing. A remainder that is not advanced after the second split is appended together with the middle piece it still contains, and Length() exceeds the true length by the stretch between the inflection points")
	p := c.MustPkg("")
	info := p.TypesInfo
	fd := core.MustFuncDecl(p, "cubicBezierLength")
	type piece struct {
		s, e string
		idx  int
	}
	type state map[types.Object]piece
	var params []types.Object
	for _, f := range fd.Type.Params.List {
		for _, nm := range f.Names {
			if o := info.Defs[nm]; isNamed(o.Type(), "tdewolff/canvas", "Point") {
				params = append(params, o)
			}
		}
	}
	if len(params) != 4 {
		panic(core.Infra("cubicBezierLength: expected four Point parameters"))
	}
	cuts := 0
	quad := func(es []ast.Expr, st state) (piece, bool) {
		if len(es) != 4 {
			return piece{}, false
		}
		var first piece
		for i, e := range es {
			id, ok := core.Unparen(e).(*ast.Ident)
			if !ok {
				return piece{}, false
			}
			pc, ok := st[core.ObjOf(info, id)]
			if !ok || pc.idx != i {
				return piece{}, false
			}
			if i == 0 {
				first = pc
			} else if pc.s != first.s || pc.e != first.e {
				return piece{}, false
			}
		}
		return first, true
	}
	type result struct {
		pieces []piece
		bad    string
		conds  []string
	}
	var results []result
	var run func(list []ast.Stmt, st state, acc []piece, conds []string, bad string)
	cp := func(st state) state {
		o := state{}
		for k, v := range st {
			o[k] = v
		}
		return o
	}
	run = func(list []ast.Stmt, st state, acc []piece, conds []string, bad string) {
		for idx, s := range list {
			switch x := s.(type) {
			case *ast.AssignStmt:
				// split
				if len(x.Rhs) == 1 {
					if call, ok := core.Unparen(x.Rhs[0]).(*ast.CallExpr); ok {
						if f := core.CalleeOf(info, call); f != nil && f.Name() == "cubicBezierSplit" && len(call.Args) == 5 && len(x.Lhs) == 8 {
							src, ok := quad(call.Args[:4], st)
							if !ok {
								bad = "`" + c.Src(call) + "` is not applied to the four control points of one piece"
								continue
							}
							cuts++
							k := fmt.Sprintf("k%d", cuts)
							for i, l := range x.Lhs {
								if id, ok := l.(*ast.Ident); ok && id.Name != "_" {
									o := core.ObjOf(info, id)
									if i < 4 {
										st[o] = piece{src.s, k, i}
									} else {
										st[o] = piece{k, src.e, i - 4}
									}
								}
							}
							continue
						}
						// pieces = append(pieces, [4]Point{a, b, c, d})
						if id, ok := call.Fun.(*ast.Ident); ok && id.Name == "append" && len(call.Args) == 2 {
							if cl, ok := core.Unparen(call.Args[1]).(*ast.CompositeLit); ok {
								pc, ok := quad(cl.Elts, st)
								if !ok {
									bad = "`" + c.Src(cl) + "` is not the four control points of one piece"
								} else {
									acc = append(append([]piece{}, acc...), pc)
								}
								continue
							}
						}
					}
				}
				// tuple copy
				if len(x.Lhs) == len(x.Rhs) {
					vals := make([]*piece, len(x.Rhs))
					for i, rhs := range x.Rhs {
						if id, ok := core.Unparen(rhs).(*ast.Ident); ok {
							if pc, ok := st[core.ObjOf(info, id)]; ok {
								v := pc
								vals[i] = &v
							}
						}
					}
					for i, l := range x.Lhs {
						if id, ok := l.(*ast.Ident); ok && vals[i] != nil {
							st[core.ObjOf(info, id)] = *vals[i]
						}
					}
				}
			case *ast.IfStmt:
				rest := list[idx+1:]
				run(append(append([]ast.Stmt{}, x.Body.List...), rest...), cp(st), acc, append(append([]string{}, conds...), c.Src(x.Cond)), bad)
				switch e := x.Else.(type) {
				case *ast.BlockStmt:
					run(append(append([]ast.Stmt{}, e.List...), rest...), cp(st), acc, append(append([]string{}, conds...), "!("+c.Src(x.Cond)+")"), bad)
				case *ast.IfStmt:
					run(append([]ast.Stmt{e}, rest...), cp(st), acc, append(append([]string{}, conds...), "!("+c.Src(x.Cond)+")"), bad)
				default:
					run(rest, cp(st), acc, append(append([]string{}, conds...), "!("+c.Src(x.Cond)+")"), bad)
				}
				return
			case *ast.RangeStmt, *ast.ForStmt, *ast.ReturnStmt:
				// the collection phase is over
				results = append(results, result{acc, bad, conds})
				return
			}
		}
		results = append(results, result{acc, bad, conds})
	}
	init := state{}
	for i, o := range params {
		init[o] = piece{"0", "1", i}
	}
	run(fd.Body.List, init, nil, nil, "")
	n := 0
	for _, res := range results {
		n++
		key := fmt.Sprintf("canvas.cubicBezierLength|path %d of %d", n, len(results))
		bad := res.bad
		if bad == "" {
			// tile [0,1]
			at := "0"
			used := make([]bool, len(res.pieces))
			for {
				next := -1
				for i, pc := range res.pieces {
					if !used[i] && pc.s == at {
						if next >= 0 {
							bad = fmt.Sprintf("two collected pieces start at %s: the stretch from there is counted twice", at)
						}
						next = i
					}
				}
				if next < 0 || bad != "" {
					break
				}
				used[next] = true
				at = res.pieces[next].e
			}
			if bad == "" {
				if at != "1" {
					bad = fmt.Sprintf("the collected pieces end at %s, not at the end of the curve", at)
				}
				for i, u := range used {
					if !u && bad == "" {
						bad = fmt.Sprintf("the piece [%s,%s] overlaps the others", res.pieces[i].s, res.pieces[i].e)
					}
				}
			}
		}
		if bad == "" {
			r.OK("E11.split-partition", key, c.Pos(fd.Pos()), strings.Join(res.conds, "; "))
		} else {
			r.Fail("E11.split-partition", key, c.Pos(fd.Pos()), fmt.Sprintf("on the path [%s] %s: Length() is not the sum over a partition of the curve", strings.Join(res.conds, "; "), bad))
		}
	}
	r.Count("E11.split-partition-paths", n)
	r.Floor("E11.split-partition-paths", 2)
}

// E11StaleAfterBuilder: what Join reads from the receiver before it replays a command is not used afterwards.
func E11StaleAfterBuilder(c *core.Ctx, r *core.Report) {
	r.Rule("E11.stale-after-builder", "Path.Join replays the first command of its argument through the builder methods (MoveTo, LineTo, QuadTo, CubeTo, ArcTo, Close), which change the receiver — a replayed MoveTo starts a new sub-path. A local read from the receiver by a niladic method (StartPos(), Pos(), …) before that replay describes the receiver as it was; it is not read after the replay. Path.replace hands Join a rest that begins with a MoveTo, so a start position taken too early is that of the previous sub-path, and a Close further on is repaired to return there")
	p := c.MustPkg("")
	info := p.TypesInfo
	fd := core.MustFuncDecl(p, "Path.Join")
	recv := info.Defs[fd.Recv.List[0].Names[0]]
	builders := map[string]bool{"MoveTo": true, "LineTo": true, "QuadTo": true, "CubeTo": true, "ArcTo": true, "Close": true}
	var firstBuilder, lastBuilder token.Pos
	ast.Inspect(fd.Body, func(m ast.Node) bool {
		call, ok := m.(*ast.CallExpr)
		if !ok {
			return true
		}
		se, ok := call.Fun.(*ast.SelectorExpr)
		if !ok || !builders[se.Sel.Name] {
			return true
		}
		if id, ok := core.Unparen(se.X).(*ast.Ident); ok && core.ObjOf(info, id) == recv {
			if firstBuilder == 0 || call.Pos() < firstBuilder {
				firstBuilder = call.Pos()
			}
			if call.End() > lastBuilder {
				lastBuilder = call.End()
			}
		}
		return true
	})
	key := "canvas.Path.Join|nothing read from the receiver before the replay is used after it"
	r.Count("E11.stale-after-builder", 1)
	if firstBuilder == 0 {
		r.Fail("E11.stale-after-builder", key, c.Pos(fd.Pos()), "the replay of the argument's first command through the builder methods was not found")
		return
	}
	early := map[types.Object]ast.Expr{}
	ast.Inspect(fd.Body, func(m ast.Node) bool {
		as, ok := m.(*ast.AssignStmt)
		if !ok || as.Pos() >= firstBuilder || len(as.Lhs) != len(as.Rhs) {
			return true
		}
		for i, l := range as.Lhs {
			id, ok := l.(*ast.Ident)
			if !ok {
				continue
			}
			call, ok := core.Unparen(as.Rhs[i]).(*ast.CallExpr)
			if !ok || len(call.Args) != 0 {
				continue
			}
			if se, ok := call.Fun.(*ast.SelectorExpr); ok {
				if rid, ok := core.Unparen(se.X).(*ast.Ident); ok && core.ObjOf(info, rid) == recv {
					early[core.ObjOf(info, id)] = as.Rhs[i]
				}
			}
		}
		return true
	})
	bad := ""
	ast.Inspect(fd.Body, func(m ast.Node) bool {
		id, ok := m.(*ast.Ident)
		if !ok || id.Pos() <= lastBuilder {
			return true
		}
		if def, ok := early[core.ObjOf(info, id)]; ok && bad == "" {
			bad = fmt.Sprintf("`%s` (= `%s`, read before the first command of the argument is replayed) is used at %s, after the replay: when that command is a MoveTo the receiver has a new sub-path by then and the value belongs to the previous one", id.Name, c.Src(def), c.Pos(id.Pos()))
		}
		return true
	})
	if bad == "" {
		r.OK("E11.stale-after-builder", key, c.Pos(fd.Pos()), "")
	} else {
		r.Fail("E11.stale-after-builder", key, c.Pos(fd.Pos()), bad)
	}
}

// E11QuadLineTestMirror: QuadTo's "this is a straight line" test looks the same from both ends.
func E11QuadLineTestMirror(c *core.Ctx, r *core.Report) {
	r.Rule("E11.quad-line-test-mirror", "Path.QuadTo stores a line instead of a curve when the control point lies on the segment between start and end. A quadratic traced backwards is the same curve, so the condition is its own mirror image: with start and end exchanged (and every pair of vectors in an AngleBetween negated together, which leaves the angle as it is) the set of its conjuncts — each a set of alternatives: an equality of two points, or two vectors pointing the same way — is the same set. A condition that tests the control point from the start only also accepts a control point beyond the end: `QuadTo(20,0, 10,0)` from the origin overshoots to x = 13.3 and comes back, and would be stored as `L10 0`")
	p := c.MustPkg("")
	info := p.TypesInfo
	fd := core.MustFuncDecl(p, "Path.QuadTo")
	defs := singleDefs(info, fd.Body)
	// the if statement whose body draws a line instead
	var target *ast.IfStmt
	ast.Inspect(fd.Body, func(m ast.Node) bool {
		is, ok := m.(*ast.IfStmt)
		if !ok {
			return true
		}
		for _, st := range is.Body.List {
			if es, ok := st.(*ast.ExprStmt); ok {
				if call, ok := es.X.(*ast.CallExpr); ok {
					if f := core.CalleeOf(info, call); f != nil && f.Name() == "LineTo" {
						target = is
					}
				}
			}
		}
		return true
	})
	key := "canvas.Path.QuadTo|the straight-line test is its own mirror image"
	r.Count("E11.quad-line-test-mirror", 1)
	if target == nil {
		r.Fail("E11.quad-line-test-mirror", key, c.Pos(fd.Pos()), "the branch that stores a line instead of the curve was not found")
		return
	}
	// point names: locals/params, resolved through single definitions of vectors
	var vec func(e ast.Expr, depth int) (string, string, bool) // to, from
	vec = func(e ast.Expr, depth int) (string, string, bool) {
		e = core.Unparen(e)
		if depth > 3 {
			return "", "", false
		}
		if id, ok := e.(*ast.Ident); ok {
			if d, ok := defs[core.ObjOf(info, id)]; ok {
				return vec(d, depth+1)
			}
			return "", "", false
		}
		call, ok := e.(*ast.CallExpr)
		if !ok || len(call.Args) != 1 {
			return "", "", false
		}
		se, ok := call.Fun.(*ast.SelectorExpr)
		if !ok || se.Sel.Name != "Sub" {
			return "", "", false
		}
		a, ok1 := core.Unparen(se.X).(*ast.Ident)
		b, ok2 := core.Unparen(call.Args[0]).(*ast.Ident)
		if !ok1 || !ok2 {
			return "", "", false
		}
		return a.Name, b.Name, true
	}
	bad := ""
	atom := func(e ast.Expr, swap func(string) string) string {
		e = core.Unparen(e)
		neg := ""
		if u, ok := e.(*ast.UnaryExpr); ok && u.Op == token.NOT {
			neg, e = "!", core.Unparen(u.X)
		}
		call, ok := e.(*ast.CallExpr)
		if !ok {
			bad = "`" + c.Src(e) + "` is neither an equality of points nor a comparison of directions"
			return ""
		}
		if se, ok := call.Fun.(*ast.SelectorExpr); ok && se.Sel.Name == "Equals" && len(call.Args) == 1 {
			a, ok1 := core.Unparen(se.X).(*ast.Ident)
			b, ok2 := core.Unparen(call.Args[0]).(*ast.Ident)
			if ok1 && ok2 {
				n := []string{swap(a.Name), swap(b.Name)}
				sort.Strings(n)
				return neg + "eq{" + n[0] + "," + n[1] + "}"
			}
		}
		// angleEqual(V1.AngleBetween(V2), 0)
		if f := core.CalleeOf(info, call); f != nil && f.Name() == "angleEqual" && len(call.Args) == 2 {
			if v := core.ConstVal(info, call.Args[1]); v != nil && numSign(v) == 0 {
				if ab, ok := core.Unparen(call.Args[0]).(*ast.CallExpr); ok && len(ab.Args) == 1 {
					if se, ok := ab.Fun.(*ast.SelectorExpr); ok && se.Sel.Name == "AngleBetween" {
						t1, f1, ok1 := vec(se.X, 0)
						t2, f2, ok2 := vec(ab.Args[0], 0)
						if ok1 && ok2 {
							t1, f1, t2, f2 = swap(t1), swap(f1), swap(t2), swap(f2)
							a := fmt.Sprintf("same-dir(%s-%s,%s-%s)", t1, f1, t2, f2)
							b := fmt.Sprintf("same-dir(%s-%s,%s-%s)", f1, t1, f2, t2)
							// the angle between two vectors is that between their negatives; the order of the two does not matter for "same direction"
							a2 := fmt.Sprintf("same-dir(%s-%s,%s-%s)", t2, f2, t1, f1)
							b2 := fmt.Sprintf("same-dir(%s-%s,%s-%s)", f2, t2, f1, t1)
							all := []string{a, b, a2, b2}
							sort.Strings(all)
							return neg + all[0]
						}
					}
				}
			}
		}
		bad = "`" + c.Src(e) + "` is neither an equality of points nor a comparison of directions"
		return ""
	}
	var conj func(e ast.Expr, out *[]ast.Expr)
	conj = func(e ast.Expr, out *[]ast.Expr) {
		e = core.Unparen(e)
		if be, ok := e.(*ast.BinaryExpr); ok && be.Op == token.LAND {
			conj(be.X, out)
			conj(be.Y, out)
			return
		}
		*out = append(*out, e)
	}
	var disj func(e ast.Expr, out *[]ast.Expr)
	disj = func(e ast.Expr, out *[]ast.Expr) {
		e = core.Unparen(e)
		if be, ok := e.(*ast.BinaryExpr); ok && be.Op == token.LOR {
			disj(be.X, out)
			disj(be.Y, out)
			return
		}
		*out = append(*out, e)
	}
	// the two end points: the Point locals built from the receiver's position and from the last two parameters
	startName, endName := "start", "end"
	{
		var names []string
		ast.Inspect(target.Cond, func(k ast.Node) bool {
			if id, ok := k.(*ast.Ident); ok {
				if o := core.ObjOf(info, id); o != nil && isNamed(o.Type(), "tdewolff/canvas", "Point") {
					names = append(names, id.Name)
				}
			}
			return true
		})
		has := func(n string) bool {
			for _, x := range names {
				if x == n {
					return true
				}
			}
			return false
		}
		if !has(startName) || !has(endName) {
			r.Fail("E11.quad-line-test-mirror", key, c.Pos(target.Pos()), "the condition does not name the start and end points (`start`, `end`)")
			return
		}
	}
	form := func(swap func(string) string) []string {
		var cs []ast.Expr
		conj(target.Cond, &cs)
		var out []string
		for _, cj := range cs {
			var ds []ast.Expr
			disj(cj, &ds)
			var atoms []string
			for _, d := range ds {
				atoms = append(atoms, atom(d, swap))
			}
			sort.Strings(atoms)
			out = append(out, strings.Join(atoms, " | "))
		}
		sort.Strings(out)
		return out
	}
	id := func(s string) string { return s }
	sw := func(s string) string {
		switch s {
		case startName:
			return endName
		case endName:
			return startName
		}
		return s
	}
	a, b := form(id), form(sw)
	switch {
	case bad != "":
		r.Fail("E11.quad-line-test-mirror", key, c.Pos(target.Pos()), bad)
	case strings.Join(a, " & ") != strings.Join(b, " & "):
		r.Fail("E11.quad-line-test-mirror", key, c.Pos(target.Pos()), fmt.Sprintf("the condition is [%s]; seen from the other end it reads [%s]: the control point is not tested against both end points, so one beyond an end — a curve that overshoots and comes back — is stored as a straight line", strings.Join(a, " & "), strings.Join(b, " & ")))
	default:
		r.OK("E11.quad-line-test-mirror", key, c.Pos(target.Pos()), strings.Join(a, " & "))
	}
}

// E11SVGAttributeIndependence: a presentation attribute sets its own property and no other.
func E11SVGAttributeIndependence(c *core.Ctx, r *core.Report) {
	r.Rule("E11.svg-attribute-independence", "SVG presentation attributes are independent properties, each inherited and overridden on its own. In svgParser.setAttribute the style fields a case writes — directly (`svg.ctx.Style.F = …`) or through a Context setter, whose written fields are read off its body — are disjoint from those of every other case. `stroke-dasharray` handled with `SetDashes(0, …)` also writes the dash offset: an offset set before the array (another attribute order, a parent group, a presentation attribute under a style rule) is lost and the dashes start at phase 0")
	p := c.MustPkg("")
	info := p.TypesInfo
	fd := core.MustFuncDecl(p, "svgParser.setAttribute")
	// fields of Style (or ContextState) written by a Context method
	setterFields := map[*types.Func]map[string]bool{}
	for _, d := range core.AllFuncDecls(p) {
		if d.Recv == nil || d.Body == nil || core.RecvName(d) != "Context" {
			continue
		}
		f, _ := info.Defs[d.Name].(*types.Func)
		if f == nil {
			continue
		}
		fields := map[string]bool{}
		ast.Inspect(d.Body, func(m ast.Node) bool {
			if as, ok := m.(*ast.AssignStmt); ok {
				for _, l := range as.Lhs {
					if se, ok := core.Unparen(l).(*ast.SelectorExpr); ok {
						if s := info.Selections[se]; s != nil && s.Kind() == types.FieldVal {
							fields[se.Sel.Name] = true
						}
					}
				}
			}
			return true
		})
		setterFields[f] = fields
	}
	type caseInfo struct {
		name   string
		fields map[string]bool
		pos    token.Pos
	}
	var cases []caseInfo
	ast.Inspect(fd.Body, func(m ast.Node) bool {
		cc, ok := m.(*ast.CaseClause)
		if !ok || len(cc.List) == 0 {
			return true
		}
		name, ok := constString(info, cc.List[0])
		if !ok {
			return true
		}
		fields := map[string]bool{}
		for _, st := range cc.Body {
			ast.Inspect(st, func(k ast.Node) bool {
				switch x := k.(type) {
				case *ast.AssignStmt:
					for _, l := range x.Lhs {
						if se, ok := core.Unparen(l).(*ast.SelectorExpr); ok {
							if s := info.Selections[se]; s != nil && s.Kind() == types.FieldVal {
								if _, isStyle := core.Unparen(se.X).(*ast.SelectorExpr); isStyle {
									fields[se.Sel.Name] = true
								}
							}
						}
					}
				case *ast.CallExpr:
					if f := core.CalleeOf(info, x); f != nil {
						for fld := range setterFields[f] {
							fields[fld] = true
						}
					}
				}
				return true
			})
		}
		cases = append(cases, caseInfo{name, fields, cc.Pos()})
		return false
	})
	n := 0
	for i := range cases {
		n++
		key := "canvas.svgParser.setAttribute|" + cases[i].name + " writes its own property only"
		bad := ""
		for j := range cases {
			if i == j {
				continue
			}
			for f := range cases[i].fields {
				if f == "StrokeJoiner" {
					// reviewed: stroke-linejoin and stroke-miterlimit meet in one field by design (the miter joiner
					// carries its limit); how each preserves the other's part is decided by E11.svg-miterlimit-carried
					continue
				}
				if cases[j].fields[f] && bad == "" {
					bad = fmt.Sprintf("the case \"%s\" also writes %s, the property of \"%s\": whichever of the two is handled last wins, although SVG sets and inherits them independently", cases[i].name, f, cases[j].name)
				}
			}
		}
		if bad == "" {
			var fs []string
			for f := range cases[i].fields {
				fs = append(fs, f)
			}
			sort.Strings(fs)
			r.OK("E11.svg-attribute-independence", key, c.Pos(cases[i].pos), strings.Join(fs, ","))
		} else {
			r.Fail("E11.svg-attribute-independence", key, c.Pos(cases[i].pos), bad)
		}
	}
	r.Count("E11.svg-attribute-cases", n)
	r.Floor("E11.svg-attribute-cases", 10)
}

// E11SVGDashUnits: the importer hands the renderers dashes in the unit they expect.
func E11SVGDashUnits(c *core.Ctx, r *core.Report) {
	r.Rule("E11.svg-dash-units", "Style.Dashes and Style.DashOffset count in stroke widths: the back-ends multiply them by the stroke width (ScaleDash(style.StrokeWidth, …)) and the SVG writer emits the products, which is what SVG means by stroke-dasharray. The importer therefore divides: every function of svg.go that draws a shape (calls Context.DrawPath) first passes the style's dash offset and array through ScaleDash with a scale that is the reciprocal of the stroke width (`1.0/w` with w read from Style.StrokeWidth). Without it an imported `stroke-width=\"4\" stroke-dasharray=\"10 10\"` is drawn with dashes of 40, and the library's own SVG output does not read back to an equivalent drawing")
	p := c.MustPkg("")
	info := p.TypesInfo
	n := 0
	for _, fd := range core.AllFuncDecls(p) {
		if fd.Body == nil || filepath.Base(c.Fset.Position(fd.Pos()).Filename) != "svg.go" {
			continue
		}
		var firstDraw token.Pos
		ast.Inspect(fd.Body, func(m ast.Node) bool {
			if call, ok := m.(*ast.CallExpr); ok {
				if f := core.CalleeOf(info, call); f != nil && f.Name() == "DrawPath" && core.QualifiedCallee(f) == core.Module+".Context.DrawPath" {
					if firstDraw == 0 || call.Pos() < firstDraw {
						firstDraw = call.Pos()
					}
				}
			}
			return true
		})
		if firstDraw == 0 {
			continue
		}
		n++
		key := fmt.Sprintf("canvas.%s|dashes divided by the stroke width before a shape is drawn", core.FuncName(fd))
		// width locals: assigned from a selector …StrokeWidth
		widths := map[types.Object]bool{}
		ast.Inspect(fd.Body, func(m ast.Node) bool {
			as, ok := m.(*ast.AssignStmt)
			if !ok || len(as.Lhs) != len(as.Rhs) {
				return true
			}
			for i, rhs := range as.Rhs {
				if se, ok := core.Unparen(rhs).(*ast.SelectorExpr); ok && se.Sel.Name == "StrokeWidth" {
					if id, ok := as.Lhs[i].(*ast.Ident); ok {
						widths[core.ObjOf(info, id)] = true
					}
				}
			}
			return true
		})
		isWidth := func(e ast.Expr) bool {
			e = core.Unparen(e)
			if se, ok := e.(*ast.SelectorExpr); ok && se.Sel.Name == "StrokeWidth" {
				return true
			}
			if id, ok := e.(*ast.Ident); ok && widths[core.ObjOf(info, id)] {
				return true
			}
			return false
		}
		good := false
		ast.Inspect(fd.Body, func(m ast.Node) bool {
			as, ok := m.(*ast.AssignStmt)
			if !ok || as.Pos() >= firstDraw || len(as.Rhs) != 1 || len(as.Lhs) != 2 {
				return true
			}
			call, ok := core.Unparen(as.Rhs[0]).(*ast.CallExpr)
			if !ok || len(call.Args) != 3 {
				return true
			}
			if f := core.CalleeOf(info, call); f == nil || f.Name() != "ScaleDash" {
				return true
			}
			q, ok := core.Unparen(call.Args[0]).(*ast.BinaryExpr)
			if !ok || q.Op != token.QUO || !isWidth(q.Y) {
				return true
			}
			if v := core.ConstVal(info, q.X); v == nil {
				return true
			} else if f, _ := constant.Float64Val(constant.ToFloat(v)); f != 1.0 {
				return true
			}
			l0, ok0 := core.Unparen(as.Lhs[0]).(*ast.SelectorExpr)
			l1, ok1 := core.Unparen(as.Lhs[1]).(*ast.SelectorExpr)
			if ok0 && ok1 && l0.Sel.Name == "DashOffset" && l1.Sel.Name == "Dashes" {
				good = true
			}
			return true
		})
		if good {
			r.OK("E11.svg-dash-units", key, c.Pos(firstDraw), "")
		} else {
			r.Fail("E11.svg-dash-units", key, c.Pos(firstDraw), "a shape is drawn with the style's dash array as the document gave it (user units): the renderers multiply it by the stroke width once more")
		}
	}
	r.Count("E11.svg-dash-units", n)
	r.Floor("E11.svg-dash-units", 1)
}

// E11DashCheckUnits: DrawPath compares dashes with the path's length in one unit.
func E11DashCheckUnits(c *core.Ctx, r *core.Report) {
	r.Rule("E11.dash-check-units", "Style.Dashes and Style.DashOffset count in stroke widths; the path's length is in millimetres. Context.DrawPath asks checkDash whether the first dash or space covers the whole path, so the offset and array it hands to checkDash are results of ScaleDash with the style's stroke width (or locals assigned from such a call), not the style's own fields. With the unscaled numbers a stroke of width 0.5 with dashes of 50 (25 mm) on a 30 mm line is recorded as solid")
	p := c.MustPkg("")
	info := p.TypesInfo
	fd := core.MustFuncDecl(p, "Context.DrawPath")
	scaled := map[types.Object]bool{}
	ast.Inspect(fd.Body, func(m ast.Node) bool {
		as, ok := m.(*ast.AssignStmt)
		if !ok || len(as.Rhs) != 1 {
			return true
		}
		call, ok := core.Unparen(as.Rhs[0]).(*ast.CallExpr)
		if !ok || len(call.Args) != 3 {
			return true
		}
		if f := core.CalleeOf(info, call); f == nil || f.Name() != "ScaleDash" {
			return true
		}
		if se, ok := core.Unparen(call.Args[0]).(*ast.SelectorExpr); !ok || se.Sel.Name != "StrokeWidth" {
			return true
		}
		for _, l := range as.Lhs {
			if id, ok := l.(*ast.Ident); ok {
				scaled[core.ObjOf(info, id)] = true
			}
		}
		return true
	})
	n := 0
	ast.Inspect(fd.Body, func(m ast.Node) bool {
		call, ok := m.(*ast.CallExpr)
		if !ok || len(call.Args) != 2 {
			return true
		}
		if f := core.CalleeOf(info, call); f == nil || f.Name() != "checkDash" {
			return true
		}
		n++
		key := fmt.Sprintf("canvas.Context.DrawPath|checkDash call #%d gets dashes scaled by the stroke width", n)
		bad := ""
		for _, a := range call.Args {
			id, ok := core.Unparen(a).(*ast.Ident)
			if !ok || !scaled[core.ObjOf(info, id)] {
				bad = c.Src(a)
			}
		}
		if bad == "" {
			r.OK("E11.dash-check-units", key, c.Pos(call.Pos()), "")
		} else {
			r.Fail("E11.dash-check-units", key, c.Pos(call.Pos()), fmt.Sprintf("`%s` is handed to checkDash as it is in the style, in stroke widths, and compared there with the path's length in millimetres", bad))
		}
		return true
	})
	r.Count("E11.dash-check-calls", n)
	r.Floor("E11.dash-check-calls", 1)
}

// E11OffsetVerticesUseOffset: every vertex of an offset curve is displaced by the offset.
func E11OffsetVerticesUseOffset(c *core.Ctx, r *core.Report) {
	r.Rule("E11.offset-vertices-use-offset", "strokeCubicBezier, flattenSmoothCubicBezier and addCubicBezierLine build the curve parallel to a cubic at distance d (Stroke and Offset use them for both sides; Flatten passes d = 0). Every vertex they emit is a point of the curve displaced along the normal by d: each MoveTo/LineTo in them takes the X and Y of a local whose definition involves the parameter d (through cubicBezierNormal(…, d) or sums with it), and each call among them passes d on (the branch for a curve whose first three control points coincide is not held to this: CubeTo never stores such a curve). A vertex taken straight from the curve (`p.LineTo(q0.X, q0.Y)` with q0 from a split) is right for d = 0 only: both sides of a stroke are pulled onto the centre line there and the stroke is pinched to zero width")
	p := c.MustPkg("")
	info := p.TypesInfo
	n := 0
	family := map[string]bool{"strokeCubicBezier": true, "flattenSmoothCubicBezier": true, "addCubicBezierLine": true}
	for name := range family {
		fd := core.MustFuncDecl(p, name)
		// the offset parameter: the float64 parameter named in the family's calls; identified as the parameter
		// passed as the last float argument to cubicBezierNormal inside the function
		var dObj types.Object
		ast.Inspect(fd.Body, func(m ast.Node) bool {
			call, ok := m.(*ast.CallExpr)
			if !ok {
				return true
			}
			if f := core.CalleeOf(info, call); f != nil && f.Name() == "cubicBezierNormal" && len(call.Args) >= 1 {
				if id, ok := core.Unparen(call.Args[len(call.Args)-1]).(*ast.Ident); ok {
					if v, ok := core.ObjOf(info, id).(*types.Var); ok && dObj == nil {
						for _, fl := range fd.Type.Params.List {
							for _, nm := range fl.Names {
								if info.Defs[nm] == types.Object(v) {
									dObj = v
								}
							}
						}
					}
				}
			}
			return true
		})
		if dObj == nil {
			// a function that only forwards: take the parameter it passes on as the last argument to a family member
			ast.Inspect(fd.Body, func(m ast.Node) bool {
				call, ok := m.(*ast.CallExpr)
				if !ok {
					return true
				}
				if f := core.CalleeOf(info, call); f != nil && family[f.Name()] && len(call.Args) >= 2 {
					for _, a := range call.Args[len(call.Args)-2:] {
						if id, ok := core.Unparen(a).(*ast.Ident); ok && dObj == nil {
							for _, fl := range fd.Type.Params.List {
								for _, nm := range fl.Names {
									if info.Defs[nm] == core.ObjOf(info, id) && nm.Name != "tolerance" {
										dObj = info.Defs[nm]
									}
								}
							}
						}
					}
				}
				return true
			})
		}
		if dObj == nil {
			r.Fail("E11.offset-vertices-use-offset", "canvas."+name+"|offset parameter", c.Pos(fd.Pos()), "the offset parameter (handed to cubicBezierNormal or passed on) was not found")
			continue
		}
		// locals that depend on d
		dep := map[types.Object]bool{dObj: true}
		for changed := true; changed; {
			changed = false
			ast.Inspect(fd.Body, func(m ast.Node) bool {
				as, ok := m.(*ast.AssignStmt)
				if !ok || len(as.Lhs) != len(as.Rhs) {
					return true
				}
				for i, l := range as.Lhs {
					id, ok := l.(*ast.Ident)
					if !ok {
						continue
					}
					o := core.ObjOf(info, id)
					if o == nil || dep[o] {
						continue
					}
					uses := false
					ast.Inspect(as.Rhs[i], func(k ast.Node) bool {
						if kid, ok := k.(*ast.Ident); ok && dep[core.ObjOf(info, kid)] {
							uses = true
						}
						return true
					})
					if uses {
						dep[o] = true
						changed = true
					}
				}
				return true
			})
		}
		k := 0
		var stack []ast.Node
		ast.Inspect(fd.Body, func(m ast.Node) bool {
			if m == nil {
				stack = stack[:len(stack)-1]
				return true
			}
			stack = append(stack, m)
			call, ok := m.(*ast.CallExpr)
			if !ok {
				return true
			}
			f := core.CalleeOf(info, call)
			if f == nil {
				return true
			}
			switch {
			case f.Name() == "LineTo" || f.Name() == "MoveTo":
				if len(call.Args) != 2 {
					return true
				}
				// not held to the rule: the branch for a curve whose first three control points coincide (a
				// straight line that CubeTo never stores; reached only through degenerate splits)
				degenerate := false
				for _, anc := range stack {
					if is, ok := anc.(*ast.IfStmt); ok {
						if cc, ok := core.Unparen(is.Cond).(*ast.CallExpr); ok {
							if se, ok := cc.Fun.(*ast.SelectorExpr); ok && se.Sel.Name == "Equals" {
								degenerate = true
							}
						}
					}
				}
				if degenerate {
					return true
				}
				n++
				k++
				key := fmt.Sprintf("canvas.%s|vertex #%d is displaced by the offset", name, k)
				good := true
				for _, a := range call.Args {
					uses := false
					ast.Inspect(a, func(q ast.Node) bool {
						if id, ok := q.(*ast.Ident); ok && dep[core.ObjOf(info, id)] {
							uses = true
						}
						return true
					})
					if !uses {
						good = false
					}
				}
				if good {
					r.OK("E11.offset-vertices-use-offset", key, c.Pos(call.Pos()), "")
				} else {
					r.Fail("E11.offset-vertices-use-offset", key, c.Pos(call.Pos()), fmt.Sprintf("`%s` emits a point that does not depend on the offset `%s`: a point of the curve itself, right for Flatten (offset 0) only; both sides of a stroke meet on the centre line there", c.Src(call), dObj.Name()))
				}
			case family[f.Name()]:
				n++
				k++
				key := fmt.Sprintf("canvas.%s|call #%d of %s passes the offset on", name, k, f.Name())
				passes := false
				for _, a := range call.Args {
					if id, ok := core.Unparen(a).(*ast.Ident); ok && core.ObjOf(info, id) == dObj {
						passes = true
					}
				}
				if passes {
					r.OK("E11.offset-vertices-use-offset", key, c.Pos(call.Pos()), "")
				} else {
					r.Fail("E11.offset-vertices-use-offset", key, c.Pos(call.Pos()), fmt.Sprintf("`%s` does not pass the offset `%s` on", c.Src(call), dObj.Name()))
				}
			}
			return true
		})
	}
	r.Count("E11.offset-vertices", n)
	r.Floor("E11.offset-vertices", 6)
}

// E11SVGStyleElement: the style element is read for what it contains.
func E11SVGStyleElement(c *core.Ctx, r *core.Report) {
	r.Rule("E11.svg-style-element", "ParseSVG handles `<style>` by reading the tokens that follow its start tag. The branch reads them only when the start tag was not self-closing (a test of the token type that closed the tag against StartTagCloseVoidToken encloses the read), and it reports a malformed element only when what it finds in the end is not the end tag (the error is returned under a test against EndTagToken) — an element without text is valid. Otherwise `<style></style>` is rejected, and after `<style/>` the white space is parsed as a style sheet and the next element swallowed as the end tag")
	p := c.MustPkg("")
	info := p.TypesInfo
	fd := core.MustFuncDecl(p, "ParseSVG")
	var branch *ast.IfStmt
	ast.Inspect(fd.Body, func(m ast.Node) bool {
		is, ok := m.(*ast.IfStmt)
		if !ok {
			return true
		}
		if be, ok := core.Unparen(is.Cond).(*ast.BinaryExpr); ok && be.Op == token.EQL {
			if s, ok := constString(info, be.Y); ok && s == "style" {
				branch = is
			} else if s, ok := constString(info, be.X); ok && s == "style" {
				branch = is
			}
		}
		return true
	})
	key := "canvas.ParseSVG|style element"
	r.Count("E11.svg-style-element", 1)
	if branch == nil {
		r.Fail("E11.svg-style-element", key, c.Pos(fd.Pos()), "the branch that handles the style element was not found")
		return
	}
	mentions := func(nd ast.Node, name string) bool {
		hit := false
		ast.Inspect(nd, func(k ast.Node) bool {
			if se, ok := k.(*ast.SelectorExpr); ok && se.Sel.Name == name {
				hit = true
			}
			return true
		})
		return hit
	}
	voidGuarded, endChecked := false, false
	var stack []ast.Node
	ast.Inspect(branch.Body, func(m ast.Node) bool {
		if m == nil {
			stack = stack[:len(stack)-1]
			return true
		}
		stack = append(stack, m)
		switch x := m.(type) {
		case *ast.CallExpr:
			if se, ok := x.Fun.(*ast.SelectorExpr); ok && se.Sel.Name == "Next" {
				for _, anc := range stack {
					if is, ok := anc.(*ast.IfStmt); ok && mentions(is.Cond, "StartTagCloseVoidToken") {
						voidGuarded = true
					}
				}
			}
		case *ast.ReturnStmt:
			for _, anc := range stack {
				if is, ok := anc.(*ast.IfStmt); ok && mentions(is.Cond, "EndTagToken") {
					endChecked = true
				}
			}
		}
		return true
	})
	switch {
	case !voidGuarded:
		r.Fail("E11.svg-style-element", key, c.Pos(branch.Pos()), "the tokens after the start tag are read whatever closed it: after a self-closing `<style/>` the following white space is taken for the style sheet and the next element is consumed as the end tag")
	case !endChecked:
		r.Fail("E11.svg-style-element", key, c.Pos(branch.Pos()), "the error is not tied to the end tag: `<style></style>`, which has no text token, is rejected as a bad style tag")
	default:
		r.OK("E11.svg-style-element", key, c.Pos(branch.Pos()), "")
	}
}

// E11NumberListSeparators: what separates the numbers of an SVG number list.
func E11NumberListSeparators(c *core.Ctx, r *core.Report) {
	r.Rule("E11.number-list-separators", "the numbers of `points`, of transform arguments and of dash arrays are separated by white space (space, tab, new line, carriage return) and/or a comma, and a sign that does not follow an exponent starts a new number (`10-5`). svgParser.parsePoints names each of the four white-space bytes and both signs — in comparisons with the byte at hand or as the text a replacement looks for — and the sign case looks at the byte in front (an index minus one). Without the sign case minified documents are rejected; without '\\r' documents with CRLF line ends are")
	p := c.MustPkg("")
	info := p.TypesInfo
	fd := core.MustFuncDecl(p, "svgParser.parsePoints")
	seen := map[byte]bool{}
	ast.Inspect(fd.Body, func(m ast.Node) bool {
		e, ok := m.(ast.Expr)
		if !ok {
			return true
		}
		if tv, ok := info.Types[e]; ok && tv.Value != nil {
			switch tv.Value.Kind() {
			case constant.Int:
				if v, ok := constant.Int64Val(tv.Value); ok && v > 0 && v < 128 {
					if bt, ok := tv.Type.Underlying().(*types.Basic); ok && (bt.Kind() == types.UntypedRune || bt.Kind() == types.Uint8 || bt.Kind() == types.Int32) {
						seen[byte(v)] = true
					}
				}
			case constant.String:
				if s := constant.StringVal(tv.Value); len(s) == 1 {
					seen[s[0]] = true
				}
			}
		}
		return true
	})
	lookBack := false
	ast.Inspect(fd.Body, func(m ast.Node) bool {
		if ie, ok := m.(*ast.IndexExpr); ok {
			if be, ok := core.Unparen(ie.Index).(*ast.BinaryExpr); ok && be.Op == token.SUB {
				if v, ok := core.ConstInt(info, be.Y); ok && v == 1 {
					lookBack = true
				}
			}
		}
		return true
	})
	key := "canvas.svgParser.parsePoints|separators of a number list"
	r.Count("E11.number-list-separators", 1)
	var missing []string
	for _, b := range []byte{' ', '\t', '\n', '\r', '-', '+'} {
		if !seen[b] {
			missing = append(missing, fmt.Sprintf("%q", string(b)))
		}
	}
	switch {
	case len(missing) > 0:
		r.Fail("E11.number-list-separators", key, c.Pos(fd.Pos()), "parsePoints does not mention "+strings.Join(missing, ", ")+": lists that rely on it as a separator are rejected as a bad number array")
	case !lookBack:
		r.Fail("E11.number-list-separators", key, c.Pos(fd.Pos()), "a sign is treated without a look at the byte in front of it: the sign of an exponent (`1e-3`) would split the number")
	default:
		r.OK("E11.number-list-separators", key, c.Pos(fd.Pos()), "")
	}
}

// E11RecordedPathCopied: the canvas records its own copy of a path.
func E11RecordedPathCopied(c *core.Ctx, r *core.Report) {
	r.Rule("E11.recorded-path-copied", "a Canvas replays what was drawn when it was drawn. Path methods (Transform, Translate, LineTo, Close, …) change a path in place, so Canvas.RenderPath stores a copy in the layer it records: the value of the layer's path field is the result of Copy() — directly, or a variable whose every assignment in the function is such a result — and never the parameter itself. With the caller's pointer in the layer, `for { ctx.DrawPath(0,0,p); p = p.Translate(5,0) }` replays every stamp at the last position and Fit measures the last one only")
	p := c.MustPkg("")
	info := p.TypesInfo
	fd := core.MustFuncDecl(p, "Canvas.RenderPath")
	param := paramObj(info, fd, 0)
	isCopy := func(e ast.Expr) bool {
		call, ok := core.Unparen(e).(*ast.CallExpr)
		if !ok {
			return false
		}
		f := core.CalleeOf(info, call)
		return f != nil && f.Name() == "Copy"
	}
	n := 0
	ast.Inspect(fd.Body, func(m ast.Node) bool {
		cl, ok := m.(*ast.CompositeLit)
		if !ok {
			return true
		}
		if nt, ok := info.TypeOf(cl).(*types.Named); !ok || nt.Obj().Name() != "layer" {
			return true
		}
		for _, el := range cl.Elts {
			kv, ok := el.(*ast.KeyValueExpr)
			if !ok {
				continue
			}
			if k, ok := kv.Key.(*ast.Ident); !ok || k.Name != "path" {
				continue
			}
			n++
			key := fmt.Sprintf("canvas.Canvas.RenderPath|recorded path #%d is a copy", n)
			good := isCopy(kv.Value)
			if id, ok := core.Unparen(kv.Value).(*ast.Ident); ok && !good {
				o := core.ObjOf(info, id)
				asg, copies := 0, 0
				ast.Inspect(fd.Body, func(k ast.Node) bool {
					if as, ok := k.(*ast.AssignStmt); ok && len(as.Lhs) == len(as.Rhs) {
						for i, l := range as.Lhs {
							if lid, ok := l.(*ast.Ident); ok && core.ObjOf(info, lid) == o {
								asg++
								if isCopy(as.Rhs[i]) {
									copies++
								}
							}
						}
					}
					return true
				})
				// the parameter counts as assigned once by the caller
				if o == param {
					good = asg > 0 && asg == copies && assignedBeforeUse(fd, info, o, cl.Pos())
				} else {
					good = asg > 0 && asg == copies
				}
			}
			if good {
				r.OK("E11.recorded-path-copied", key, c.Pos(cl.Pos()), "")
			} else {
				r.Fail("E11.recorded-path-copied", key, c.Pos(cl.Pos()), fmt.Sprintf("the layer records `%s`, the caller's path, not a copy: whatever the caller does to the path afterwards (Translate, LineTo, Reset) changes what the canvas replays and what Fit measures", c.Src(kv.Value)))
			}
		}
		return true
	})
	r.Count("E11.recorded-paths", n)
	r.Floor("E11.recorded-paths", 1)
}

// assignedBeforeUse: some assignment to o lies before pos at the top level of the function body.
func assignedBeforeUse(fd *ast.FuncDecl, info *types.Info, o types.Object, pos token.Pos) bool {
	for _, st := range fd.Body.List {
		if st.Pos() >= pos {
			break
		}
		if as, ok := st.(*ast.AssignStmt); ok {
			for _, l := range as.Lhs {
				if id, ok := l.(*ast.Ident); ok && core.ObjOf(info, id) == o {
					return true
				}
			}
		}
	}
	return false
}

// E11PointCompareTolerant: methods whose results are indexed in step decide "same point" with Equals, not with == or !=.
func E11PointCompareTolerant(c *core.Ctx, r *core.Report) {
	r.Rule("E11.point-compare-tolerant", "whether two coordinates are the same point is decided by Point.Equals (within Epsilon) in the path code: a LineTo ending within Epsilon of the start of its sub-path has closed it. Where a function walks the result of one Path method and indexes the result of another with the same index (Markers: `for i := range p.Coords() { … p.CoordDirections()[i] }`), the two methods must return equally many entries for every path, so neither may decide that question differently: inside such methods two Point values are never compared with == or != (bit for bit). With an exact test in Coords, a path whose last LineTo ends within Epsilon of the start (the result of a transformation or of an arc's end-point computation) and is then closed gets one coordinate more than it gets directions and Markers indexes past the end")
	p := c.MustPkg("")
	info := p.TypesInfo
	// methods zipped by index
	type pair struct {
		user *ast.FuncDecl
		a, b *types.Func
	}
	var pairs []pair
	for _, fd := range core.AllFuncDecls(p) {
		if fd.Body == nil {
			continue
		}
		from := map[types.Object]*types.Func{}
		ast.Inspect(fd.Body, func(m ast.Node) bool {
			as, ok := m.(*ast.AssignStmt)
			if !ok || len(as.Lhs) != 1 || len(as.Rhs) != 1 {
				return true
			}
			ce, ok := core.Unparen(as.Rhs[0]).(*ast.CallExpr)
			if !ok {
				return true
			}
			f := core.CalleeOf(info, ce)
			if f == nil || f.Pkg() != p.Types {
				return true
			}
			if sig := f.Type().(*types.Signature); sig.Recv() == nil || sig.Results().Len() != 1 {
				return true
			} else if _, ok := sig.Results().At(0).Type().Underlying().(*types.Slice); !ok {
				return true
			}
			if id, ok := as.Lhs[0].(*ast.Ident); ok {
				from[core.ObjOf(info, id)] = f
			}
			return true
		})
		if len(from) < 2 {
			continue
		}
		ast.Inspect(fd.Body, func(m ast.Node) bool {
			rs, ok := m.(*ast.RangeStmt)
			if !ok || rs.Key == nil {
				return true
			}
			xid, ok := core.Unparen(rs.X).(*ast.Ident)
			kid, ok2 := rs.Key.(*ast.Ident)
			if !ok || !ok2 || from[core.ObjOf(info, xid)] == nil {
				return true
			}
			ko := core.ObjOf(info, kid)
			ast.Inspect(rs.Body, func(q ast.Node) bool {
				ie, ok := q.(*ast.IndexExpr)
				if !ok {
					return true
				}
				yid, ok := core.Unparen(ie.X).(*ast.Ident)
				iid, ok2 := core.Unparen(ie.Index).(*ast.Ident)
				if !ok || !ok2 || core.ObjOf(info, iid) != ko {
					return true
				}
				g := from[core.ObjOf(info, yid)]
				if g == nil || g == from[core.ObjOf(info, xid)] {
					return true
				}
				for _, pr := range pairs {
					if pr.user == fd && pr.b == g {
						return true
					}
				}
				pairs = append(pairs, pair{fd, from[core.ObjOf(info, xid)], g})
				return true
			})
			return true
		})
	}
	seen := map[*types.Func]bool{}
	for _, pr := range pairs {
		for _, f := range []*types.Func{pr.a, pr.b} {
			if seen[f] {
				continue
			}
			seen[f] = true
			var fd *ast.FuncDecl
			for _, d := range core.AllFuncDecls(p) {
				if info.Defs[d.Name] == f {
					fd = d
				}
			}
			key := fmt.Sprintf("canvas.%s|indexed in step with a sibling by %s: no exact comparison of points", f.Name(), core.FuncName(pr.user))
			if fd == nil || fd.Body == nil {
				r.Fail("E11.point-compare-tolerant", key, "", "declaration not found")
				continue
			}
			r.Func("canvas." + core.FuncName(fd))
			bad := ""
			var badPos token.Pos
			ast.Inspect(fd.Body, func(m ast.Node) bool {
				be, ok := m.(*ast.BinaryExpr)
				if !ok || (be.Op != token.EQL && be.Op != token.NEQ) {
					return true
				}
				nx, okx := info.TypeOf(be.X).(*types.Named)
				ny, oky := info.TypeOf(be.Y).(*types.Named)
				if okx && oky && nx.Obj().Name() == "Point" && ny.Obj().Name() == "Point" && nx.Obj().Pkg() == p.Types && bad == "" {
					bad, badPos = c.Src(be), be.Pos()
				}
				return true
			})
			if bad != "" {
				r.Fail("E11.point-compare-tolerant", key, c.Pos(badPos), fmt.Sprintf("`%s` compares two points bit for bit where its sibling uses Equals: for end points that differ within Epsilon the two results have different lengths and %s indexes one with the other's index", bad, core.FuncName(pr.user)))
			} else {
				r.OK("E11.point-compare-tolerant", key, c.Pos(fd.Pos()), "")
			}
		}
	}
	r.Count("E11.zipped-sibling-pairs", len(pairs))
	r.Floor("E11.zipped-sibling-pairs", 1)
}

// E11ClusterOffsetBytes: glyph clusters are byte offsets into the text; the per-run offset advances by byte lengths.
func E11ClusterOffsetBytes(c *core.Ctx, r *core.Report) {
	r.Rule("E11.cluster-offset-bytes", "a glyph's Cluster is the byte offset of its first character in the text that was shaped; RichText.ToText shapes run by run and makes the clusters global by adding an offset (`glyph.Cluster += off`), which the object table (rt.objects), the run indexer and the text written to PDF/SVG (`log[a.Cluster:b.Cluster]`) all read as a byte offset into the whole text. The offset is therefore advanced by the byte length of each run: every assignment `off += E` has for E (conversions removed) `len(s)` of a string. A rune count (utf8.RuneCountInString, len([]rune(s))) is the same number for ASCII only: after a run with an accented or non-Latin character every later glyph points before its character, embedded objects are not found and the selectable text of the PDF is shifted")
	p := c.MustPkg("")
	info := p.TypesInfo
	n := 0
	for _, fd := range core.AllFuncDecls(p) {
		if fd.Body == nil {
			continue
		}
		offs := map[types.Object]bool{}
		ast.Inspect(fd.Body, func(m ast.Node) bool {
			as, ok := m.(*ast.AssignStmt)
			if !ok || as.Tok != token.ADD_ASSIGN || len(as.Lhs) != 1 {
				return true
			}
			se, ok := as.Lhs[0].(*ast.SelectorExpr)
			if !ok || se.Sel.Name != "Cluster" {
				return true
			}
			if id, ok := core.Unparen(as.Rhs[0]).(*ast.Ident); ok {
				offs[core.ObjOf(info, id)] = true
			}
			return true
		})
		if len(offs) == 0 {
			continue
		}
		r.Func("canvas." + core.FuncName(fd))
		ast.Inspect(fd.Body, func(m ast.Node) bool {
			as, ok := m.(*ast.AssignStmt)
			if !ok || len(as.Lhs) != 1 || len(as.Rhs) != 1 {
				return true
			}
			id, ok := as.Lhs[0].(*ast.Ident)
			if !ok || !offs[core.ObjOf(info, id)] {
				return true
			}
			if as.Tok == token.DEFINE || as.Tok == token.ASSIGN {
				if v, ok := core.ConstInt(info, stripConv(info, as.Rhs[0])); ok && v == 0 {
					return true // starts at zero
				}
			}
			n++
			key := fmt.Sprintf("canvas.%s|cluster offset `%s` step #%d is a byte length", core.FuncName(fd), id.Name, n)
			e := stripConv(info, as.Rhs[0])
			good := false
			if as.Tok == token.ADD_ASSIGN {
				if ce, ok := e.(*ast.CallExpr); ok && len(ce.Args) == 1 {
					if fid, ok := ce.Fun.(*ast.Ident); ok && fid.Name == "len" {
						if _, isBuiltin := info.Uses[fid].(*types.Builtin); isBuiltin {
							if bt, ok := info.TypeOf(ce.Args[0]).Underlying().(*types.Basic); ok && bt.Info()&types.IsString != 0 {
								good = true
							}
						}
					}
				}
			}
			if good {
				r.OK("E11.cluster-offset-bytes", key, c.Pos(as.Pos()), c.Src(as.Rhs[0]))
			} else {
				r.Fail("E11.cluster-offset-bytes", key, c.Pos(as.Pos()), fmt.Sprintf("the offset added to every glyph's Cluster moves by `%s`, which is not the byte length of a string: clusters are byte offsets into the text, so after the first run with a multi-byte character every later glyph points at the wrong bytes", c.Src(as.Rhs[0])))
			}
			return true
		})
	}
	r.Count("E11.cluster-offset-steps", n)
	r.Floor("E11.cluster-offset-steps", 1)
}

// stripConv removes parentheses and type conversions.
func stripConv(info *types.Info, e ast.Expr) ast.Expr {
	for {
		e = core.Unparen(e)
		ce, ok := e.(*ast.CallExpr)
		if !ok || len(ce.Args) != 1 {
			return e
		}
		if tv, ok := info.Types[ce.Fun]; ok && tv.IsType() {
			e = ce.Args[0]
			continue
		}
		return e
	}
}

// E11JoinerSidesConsistent: a joiner never draws a point that belongs to one side of the stroke onto the other side.
func E11JoinerSidesConsistent(c *core.Ctx, r *core.Report) {
	r.Rule("E11.joiner-sides-consistent", "a Joiner's Join(rhs, lhs, …) extends the right-hand and the left-hand offset path of a stroke around a corner. Every joiner ends by bringing each side to its own end point (`rhs.LineTo(E.X, E.Y)` / `lhs.LineTo(F.X, F.Y)` at the top level of the body), which tells which local point belongs to which side. Interpreted once per truth value of the bare boolean identifiers the body branches on (cw), every drawing call on a path that is the one side has arguments computed from neutral values and values of that same side only — never from the other side's path or end point. A miter-clip corner interpolated from the inner side's end point makes the edge towards the outer end point a chord through the half-width circle around the vertex: points closer than w/2 to the path are left out of the stroke, for right-hand bends only")
	p := c.MustPkg("")
	info := p.TypesInfo
	n := 0
	for _, fd := range core.AllFuncDecls(p) {
		if fd.Body == nil || fd.Name.Name != "Join" || fd.Recv == nil {
			continue
		}
		ro, lo := paramObj(info, fd, 0), paramObj(info, fd, 1)
		if ro == nil || lo == nil || !isNamedDeref(ro.Type(), "Path") || !isNamedDeref(lo.Type(), "Path") {
			continue
		}
		r.Func("canvas." + core.FuncName(fd))
		base := map[types.Object]string{ro: "r", lo: "l"}
		// end points: S.LineTo(P.X, P.Y) at the top level
		for _, st := range fd.Body.List {
			es, ok := st.(*ast.ExprStmt)
			if !ok {
				continue
			}
			ce, ok := es.X.(*ast.CallExpr)
			if !ok || len(ce.Args) != 2 {
				continue
			}
			se, ok := ce.Fun.(*ast.SelectorExpr)
			if !ok || se.Sel.Name != "LineTo" {
				continue
			}
			sid, ok := core.Unparen(se.X).(*ast.Ident)
			if !ok || base[core.ObjOf(info, sid)] == "" {
				continue
			}
			var pts []types.Object
			for _, a := range ce.Args {
				if as, ok := core.Unparen(a).(*ast.SelectorExpr); ok {
					if pid, ok := core.Unparen(as.X).(*ast.Ident); ok {
						pts = append(pts, core.ObjOf(info, pid))
					}
				}
			}
			if len(pts) == 2 && pts[0] == pts[1] && base[pts[0]] == "" {
				base[pts[0]] = base[core.ObjOf(info, sid)]
			}
		}
		// the boolean identifiers the body branches on
		var bools []types.Object
		ast.Inspect(fd.Body, func(m ast.Node) bool {
			if is, ok := m.(*ast.IfStmt); ok {
				e := core.Unparen(is.Cond)
				if u, ok := e.(*ast.UnaryExpr); ok && u.Op == token.NOT {
					e = core.Unparen(u.X)
				}
				if id, ok := e.(*ast.Ident); ok {
					o := core.ObjOf(info, id)
					dup := false
					for _, b := range bools {
						dup = dup || b == o
					}
					if !dup && o != nil {
						bools = append(bools, o)
					}
				}
			}
			return true
		})
		if len(bools) > 4 {
			bools = bools[:4]
		}
		type finding struct {
			pos  token.Pos
			what string
		}
		found := map[token.Pos]finding{}
		calls := map[token.Pos]bool{}
		for w := 0; w < 1<<len(bools); w++ {
			world := map[types.Object]bool{}
			for i, b := range bools {
				world[b] = w&(1<<i) != 0
			}
			side := map[types.Object]string{}
			for o, s := range base {
				side[o] = s
			}
			var sideOf func(e ast.Expr) string
			sideOf = func(e ast.Expr) string {
				s := ""
				ast.Inspect(e, func(q ast.Node) bool {
					if id, ok := q.(*ast.Ident); ok {
						if t := side[core.ObjOf(info, id)]; t != "" {
							if s == "" {
								s = t
							} else if s != t {
								s = "x"
							}
						}
					}
					return true
				})
				return s
			}
			var walk func(st ast.Stmt) bool // false: returned
			walkBlock := func(b *ast.BlockStmt) bool {
				for _, s := range b.List {
					if !walk(s) {
						return false
					}
				}
				return true
			}
			walk = func(st ast.Stmt) bool {
				switch x := st.(type) {
				case *ast.ReturnStmt:
					return false
				case *ast.BlockStmt:
					return walkBlock(x)
				case *ast.AssignStmt:
					if len(x.Lhs) == len(x.Rhs) {
						vals := make([]string, len(x.Rhs))
						for i, e := range x.Rhs {
							vals[i] = sideOf(e)
						}
						for i, l := range x.Lhs {
							if id, ok := l.(*ast.Ident); ok {
								if o := core.ObjOf(info, id); o != nil && base[o] == "" {
									side[o] = vals[i]
								}
							}
						}
					}
				case *ast.IfStmt:
					if x.Init != nil {
						walk(x.Init)
					}
					e := core.Unparen(x.Cond)
					neg := false
					if u, ok := e.(*ast.UnaryExpr); ok && u.Op == token.NOT {
						e, neg = core.Unparen(u.X), true
					}
					if id, ok := e.(*ast.Ident); ok {
						if v, ok := world[core.ObjOf(info, id)]; ok {
							if v != neg {
								return walkBlock(x.Body)
							} else if x.Else != nil {
								return walk(x.Else)
							}
							return true
						}
					}
					// undecided condition: both arms one after the other (sides only grow towards "x")
					a := walkBlock(x.Body)
					b := true
					if x.Else != nil {
						b = walk(x.Else)
					}
					return a || b
				case *ast.ExprStmt:
					ce, ok := x.X.(*ast.CallExpr)
					if !ok {
						return true
					}
					se, ok := ce.Fun.(*ast.SelectorExpr)
					if !ok || !isNamedDeref(info.TypeOf(se.X), "Path") {
						return true
					}
					rs := sideOf(se.X)
					if rs != "l" && rs != "r" {
						return true
					}
					calls[ce.Pos()] = true
					for _, a := range ce.Args {
						as := sideOf(a)
						if as != "" && as != "x" && as != rs {
							names := map[string]string{"l": "left-hand", "r": "right-hand"}
							found[ce.Pos()] = finding{ce.Pos(), fmt.Sprintf("`%s` draws on the %s side with `%s`, a value of the %s side", c.Src(ce), names[rs], c.Src(a), names[as])}
						}
					}
				}
				return true
			}
			walkBlock(fd.Body)
		}
		var ps []token.Pos
		for pos := range calls {
			ps = append(ps, pos)
		}
		sort.Slice(ps, func(i, j int) bool { return ps[i] < ps[j] })
		for i, pos := range ps {
			n++
			key := fmt.Sprintf("canvas.%s|drawing call #%d stays on its side", core.FuncName(fd), i+1)
			if f, bad := found[pos]; bad {
				r.Fail("E11.joiner-sides-consistent", key, c.Pos(pos), f.what+": the corner of the outer side is built from the inner side's end point, and part of the half-width disc around the vertex is left out of the stroke")
			} else {
				r.OK("E11.joiner-sides-consistent", key, c.Pos(pos), "")
			}
		}
	}
	r.Count("E11.joiner-drawing-calls", n)
	r.Floor("E11.joiner-drawing-calls", 8)
}

// E11CloseReturnsToStart: every close record Path.Close produces carries the start of the sub-path.
func E11CloseReturnsToStart(c *core.Ctx, r *core.Report) {
	r.Rule("E11.close-returns-to-start", "a close record carries the coordinates it returns to, and every reader (Pos, Coords, the sweep, the writers) takes them as the start of the sub-path. Path.Close produces the record in three ways — retagging a last LineTo that already ends at the start (within Epsilon), retagging a last LineTo that the closing line extends, and appending a new record — and in each the coordinates of the record are the components of the variable assigned from StartPos(): a block that stores CloseCmd in `p.d[len(p.d)-1]` also stores that variable's X in `p.d[len(p.d)-3]` and its Y in `p.d[len(p.d)-2]`, and an appended record has them as its second and third value. A retagged LineTo that keeps its own end point closes up to Epsilon away from the start: Pos() differs from StartPos(), and Settle panics when the two ends snap to different grid points")
	p := c.MustPkg("")
	info := p.TypesInfo
	fd := core.MustFuncDecl(p, "Path.Close")
	r.Func("canvas.Path.Close")
	var start types.Object
	ast.Inspect(fd.Body, func(m ast.Node) bool {
		as, ok := m.(*ast.AssignStmt)
		if !ok || len(as.Lhs) != 1 || len(as.Rhs) != 1 {
			return true
		}
		if ce, ok := core.Unparen(as.Rhs[0]).(*ast.CallExpr); ok {
			if f := core.CalleeOf(info, ce); f != nil && f.Name() == "StartPos" {
				if id, ok := as.Lhs[0].(*ast.Ident); ok {
					start = core.ObjOf(info, id)
				}
			}
		}
		return true
	})
	if start == nil {
		r.Fail("E11.close-returns-to-start", "canvas.Path.Close|start of the sub-path", c.Pos(fd.Pos()), "no variable is assigned from StartPos()")
		return
	}
	isComp := func(e ast.Expr, comp string) bool {
		se, ok := core.Unparen(e).(*ast.SelectorExpr)
		if !ok || se.Sel.Name != comp {
			return false
		}
		id, ok := core.Unparen(se.X).(*ast.Ident)
		return ok && core.ObjOf(info, id) == start
	}
	// tail index p.d[len(p.d)-k]
	tail := func(e ast.Expr) (int64, bool) {
		ie, ok := core.Unparen(e).(*ast.IndexExpr)
		if !ok || !core.IsPathDataSel(info, ie.X) {
			return 0, false
		}
		be, ok := core.Unparen(ie.Index).(*ast.BinaryExpr)
		if !ok || be.Op != token.SUB {
			return 0, false
		}
		ce, ok := core.Unparen(be.X).(*ast.CallExpr)
		if !ok || len(ce.Args) != 1 {
			return 0, false
		}
		if id, ok := ce.Fun.(*ast.Ident); !ok || id.Name != "len" || !core.IsPathDataSel(info, ce.Args[0]) {
			return 0, false
		}
		return core.ConstInt(info, be.Y)
	}
	n := 0
	ast.Inspect(fd.Body, func(m ast.Node) bool {
		blk, ok := m.(*ast.BlockStmt)
		if !ok {
			return true
		}
		retag := token.NoPos
		gotX, gotY := false, false
		for _, st := range blk.List {
			as, ok := st.(*ast.AssignStmt)
			if !ok || len(as.Lhs) != len(as.Rhs) {
				continue
			}
			for i, l := range as.Lhs {
				if k, ok := tail(l); ok {
					switch {
					case k == 1 && core.ConstName(info, as.Rhs[i]) == "CloseCmd":
						retag = as.Pos()
					case k == 3 && isComp(as.Rhs[i], "X"):
						gotX = true
					case k == 2 && isComp(as.Rhs[i], "Y"):
						gotY = true
					}
				}
				// appended record
				if ce, ok := core.Unparen(as.Rhs[i]).(*ast.CallExpr); ok && len(ce.Args) == 5 {
					if id, ok := ce.Fun.(*ast.Ident); ok && id.Name == "append" && core.ConstName(info, ce.Args[1]) == "CloseCmd" {
						n++
						key := fmt.Sprintf("canvas.Path.Close|close record #%d (appended) returns to the start", n)
						if isComp(ce.Args[2], "X") && isComp(ce.Args[3], "Y") {
							r.OK("E11.close-returns-to-start", key, c.Pos(ce.Pos()), "")
						} else {
							r.Fail("E11.close-returns-to-start", key, c.Pos(ce.Pos()), fmt.Sprintf("the appended close record carries `%s, %s`, not the start of the sub-path", c.Src(ce.Args[2]), c.Src(ce.Args[3])))
						}
					}
				}
			}
		}
		if retag != token.NoPos {
			n++
			key := fmt.Sprintf("canvas.Path.Close|close record #%d (retagged LineTo) returns to the start", n)
			if gotX && gotY {
				r.OK("E11.close-returns-to-start", key, c.Pos(retag), "")
			} else {
				r.Fail("E11.close-returns-to-start", key, c.Pos(retag), "the last LineTo is retagged as the close command and keeps its own end point: the close ends up to Epsilon away from the start of the sub-path, Pos() differs from StartPos() and the sweep snaps the two ends to different grid points")
			}
		}
		return true
	})
	r.Count("E11.close-records", n)
	r.Floor("E11.close-records", 3)
}

// E11SelectorBacktracks: the descendant combinator tries every ancestor.
func E11SelectorBacktracks(c *core.Ctx, r *core.Report) {
	r.Rule("E11.selector-backtracks", "a CSS selector `A B` applies when some ancestor matches A together with everything to A's left; which ancestor that is cannot be told from A alone, because a child combinator further left (`svg>g rect`) may hold for a farther ancestor and fail for the nearest one. In the selector matcher (the recursive method of cssSelector that switches on the combinator) the case of the descendant combinator therefore walks the ancestors in a loop that gives up on none of them: every return inside that loop returns the constant true, so a candidate whose recursive match fails is followed by the next one. `return sels.appliesAt(…)` inside the loop commits to the nearest ancestor that matches A: `<svg><g><g><rect/></g></g></svg>` with `svg>g rect{fill:red}` stays black")
	p := c.MustPkg("")
	info := p.TypesInfo
	n := 0
	for _, fd := range core.AllFuncDecls(p) {
		if fd.Body == nil || fd.Recv == nil || len(fd.Recv.List) != 1 || !isNamedDeref(info.TypeOf(fd.Recv.List[0].Type), "cssSelector") {
			continue
		}
		fo := info.Defs[fd.Name]
		recursive := false
		ast.Inspect(fd.Body, func(m ast.Node) bool {
			if ce, ok := m.(*ast.CallExpr); ok && core.CalleeOf(info, ce) == fo {
				recursive = true
			}
			return true
		})
		if !recursive {
			continue
		}
		r.Func("canvas." + core.FuncName(fd))
		ast.Inspect(fd.Body, func(m ast.Node) bool {
			cc, ok := m.(*ast.CaseClause)
			if !ok {
				return true
			}
			desc := false
			for _, e := range cc.List {
				if v := core.ConstVal(info, e); v != nil && v.ExactString() == "32" {
					desc = true
				}
			}
			if !desc {
				return true
			}
			for _, st := range cc.Body {
				ast.Inspect(st, func(q ast.Node) bool {
					fs, ok := q.(*ast.ForStmt)
					if !ok {
						return true
					}
					n++
					key := fmt.Sprintf("canvas.%s|ancestor loop #%d of the descendant combinator gives up on no candidate", core.FuncName(fd), n)
					bad := ""
					var badPos token.Pos
					ast.Inspect(fs.Body, func(k ast.Node) bool {
						if _, isFn := k.(*ast.FuncLit); isFn {
							return false
						}
						rs, ok := k.(*ast.ReturnStmt)
						if !ok || len(rs.Results) != 1 {
							return true
						}
						if evalBool(info, rs.Results[0], func(ast.Expr) tri { return tUnknown }) != tTrue && bad == "" {
							bad, badPos = c.Src(rs), rs.Pos()
						}
						return true
					})
					if bad != "" {
						r.Fail("E11.selector-backtracks", key, c.Pos(badPos), fmt.Sprintf("`%s` inside the loop over the ancestors answers for the first candidate: when the rest of the selector fails there, farther ancestors that would satisfy it are never tried", bad))
					} else {
						r.OK("E11.selector-backtracks", key, c.Pos(fs.Pos()), "")
					}
					return false
				})
			}
			return true
		})
	}
	r.Count("E11.selector-ancestor-loops", n)
	r.Floor("E11.selector-ancestor-loops", 1)
}

// E11BidiRunOrigin: a run of spans that is reversed is laid out again from its left edge, which end that is depends on the level.
func E11BidiRunOrigin(c *core.Ctx, r *core.Report) {
	r.Rule("E11.bidi-run-origin", "reorderSpans puts the spans of a line into visual order: for every embedding level it reverses the runs of that level and deeper, laying the spans out again from the run's left edge (`spans[i].X = x; x += spans[i].Width`). Which span holds the left edge depends on what happened before: at an odd level the run is still in logical order and starts at its first span; an even-level run lies inside an odd-level run that has just been reversed, so its leftmost span is the last one. The variable the layout starts from is therefore not one fixed end of the run: it is assigned under a test of the level's parity (or folded as a minimum over the run). Taking `spans[first].X` at every level moves a left-to-right phrase of two spans inside a right-to-left paragraph to the right, over its neighbour")
	p := c.MustPkg("")
	info := p.TypesInfo
	fd := core.MustFuncDecl(p, "reorderSpans")
	r.Func("canvas.reorderSpans")
	n := 0
	ast.Inspect(fd.Body, func(m ast.Node) bool {
		blk, ok := m.(*ast.BlockStmt)
		if !ok {
			return true
		}
		for si, st := range blk.List {
			fs, ok := st.(*ast.ForStmt)
			if !ok {
				continue
			}
			// the loop re-lays spans: spans[i].X = x
			var xo types.Object
			for _, q := range fs.Body.List {
				as, ok := q.(*ast.AssignStmt)
				if !ok || len(as.Lhs) != 1 || len(as.Rhs) != 1 || as.Tok != token.ASSIGN {
					continue
				}
				se, ok := as.Lhs[0].(*ast.SelectorExpr)
				if !ok || se.Sel.Name != "X" {
					continue
				}
				if _, ok := core.Unparen(se.X).(*ast.IndexExpr); !ok {
					continue
				}
				if id, ok := core.Unparen(as.Rhs[0]).(*ast.Ident); ok {
					xo = core.ObjOf(info, id)
				}
			}
			if xo == nil {
				continue
			}
			n++
			key := fmt.Sprintf("canvas.reorderSpans|start of re-layout #%d depends on the level", n)
			// definitions of x in front of the loop, in this block
			plain, guarded, other := 0, 0, 0
			var first token.Pos
			for _, prev := range blk.List[:si] {
				walkStack(prev, func(q ast.Node, stack []ast.Node) {
					as, ok := q.(*ast.AssignStmt)
					if !ok {
						return
					}
					for i, l := range as.Lhs {
						id, ok := l.(*ast.Ident)
						if !ok || core.ObjOf(info, id) != xo || i >= len(as.Rhs) {
							continue
						}
						if first == token.NoPos {
							first = as.Pos()
						}
						byLevel := false
						for _, a := range stack {
							if is, ok := a.(*ast.IfStmt); ok {
								ast.Inspect(is.Cond, func(k ast.Node) bool {
									if be, ok := k.(*ast.BinaryExpr); ok && (be.Op == token.REM || be.Op == token.AND) {
										byLevel = true
									}
									return true
								})
							}
						}
						rhs := core.Unparen(as.Rhs[i])
						if se, ok := rhs.(*ast.SelectorExpr); ok && se.Sel.Name == "X" {
							if byLevel {
								guarded++
							} else {
								plain++
							}
						} else {
							other++
						}
					}
				})
				if ds, ok := prev.(*ast.DeclStmt); ok && first == token.NoPos {
					first = ds.Pos()
				}
			}
			switch {
			case plain > 0 && guarded == 0 && other == 0:
				r.Fail("E11.bidi-run-origin", key, c.Pos(first), "the re-layout of a reversed run starts from the same end of the run at every level: an even-level run lies inside an already reversed odd-level run, where that end is the right edge — the run is shifted over its neighbour")
			case plain+guarded+other == 0:
				r.Fail("E11.bidi-run-origin", key, c.Pos(fs.Pos()), "no definition of the start position found in front of the loop")
			default:
				r.OK("E11.bidi-run-origin", key, c.Pos(fs.Pos()), fmt.Sprintf("%d by parity, %d computed", guarded, other))
			}
		}
		return true
	})
	r.Count("E11.bidi-relayouts", n)
	r.Floor("E11.bidi-relayouts", 1)
}

// E11ImplicitLineToRelativity: coordinate pairs after a moveto are lineto commands of the same relativity.
func E11ImplicitLineToRelativity(c *core.Ctx, r *core.Report) {
	r.Rule("E11.implicit-lineto-relativity", "SVG 1.1 §8.3.2: if a moveto is followed by further coordinate pairs they are implicit lineto commands, relative after `m` and absolute after `M`. ParseSVGPath keeps the command letter in a variable that stays in force for following pairs, so the moveto case leaves it as 'l' when it was entered with 'm' and as 'L' when it was entered with 'M' — decided by walking the case body once per letter with the tests of the variable against a letter evaluated. 'L' after both reads `m10 10 40 0 0 30z` (as Inkscape writes paths) as a triangle with corners at (40,0) and (0,30) instead of (50,10) and (50,40)")
	p := c.MustPkg("")
	info := p.TypesInfo
	fd := core.MustFuncDecl(p, "ParseSVGPath")
	r.Func("canvas.ParseSVGPath")
	n := 0
	ast.Inspect(fd.Body, func(m ast.Node) bool {
		ss, ok := m.(*ast.SwitchStmt)
		if !ok || ss.Tag == nil {
			return true
		}
		tid, ok := core.Unparen(ss.Tag).(*ast.Ident)
		if !ok {
			return true
		}
		cmdO := core.ObjOf(info, tid)
		for _, cs := range ss.Body.List {
			cc := cs.(*ast.CaseClause)
			letters := map[int64]bool{}
			for _, e := range cc.List {
				if v, ok := core.ConstInt(info, e); ok {
					letters[v] = true
				}
			}
			if !letters['M'] || !letters['m'] {
				continue
			}
			for _, w := range []struct{ in, want int64 }{{'m', 'l'}, {'M', 'L'}} {
				n++
				key := fmt.Sprintf("canvas.ParseSVGPath|pairs after `%c` are `%c` commands", rune(w.in), rune(w.want))
				cur, known := w.in, true
				var walk func(list []ast.Stmt)
				walk = func(list []ast.Stmt) {
					for _, st := range list {
						switch x := st.(type) {
						case *ast.AssignStmt:
							for i, l := range x.Lhs {
								if id, ok := l.(*ast.Ident); ok && core.ObjOf(info, id) == cmdO && i < len(x.Rhs) {
									if v, ok := core.ConstInt(info, x.Rhs[i]); ok {
										cur, known = v, true
									} else {
										known = false
									}
								}
							}
						case *ast.IfStmt:
							t := evalBool(info, x.Cond, func(a ast.Expr) tri {
								be, ok := a.(*ast.BinaryExpr)
								if !ok || (be.Op != token.EQL && be.Op != token.NEQ) || !known {
									return tUnknown
								}
								for _, pr := range [][2]ast.Expr{{be.X, be.Y}, {be.Y, be.X}} {
									if id, ok := core.Unparen(pr[0]).(*ast.Ident); ok && core.ObjOf(info, id) == cmdO {
										if v, ok := core.ConstInt(info, pr[1]); ok {
											return triOf((v == cur) == (be.Op == token.EQL))
										}
									}
								}
								return tUnknown
							})
							switch t {
							case tTrue:
								walk(x.Body.List)
							case tFalse:
								if eb, ok := x.Else.(*ast.BlockStmt); ok {
									walk(eb.List)
								} else if ei, ok := x.Else.(*ast.IfStmt); ok {
									walk([]ast.Stmt{ei})
								}
							default:
								// undecided: both arms must leave the same letter
								c0, k0 := cur, known
								walk(x.Body.List)
								c1, k1 := cur, known
								cur, known = c0, k0
								if eb, ok := x.Else.(*ast.BlockStmt); ok {
									walk(eb.List)
								} else if ei, ok := x.Else.(*ast.IfStmt); ok {
									walk([]ast.Stmt{ei})
								}
								if !k1 || !known || c1 != cur {
									known = false
								}
							}
						case *ast.BlockStmt:
							walk(x.List)
						}
					}
				}
				walk(cc.Body)
				switch {
				case !known:
					r.Fail("E11.implicit-lineto-relativity", key, c.Pos(cc.Pos()), "the command letter left for following pairs cannot be determined")
				case cur != w.want:
					r.Fail("E11.implicit-lineto-relativity", key, c.Pos(cc.Pos()), fmt.Sprintf("after `%c` the letter left for following coordinate pairs is `%c`, SVG makes them `%c`: the pairs are read %s", rune(w.in), rune(cur), rune(w.want), map[bool]string{true: "as absolute positions instead of offsets", false: "as offsets instead of absolute positions"}[w.in == 'm']))
				default:
					r.OK("E11.implicit-lineto-relativity", key, c.Pos(cc.Pos()), "")
				}
			}
		}
		return true
	})
	r.Count("E11.moveto-letter-worlds", n)
	r.Floor("E11.moveto-letter-worlds", 2)
}

// E11ArcShortcutOrientation: a shortcut in Transform's arc case that carries the rotation over by addition excludes reflections.
func E11ArcShortcutOrientation(c *core.Ctx, r *core.Report) {
	r.Rule("E11.arc-shortcut-orientation", "Path.Transform maps an elliptical arc through the conic of its ellipse; a branch of the arc case may replace that computation by a closed form. A closed form that carries the stored rotation over by addition (`phi = phi + rot`) is right for rotations and uniform scalings only: under a reflection the axis direction θ becomes α − θ, not θ + α. Every assignment in the arc case that adds to the rotation variable must therefore lie under a test of the orientation of the matrix — a conjunct, in one of the enclosing conditions, that reads the determinant or both scale factors of the decomposition. IsSimilarity alone also holds for `Scale(1,-1)`: the reflected arc keeps its end points and radii and lies on a wrongly tilted ellipse")
	p := c.MustPkg("")
	info := p.TypesInfo
	fd := core.MustFuncDecl(p, "Path.Transform")
	r.Func("canvas.Path.Transform")
	// scale factors of the decomposition
	scales := map[types.Object]bool{}
	ast.Inspect(fd.Body, func(m ast.Node) bool {
		as, ok := m.(*ast.AssignStmt)
		if !ok || len(as.Rhs) != 1 {
			return true
		}
		if ce, ok := core.Unparen(as.Rhs[0]).(*ast.CallExpr); ok {
			if f := core.CalleeOf(info, ce); f != nil && f.Name() == "Decompose" && len(as.Lhs) == 6 {
				for _, k := range []int{3, 4} {
					if id, ok := as.Lhs[k].(*ast.Ident); ok && id.Name != "_" {
						scales[core.ObjOf(info, id)] = true
					}
				}
			}
		}
		return true
	})
	n := 0
	for _, cc := range cmdSwitchClauses(p, fd) {
		isArc := false
		for _, e := range cc.List {
			if core.ConstName(info, e) == "ArcToCmd" {
				isArc = true
			}
		}
		if !isArc {
			continue
		}
		// the rotation variable: assigned from p.d[i+3]
		var phi types.Object
		for _, st := range cc.Body {
			as, ok := st.(*ast.AssignStmt)
			if !ok {
				continue
			}
			for i, rh := range as.Rhs {
				if ie, _, ok := dataIndex(info, core.Unparen(rh)); ok && len(as.Lhs) == len(as.Rhs) {
					if be, ok := core.Unparen(ie.Index).(*ast.BinaryExpr); ok && be.Op == token.ADD {
						if v, ok := core.ConstInt(info, be.Y); ok && v == 3 {
							if id, ok := as.Lhs[i].(*ast.Ident); ok {
								phi = core.ObjOf(info, id)
							}
						}
					}
				}
			}
		}
		if phi == nil {
			continue
		}
		for _, st := range cc.Body {
			walkStack(st, func(q ast.Node, stack []ast.Node) {
				as, ok := q.(*ast.AssignStmt)
				if !ok {
					return
				}
				additive := false
				for i, l := range as.Lhs {
					if id, ok := l.(*ast.Ident); ok && core.ObjOf(info, id) == phi && i < len(as.Rhs) {
						isConst := func(e ast.Expr) bool { tv, ok := info.Types[e]; return ok && tv.Value != nil }
						// a constant step (the half turn that normalises the angle) is not a rotation by the matrix
						if (as.Tok == token.ADD_ASSIGN || as.Tok == token.SUB_ASSIGN) && !isConst(as.Rhs[i]) {
							additive = true
						}
						ast.Inspect(as.Rhs[i], func(k ast.Node) bool {
							if be, ok := k.(*ast.BinaryExpr); ok && (be.Op == token.ADD || be.Op == token.SUB) && !isConst(be.X) && !isConst(be.Y) {
								ast.Inspect(be, func(z ast.Node) bool {
									if zid, ok := z.(*ast.Ident); ok && core.ObjOf(info, zid) == phi {
										additive = true
									}
									return true
								})
							}
							return true
						})
					}
				}
				if !additive {
					return
				}
				n++
				key := fmt.Sprintf("canvas.Path.Transform|arc rotation carried over by addition #%d excludes reflections", n)
				oriented := false
				var conds []string
				all := append([]ast.Node{st}, stack...)
				for _, a := range all {
					is, ok := a.(*ast.IfStmt)
					if !ok {
						continue
					}
					conds = append(conds, c.Src(is.Cond))
					for _, t := range andTerms(is.Cond) {
						det, sc := false, 0
						ast.Inspect(t, func(z ast.Node) bool {
							switch x := z.(type) {
							case *ast.CallExpr:
								if f := core.CalleeOf(info, x); f != nil && f.Name() == "Det" {
									det = true
								}
							case *ast.Ident:
								if scales[core.ObjOf(info, x)] {
									sc++
								}
							}
							return true
						})
						if det || sc >= 2 {
							oriented = true
						}
					}
				}
				if oriented {
					r.OK("E11.arc-shortcut-orientation", key, c.Pos(as.Pos()), strings.Join(conds, " / "))
				} else {
					r.Fail("E11.arc-shortcut-orientation", key, c.Pos(as.Pos()), fmt.Sprintf("`%s` carries the stored rotation over by addition under `%s`, and no condition on the way reads the orientation of the matrix: under a reflection the axis turns the other way (α − φ), so the arc lies on a wrongly tilted ellipse", c.Src(as), strings.Join(conds, " / ")))
				}
			})
		}
	}
	// no shortcut today: the rule is exercised by its mutant
	r.Count("E11.arc-shortcuts-additive", n)
}
