package rules

import (
	"fmt"
	"go/ast"
	"go/token"
	"go/types"
	"strings"

	"canvascheck/internal/core"
)

// E11 — small typestate/consistency rules (DESIGN.md §2 E11).

// E11SplitCap: Split hands out capacity-limited sub-slices.
func E11SplitCap(c *core.Ctx, r *core.Report) {
	r.Rule("E11.split-cap", "Path.Split: every sub-slice of p.d placed in a result path is a 3-index slice p.d[i:j:j] (capacity limited to its length), so that appending to a sub-path reallocates instead of overwriting the following sub-path of the receiver")
	p := c.MustPkg("")
	info := p.TypesInfo
	fd := core.MustFuncDecl(p, "Path.Split")
	r.Func("canvas.Path.Split")
	n := 0
	ast.Inspect(fd.Body, func(nd ast.Node) bool {
		se, ok := nd.(*ast.SliceExpr)
		if !ok || !core.IsPathDataSel(info, se.X) {
			return true
		}
		n++
		key := fmt.Sprintf("canvas.Path.Split|sub-slice #%d", n)
		if se.Slice3 && se.High != nil && se.Max != nil && types.ExprString(se.High) == types.ExprString(se.Max) {
			r.OK("E11.split-cap", key, c.Pos(se.Pos()), types.ExprString(se))
		} else {
			r.Fail("E11.split-cap", key, c.Pos(se.Pos()), fmt.Sprintf("`%s` shares spare capacity with the rest of the receiver's data: Join/LineTo/Close on the returned sub-path overwrite the receiver's next sub-path", types.ExprString(se)))
		}
		return true
	})
	r.Count("E11.split-slices", n)
	r.Floor("E11.split-slices", 2)
}

// E11StuckVariables: a local initialised to a constant, never assigned again, yet used as loop state.
func E11StuckVariables(c *core.Ctx, r *core.Report) {
	r.Rule("E11.stuck", "a local variable initialised to a constant and never assigned again is not compared with a parameter inside a loop nor used as a slice bound (such a variable was meant to be advanced by the loop; the comparison or slice is decided once and for all)")
	p := c.MustPkg("")
	info := p.TypesInfo
	total := 0
	for _, fd := range core.AllFuncDecls(p) {
		params := map[types.Object]bool{}
		for _, f := range fd.Type.Params.List {
			for _, n := range f.Names {
				params[info.Defs[n]] = true
			}
		}
		// candidates: defined with := from constants at function level
		cands := map[types.Object]*ast.Ident{}
		assigned := map[types.Object]bool{}
		ast.Inspect(fd.Body, func(n ast.Node) bool {
			switch x := n.(type) {
			case *ast.AssignStmt:
				if x.Tok == token.DEFINE && len(x.Lhs) == len(x.Rhs) {
					for i, l := range x.Lhs {
						id, ok := l.(*ast.Ident)
						if !ok || id.Name == "_" {
							continue
						}
						if _, isConst := core.ConstInt(info, x.Rhs[i]); isConst {
							if o := info.Defs[id]; o != nil {
								if b, ok := o.Type().Underlying().(*types.Basic); ok && b.Info()&types.IsInteger != 0 {
									cands[o] = id
								}
							}
						}
					}
				} else {
					for _, l := range x.Lhs {
						if id, ok := l.(*ast.Ident); ok {
							assigned[core.ObjOf(info, id)] = true
						}
					}
				}
			case *ast.IncDecStmt:
				if id, ok := x.X.(*ast.Ident); ok {
					assigned[core.ObjOf(info, id)] = true
				}
			case *ast.UnaryExpr:
				if x.Op == token.AND {
					if id, ok := core.Unparen(x.X).(*ast.Ident); ok {
						assigned[core.ObjOf(info, id)] = true // address taken
					}
				}
			}
			return true
		})
		if len(cands) == 0 {
			continue
		}
		// uses inside loops
		var inLoop func(n ast.Node, depth int)
		report := func(o types.Object, pos token.Pos, how string) {
			total++
			key := fmt.Sprintf("canvas.%s|%s", core.FuncName(fd), o.Name())
			r.Fail("E11.stuck", key, c.Pos(pos), fmt.Sprintf("`%s` is initialised to a constant and never assigned again, but %s; the loop cannot make progress on it (the query returns a default or panics instead of the requested segment)", o.Name(), how))
		}
		inLoop = func(n ast.Node, depth int) {
			ast.Inspect(n, func(m ast.Node) bool {
				switch x := m.(type) {
				case *ast.ForStmt:
					if x != n {
						inLoop(x.Body, depth+1)
						if x.Cond != nil && depth+1 > 0 {
							inLoop(x.Cond, depth+1)
						}
						return false
					}
				case *ast.RangeStmt:
					if x != n {
						inLoop(x.Body, depth+1)
						return false
					}
				case *ast.BinaryExpr:
					if depth == 0 {
						return true
					}
					switch x.Op {
					case token.LSS, token.LEQ, token.GTR, token.GEQ, token.EQL, token.NEQ:
						a, _ := core.Unparen(x.X).(*ast.Ident)
						b, _ := core.Unparen(x.Y).(*ast.Ident)
						if a != nil && b != nil {
							oa, ob := core.ObjOf(info, a), core.ObjOf(info, b)
							if cands[oa] != nil && !assigned[oa] && params[ob] {
								report(oa, x.Pos(), fmt.Sprintf("compared with parameter `%s` inside a loop", b.Name))
							}
							if cands[ob] != nil && !assigned[ob] && params[oa] {
								report(ob, x.Pos(), fmt.Sprintf("compared with parameter `%s` inside a loop", a.Name))
							}
						}
					}
				case *ast.SliceExpr:
					for _, e := range []ast.Expr{x.Low, x.High, x.Max} {
						if id, ok := e.(*ast.Ident); ok {
							if o := core.ObjOf(info, id); cands[o] != nil && !assigned[o] && depth > 0 {
								report(o, x.Pos(), "used as a slice bound inside a loop")
							}
						}
					}
				}
				return true
			})
		}
		inLoop(fd.Body, 0)
		r.Count("E11.stuck-candidates", len(cands))
	}
	if total == 0 {
		r.OK("E11.stuck", "canvas|no stuck loop variables", "", "")
	}
	r.Floor("E11.stuck-candidates", 50)
}

// E11InPlaceInLoop: an in-place transform applied in a loop to a value defined outside the loop accumulates.
func E11InPlaceInLoop(c *core.Ctx, r *core.Report) {
	r.Rule("E11.accumulate", "Transform/Translate/Scale/Gridsnap modify their receiver in place: calling one inside a loop on a path variable that is defined outside the loop (and not re-copied in the loop) accumulates the transformation over the iterations")
	p := c.MustPkg("")
	info := p.TypesInfo
	inplace := map[string]bool{"Transform": true, "Translate": true, "Scale": true, "Gridsnap": true}
	total, sites := 0, 0
	for _, rel := range modulePkgRels {
		pk := c.MustPkg(rel)
		pinfo := pk.TypesInfo
		_ = info
		for _, fd := range core.AllFuncDecls(pk) {
			var walk func(n ast.Node, loops []ast.Node)
			walk = func(n ast.Node, loops []ast.Node) {
				ast.Inspect(n, func(m ast.Node) bool {
					switch x := m.(type) {
					case *ast.ForStmt:
						if ast.Node(x) != n {
							walk(x.Body, append(loops, x))
							return false
						}
					case *ast.RangeStmt:
						if ast.Node(x) != n {
							walk(x.Body, append(loops, x))
							return false
						}
					case *ast.CallExpr:
						if len(loops) == 0 {
							return true
						}
						se, ok := x.Fun.(*ast.SelectorExpr)
						if !ok || !inplace[se.Sel.Name] {
							return true
						}
						f := core.CalleeOf(pinfo, x)
						if f == nil || !strings.HasPrefix(core.QualifiedCallee(f), core.Module+".Path.") {
							return true
						}
						id, ok := core.Unparen(se.X).(*ast.Ident)
						if !ok {
							return true // receiver is an expression (p.Copy().Transform): a fresh value
						}
						sites++
						o := core.ObjOf(pinfo, id)
						// defined (or re-assigned) inside the innermost loop?
						inner := loops[len(loops)-1]
						definedInside := o != nil && o.Pos() >= inner.Pos() && o.Pos() <= inner.End()
						reassigned := false
						ast.Inspect(inner, func(k ast.Node) bool {
							if as, ok := k.(*ast.AssignStmt); ok {
								for _, l := range as.Lhs {
									if lid, ok := l.(*ast.Ident); ok && core.ObjOf(pinfo, lid) == o {
										reassigned = true
									}
								}
							}
							return true
						})
						if !definedInside && !reassigned {
							total++
							pkn := "canvas"
							if rel != "" {
								pkn = rel
							}
							r.Fail("E11.accumulate", fmt.Sprintf("%s.%s|%s.%s", pkn, core.FuncName(fd), id.Name, se.Sel.Name), c.Pos(x.Pos()), fmt.Sprintf("`%s.%s(…)` modifies `%s` in place on every iteration; `%s` is defined outside the loop, so iteration k sees the sum of the first k transformations", id.Name, se.Sel.Name, id.Name, id.Name))
						}
					}
					return true
				})
			}
			walk(fd.Body, nil)
		}
	}
	r.Count("E11.inplace-in-loop-sites", sites)
	if total == 0 {
		r.OK("E11.accumulate", "canvas|no accumulating in-place transform", "", fmt.Sprintf("%d in-place calls inside loops examined", sites))
	}
}

// ---- Context / Canvas rules (C15) ----

func ctxFieldPath(info *types.Info, e ast.Expr, recv types.Object) ([]string, bool) {
	// returns the selector names from the receiver to the selected field, e.g. c.Style.Fill -> [Style Fill]
	var names []string
	for {
		switch x := core.Unparen(e).(type) {
		case *ast.SelectorExpr:
			names = append([]string{x.Sel.Name}, names...)
			e = x.X
			continue
		case *ast.IndexExpr:
			e = x.X
			continue
		case *ast.Ident:
			if core.ObjOf(info, x) == recv {
				return names, true
			}
		}
		return nil, false
	}
}

// E11ContextState: setters, Push/Pop, Fill/Stroke save-restore.
func E11ContextState(c *core.Ctx, r *core.Report) {
	r.Rule("E11.ctx-setter", "every exported Set*/Reset* method of Context stores only into fields of ContextState (style, view, coordinate view/system), never into the stack, the pending path or the renderer")
	r.Rule("E11.ctx-stack", "Push appends the whole ContextState value to the stack; Pop (guarded against an empty stack) restores the whole last element and shrinks the stack by exactly one")
	r.Rule("E11.ctx-restore", "Fill clears and restores exactly Style.Stroke around its DrawPath, Stroke exactly Style.Fill, on every exit")
	p := c.MustPkg("")
	info := p.TypesInfo
	ctxObj := p.Types.Scope().Lookup("Context")
	csObj := p.Types.Scope().Lookup("ContextState")
	if ctxObj == nil || csObj == nil {
		panic(core.Infra("Context/ContextState types not found"))
	}
	stateFields := map[string]bool{"ContextState": true}
	st := csObj.Type().Underlying().(*types.Struct)
	for i := 0; i < st.NumFields(); i++ {
		stateFields[st.Field(i).Name()] = true
		if st.Field(i).Embedded() {
			if es, ok := st.Field(i).Type().Underlying().(*types.Struct); ok {
				for j := 0; j < es.NumFields(); j++ {
					stateFields[es.Field(j).Name()] = true
				}
			}
		}
	}
	nSetters := 0
	for _, fd := range core.AllFuncDecls(p) {
		if core.RecvName(fd) != "Context" || !fd.Name.IsExported() {
			continue
		}
		name := fd.Name.Name
		if !(strings.HasPrefix(name, "Set") || strings.HasPrefix(name, "Reset")) {
			continue
		}
		nSetters++
		recv := recvObj(info, fd)
		key := "canvas.Context." + name
		r.Func(key)
		bad := ""
		stores := 0
		ast.Inspect(fd.Body, func(n ast.Node) bool {
			as, ok := n.(*ast.AssignStmt)
			if !ok {
				return true
			}
			for _, l := range as.Lhs {
				names, rooted := ctxFieldPath(info, l, recv)
				if !rooted {
					continue // local variable
				}
				stores++
				if len(names) == 0 || !stateFields[names[0]] {
					bad = fmt.Sprintf("stores into c.%s, which is not part of the saved/restored ContextState", strings.Join(names, "."))
				}
			}
			return true
		})
		if bad != "" {
			r.Fail("E11.ctx-setter", key, c.Pos(fd.Pos()), bad)
		} else if stores == 0 {
			// a setter that only forwards to the renderer (SetZIndex) keeps no state in the context
			r.OK("E11.ctx-setter", key, c.Pos(fd.Pos()), "stores nothing in the context (forwards to the renderer)")
		} else {
			r.OK("E11.ctx-setter", key, c.Pos(fd.Pos()), fmt.Sprintf("%d stores", stores))
		}
	}
	r.Count("E11.ctx-setters", nSetters)
	r.Floor("E11.ctx-setters", 20)

	// Push / Pop
	push := core.MustFuncDecl(p, "Context.Push")
	okPush := false
	if len(push.Body.List) == 1 {
		if as, ok := push.Body.List[0].(*ast.AssignStmt); ok && len(as.Lhs) == 1 && len(as.Rhs) == 1 {
			if types.ExprString(as.Lhs[0]) == "c.stack" && strings.ReplaceAll(types.ExprString(as.Rhs[0]), " ", "") == "append(c.stack,c.ContextState)" {
				okPush = true
			}
		}
	}
	if okPush {
		r.OK("E11.ctx-stack", "canvas.Context.Push", c.Pos(push.Pos()), "c.stack = append(c.stack, c.ContextState)")
	} else {
		r.Fail("E11.ctx-stack", "canvas.Context.Push", c.Pos(push.Pos()), "Push is not `c.stack = append(c.stack, c.ContextState)`: part of the state (style, view, coordinate view or system) would not be saved")
	}
	pop := core.MustFuncDecl(p, "Context.Pop")
	guard, restore, shrink := false, false, false
	for _, s := range pop.Body.List {
		switch x := s.(type) {
		case *ast.IfStmt:
			if strings.ReplaceAll(types.ExprString(x.Cond), " ", "") == "len(c.stack)==0" && len(x.Body.List) == 1 {
				if _, ok := x.Body.List[0].(*ast.ReturnStmt); ok {
					guard = true
				}
			}
		case *ast.AssignStmt:
			if len(x.Lhs) == 1 && len(x.Rhs) == 1 {
				l, rr := types.ExprString(x.Lhs[0]), strings.ReplaceAll(types.ExprString(x.Rhs[0]), " ", "")
				if l == "c.ContextState" && rr == "c.stack[len(c.stack)-1]" && !shrink {
					restore = true
				}
				if l == "c.stack" && rr == "c.stack[:len(c.stack)-1]" && restore {
					shrink = true
				}
			}
		}
	}
	if guard && restore && shrink && len(pop.Body.List) == 3 {
		r.OK("E11.ctx-stack", "canvas.Context.Pop", c.Pos(pop.Pos()), "guard; restore whole state; shrink by one")
	} else {
		r.Fail("E11.ctx-stack", "canvas.Context.Pop", c.Pos(pop.Pos()), fmt.Sprintf("Pop does not (guard=%v) return on an empty stack, (restore=%v) restore the whole ContextState from the last element and then (shrink=%v) drop exactly that element", guard, restore, shrink))
	}

	// Fill / Stroke
	for fn, cleared := range map[string]string{"Context.Fill": "c.Style.Stroke", "Context.Stroke": "c.Style.Fill"} {
		fd := core.MustFuncDecl(p, fn)
		key := "canvas." + fn
		var saved string
		stage := 0 // 1 saved, 2 cleared, 3 drawn, 4 restored
		hasReturn := false
		for _, s := range fd.Body.List {
			switch x := s.(type) {
			case *ast.ReturnStmt:
				hasReturn = true
			case *ast.AssignStmt:
				if len(x.Lhs) != 1 || len(x.Rhs) != 1 {
					continue
				}
				l, rr := types.ExprString(x.Lhs[0]), types.ExprString(x.Rhs[0])
				switch {
				case stage == 0 && x.Tok == token.DEFINE && rr == cleared:
					saved, stage = l, 1
				case stage == 1 && l == cleared && rr == "Paint{}":
					stage = 2
				case stage == 3 && l == cleared && rr == saved:
					stage = 4
				case l == "c.Style.Fill" || l == "c.Style.Stroke":
					stage = -10 // some other paint is modified
				}
			case *ast.ExprStmt:
				if call, ok := x.X.(*ast.CallExpr); ok {
					if f := core.CalleeOf(info, call); f != nil && f.Name() == "DrawPath" && stage == 2 {
						stage = 3
					}
				}
			}
		}
		ast.Inspect(fd.Body, func(n ast.Node) bool {
			if _, ok := n.(*ast.ReturnStmt); ok {
				hasReturn = true
			}
			return true
		})
		if stage == 4 && !hasReturn {
			r.OK("E11.ctx-restore", key, c.Pos(fd.Pos()), "save "+cleared+"; clear; DrawPath; restore")
		} else {
			r.Fail("E11.ctx-restore", key, c.Pos(fd.Pos()), fmt.Sprintf("%s does not save, clear and restore exactly %s around its DrawPath on every exit (reached stage %d, early return %v): a later draw would use the wrong paint", fn, cleared, stage, hasReturn))
		}
	}
}

// E11ViewComposition: view helpers post-multiply; draw entry points assemble the same matrix.
func E11ViewComposition(c *core.Ctx, r *core.Report) {
	r.Rule("E11.view-postmul", "each Context view method M (Translate, Rotate, Scale, Shear, Reflect*, *About) is `c.view = c.view.Mul(Identity.M(its own parameters in order))` and ComposeView is `c.view = c.view.Mul(view)`: the new transformation is post-multiplied and is the one the method is named after")
	r.Rule("E11.draw-matrix", "FitImage, DrawPath, DrawText and DrawImage all build CoordSystemView().Mul(view).Translate(coordView.Dot(x,y)) (sibling agreement), and compensate text/images with a Y reflection exactly in the coordinate systems whose CoordSystemView reflects Y and an X reflection exactly where it reflects X")
	p := c.MustPkg("")
	info := p.TypesInfo
	methods := []string{"Translate", "ReflectX", "ReflectXAbout", "ReflectY", "ReflectYAbout", "Rotate", "RotateAbout", "Scale", "ScaleAbout", "Shear", "ShearAbout"}
	nosp := func(s string) string { return strings.ReplaceAll(s, " ", "") }
	for _, m := range append([]string{"ComposeView"}, methods...) {
		fd := core.MustFuncDecl(p, "Context."+m)
		key := "canvas.Context." + m
		r.Func(key)
		var params []string
		for _, f := range fd.Type.Params.List {
			for _, n := range f.Names {
				params = append(params, n.Name)
			}
		}
		want := "c.view.Mul(Identity." + m + "(" + strings.Join(params, ",") + "))"
		if m == "ComposeView" {
			want = "c.view.Mul(" + params[0] + ")"
		}
		ok := false
		got := ""
		if len(fd.Body.List) == 1 {
			if as, isAs := fd.Body.List[0].(*ast.AssignStmt); isAs && as.Tok == token.ASSIGN && len(as.Lhs) == 1 && len(as.Rhs) == 1 && types.ExprString(as.Lhs[0]) == "c.view" {
				got = nosp(types.ExprString(as.Rhs[0]))
				ok = got == want
			}
		}
		r.Count("E11.view-methods", 1)
		if ok {
			r.OK("E11.view-postmul", key, c.Pos(fd.Pos()), want)
		} else {
			r.Fail("E11.view-postmul", key, c.Pos(fd.Pos()), fmt.Sprintf("body is `%s`, expected `c.view = %s` (post-multiplication by the transformation of the same name, parameters in order)", got, want))
		}
	}
	r.Floor("E11.view-methods", 12)

	// CoordSystemView table: which systems reflect X / Y
	csv := core.MustFuncDecl(p, "Context.CoordSystemView")
	reflX, reflY := map[string]bool{}, map[string]bool{}
	ast.Inspect(csv.Body, func(n ast.Node) bool {
		cc, ok := n.(*ast.CaseClause)
		if !ok || len(cc.Body) != 1 {
			return true
		}
		ret, ok := cc.Body[0].(*ast.ReturnStmt)
		if !ok {
			return true
		}
		s := types.ExprString(ret.Results[0])
		for _, k := range core.CaseConsts(info, cc) {
			if strings.Contains(s, "ReflectXAbout(c.Width()") {
				reflX[k] = true
			}
			if strings.Contains(s, "ReflectYAbout(c.Height()") {
				reflY[k] = true
			}
		}
		return true
	})
	wantX, wantY := map[string]bool{"CartesianII": true, "CartesianIII": true}, map[string]bool{"CartesianIII": true, "CartesianIV": true}
	if setEq(reflX, wantX) && setEq(reflY, wantY) {
		r.OK("E11.draw-matrix", "canvas.Context.CoordSystemView|table", c.Pos(csv.Pos()), "X reflected in II,III; Y reflected in III,IV (origin at the corresponding corner)")
	} else {
		r.Fail("E11.draw-matrix", "canvas.Context.CoordSystemView|table", c.Pos(csv.Pos()), fmt.Sprintf("X is reflected about the canvas centre in {%s} and Y in {%s}; quadrant II/III need X and III/IV need Y", setStr(reflX), setStr(reflY)))
	}
	// draw entry points
	for _, fn := range []string{"FitImage", "DrawPath", "DrawText", "DrawImage"} {
		fd := core.MustFuncDecl(p, "Context."+fn)
		key := "canvas.Context." + fn
		r.Func(key)
		// unfold the chain that ends in .Translate(coord.X, coord.Y)
		defs := map[string]string{}
		var chainStr string
		coordOK := false
		for _, s := range fd.Body.List {
			as, ok := s.(*ast.AssignStmt)
			if !ok || len(as.Lhs) != 1 || len(as.Rhs) != 1 {
				continue
			}
			l, rr := types.ExprString(as.Lhs[0]), nosp(c.Src(as.Rhs[0]))
			if l == "coord" {
				coordOK = strings.HasPrefix(rr, "c.coordView.Dot(Point{") && (strings.Contains(rr, "{x,y}") || strings.Contains(rr, "{X:x,Y:y}"))
			}
			if strings.Contains(rr, ".Translate(coord.X,coord.Y)") && chainStr == "" {
				// substitute a leading local by its definition
				for name, d := range defs {
					if strings.HasPrefix(rr, name+".") {
						rr = d + rr[len(name):]
					}
				}
				chainStr = rr
			}
			defs[l] = rr
		}
		want := "c.CoordSystemView().Mul(c.view).Translate(coord.X,coord.Y)"
		if chainStr == want && coordOK {
			r.OK("E11.draw-matrix", key+"|matrix", c.Pos(fd.Pos()), want)
		} else {
			r.Fail("E11.draw-matrix", key+"|matrix", c.Pos(fd.Pos()), fmt.Sprintf("the draw matrix is `%s` (coord from coordView.Dot(x,y): %v); the sibling entry points use `%s`", chainStr, coordOK, want))
		}
		if fn == "DrawPath" {
			continue
		}
		// compensation conditions
		gotX, gotY := map[string]bool{}, map[string]bool{}
		for _, s := range fd.Body.List {
			is, ok := s.(*ast.IfStmt)
			if !ok || len(is.Body.List) != 1 {
				continue
			}
			bas, isAs := is.Body.List[0].(*ast.AssignStmt)
			if !isAs || len(bas.Rhs) != 1 {
				continue
			}
			body := nosp(types.ExprString(bas.Rhs[0]))
			set := map[string]bool{}
			okCond := true
			var collect func(e ast.Expr)
			collect = func(e ast.Expr) {
				be, ok := core.Unparen(e).(*ast.BinaryExpr)
				if !ok {
					okCond = false
					return
				}
				if be.Op == token.LOR {
					collect(be.X)
					collect(be.Y)
					return
				}
				if be.Op == token.EQL && types.ExprString(be.X) == "c.coordSystem" {
					set[core.ConstName(info, be.Y)] = true
					return
				}
				okCond = false
			}
			collect(is.Cond)
			if !okCond {
				continue
			}
			switch {
			case strings.HasPrefix(body, "m.ReflectY"):
				for k := range set {
					gotY[k] = true
				}
			case strings.HasPrefix(body, "m.ReflectX"):
				for k := range set {
					gotX[k] = true
				}
			}
		}
		if setEq(gotX, reflX) && setEq(gotY, reflY) {
			r.OK("E11.draw-matrix", key+"|upright compensation", c.Pos(fd.Pos()), "reflects back exactly where CoordSystemView reflects")
		} else {
			r.Fail("E11.draw-matrix", key+"|upright compensation", c.Pos(fd.Pos()), fmt.Sprintf("compensates X in {%s} and Y in {%s}, but CoordSystemView reflects X in {%s} and Y in {%s}: text/images come out mirrored in some coordinate system", setStr(gotX), setStr(gotY), setStr(reflX), setStr(reflY)))
		}
	}
}

// E11Replay: RenderViewTo replays in ascending z-index, then drawing order, outside any map range.
func E11Replay(c *core.Ctx, r *core.Report) {
	r.Rule("E11.replay-order", "Canvas.RenderViewTo collects the z-indices, sorts them ascending, and only then calls the renderer, iterating the sorted indices and each layer slice in order; no renderer call happens inside a range over the layers map; recording appends to the slice of the current z-index")
	p := c.MustPkg("")
	info := p.TypesInfo
	fd := core.MustFuncDecl(p, "Canvas.RenderViewTo")
	r.Func("canvas.Canvas.RenderViewTo")
	stage := 0
	var zs string
	bad := ""
	for _, s := range fd.Body.List {
		switch x := s.(type) {
		case *ast.RangeStmt:
			_, isMap := info.TypeOf(x.X).Underlying().(*types.Map)
			hasRender := false
			ast.Inspect(x.Body, func(n ast.Node) bool {
				if call, ok := n.(*ast.CallExpr); ok {
					if se, ok := call.Fun.(*ast.SelectorExpr); ok && strings.HasPrefix(se.Sel.Name, "Render") {
						hasRender = true
					}
				}
				return true
			})
			if isMap {
				if hasRender {
					bad = "the renderer is called inside a range over the layers map (random order)"
				}
				if stage == 1 && x.Value == nil {
					stage = 2
				}
			} else if hasRender {
				if stage == 3 && types.ExprString(x.X) == zs {
					// inner loop must range over c.layers[zindex] by index order
					inner := false
					for _, is := range x.Body.List {
						if ir, ok := is.(*ast.RangeStmt); ok && strings.HasPrefix(types.ExprString(ir.X), "c.layers[") {
							inner = true
						}
					}
					if inner {
						stage = 4
					}
				} else {
					bad = "renderer calls happen before the z-indices are sorted"
				}
			}
		case *ast.AssignStmt:
			if stage == 0 && len(x.Lhs) == 1 {
				zs = types.ExprString(x.Lhs[0])
				stage = 1
			}
		case *ast.ExprStmt:
			if call, ok := x.X.(*ast.CallExpr); ok && stage == 2 {
				if f := core.CalleeOf(info, call); f != nil && f.Pkg() != nil && f.Pkg().Path() == "sort" && f.Name() == "Ints" && types.ExprString(call.Args[0]) == zs {
					stage = 3
				}
			}
		}
	}
	if stage == 4 && bad == "" {
		r.OK("E11.replay-order", "canvas.Canvas.RenderViewTo", c.Pos(fd.Pos()), "collect z-indices; sort.Ints; replay per z-index in slice order")
	} else {
		if bad == "" {
			bad = fmt.Sprintf("the collect / sort.Ints / replay sequence was not found (stage %d)", stage)
		}
		r.Fail("E11.replay-order", "canvas.Canvas.RenderViewTo", c.Pos(fd.Pos()), bad)
	}
	// recording appends
	for _, m := range []string{"RenderPath", "RenderText", "RenderImage"} {
		fd := core.MustFuncDecl(p, "Canvas."+m)
		ok := false
		ast.Inspect(fd.Body, func(n ast.Node) bool {
			if as, isAs := n.(*ast.AssignStmt); isAs && len(as.Lhs) == 1 && len(as.Rhs) == 1 {
				l := strings.ReplaceAll(types.ExprString(as.Lhs[0]), " ", "")
				rr := strings.ReplaceAll(types.ExprString(as.Rhs[0]), " ", "")
				if l == "c.layers[c.zindex]" && strings.HasPrefix(rr, "append(c.layers[c.zindex],") {
					ok = true
				}
			}
			return true
		})
		key := "canvas.Canvas." + m + "|records in drawing order"
		if ok {
			r.OK("E11.replay-order", key, c.Pos(fd.Pos()), "c.layers[c.zindex] = append(c.layers[c.zindex], …)")
		} else {
			r.Fail("E11.replay-order", key, c.Pos(fd.Pos()), "the operation is not appended to the layer slice of the current z-index")
		}
	}
}

// E11CutCarried: in SplitAt's cut loops the previous cut position is carried into the next cut.
func E11CutCarried(c *core.Ctx, r *core.Report) {
	r.Rule("E11.cut-carried", "Path.SplitAt: in every curve case's cut loop the cut parameter t := invL(…) is saved into a variable declared before the loop (V = t), and V is read inside the loop: each cut splits the remaining piece relative to the previous cut, not relative to the start of the whole segment (sibling agreement between the quadratic, cubic and arc cases)")
	p := c.MustPkg("")
	info := p.TypesInfo
	fd := core.MustFuncDecl(p, "Path.SplitAt")
	r.Func("canvas.Path.SplitAt")
	n := 0
	for _, cc := range cmdSwitchClauses(p, fd) {
		label := core.CaseLabel(info, cc)
		ast.Inspect(cc, func(nd ast.Node) bool {
			fs, ok := nd.(*ast.ForStmt)
			if !ok || fs.Init != nil || fs.Post != nil || fs.Cond == nil {
				return true
			}
			// find `t := invL(…)`: a call of a local function value
			var cutVar types.Object
			for _, s := range fs.Body.List {
				as, ok := s.(*ast.AssignStmt)
				if !ok || as.Tok != token.DEFINE || len(as.Lhs) != 1 || len(as.Rhs) != 1 {
					continue
				}
				call, ok := core.Unparen(as.Rhs[0]).(*ast.CallExpr)
				if !ok {
					continue
				}
				if id, ok := call.Fun.(*ast.Ident); ok {
					if v, ok := core.ObjOf(info, id).(*types.Var); ok {
						if _, isSig := v.Type().Underlying().(*types.Signature); isSig {
							cutVar = info.Defs[as.Lhs[0].(*ast.Ident)]
						}
					}
				}
			}
			if cutVar == nil {
				return true
			}
			n++
			key := fmt.Sprintf("canvas.Path.SplitAt|%s|cut loop", label)
			// V = t
			var carried types.Object
			var carryStmt ast.Node
			for _, s := range fs.Body.List {
				as, ok := s.(*ast.AssignStmt)
				if !ok || as.Tok != token.ASSIGN || len(as.Lhs) != 1 || len(as.Rhs) != 1 {
					continue
				}
				if rid, ok := core.Unparen(as.Rhs[0]).(*ast.Ident); ok && core.ObjOf(info, rid) == cutVar {
					if lid, ok := as.Lhs[0].(*ast.Ident); ok {
						carried, carryStmt = core.ObjOf(info, lid), as
					}
				}
			}
			if carried == nil {
				r.Fail("E11.cut-carried", key, c.Pos(fs.Pos()), "the cut parameter is not saved for the next iteration: the second cut of one segment would be computed from the segment's start")
				return true
			}
			read := false
			ast.Inspect(fs.Body, func(m ast.Node) bool {
				if m == carryStmt {
					return false
				}
				if id, ok := m.(*ast.Ident); ok && core.ObjOf(info, id) == carried {
					read = true
				}
				return true
			})
			if read {
				r.OK("E11.cut-carried", key, c.Pos(fs.Pos()), carried.Name()+" carries the previous cut and is read in the loop")
			} else {
				r.Fail("E11.cut-carried", key, c.Pos(fs.Pos()), fmt.Sprintf("`%s` remembers the previous cut position but is never read inside the cut loop: a second cut within the same segment is made relative to the segment's start instead of the previous cut (the siblings use it)", carried.Name()))
			}
			return true
		})
	}
	r.Count("E11.cut-loops", n)
	r.Floor("E11.cut-loops", 3)
}
