package rules

import (
	"fmt"
	"go/ast"
	"go/constant"
	"go/token"
	"go/types"
	"math"
	"sort"
	"strings"

	"canvascheck/internal/core"

	"golang.org/x/tools/go/packages"
)

// E2 — path-data decoder discipline (DESIGN.md §2 E2).

// recordLen is the format's definition of each record: cmd, payload…, cmd.
var recordLen = map[string]int{"MoveToCmd": 4, "LineToCmd": 4, "QuadToCmd": 6, "CubeToCmd": 8, "ArcToCmd": 8, "CloseCmd": 4}

// pathVarKey identifies the path a `.d` selection belongs to: root object + selector chain.
func pathVarKey(info *types.Info, x ast.Expr) string {
	root := core.RootIdent(x)
	if root == nil {
		return "?" + types.ExprString(x)
	}
	o := core.ObjOf(info, root)
	return fmt.Sprintf("%s@%p", types.ExprString(x), o)
}

func pathVarName(k string) string {
	if i := strings.Index(k, "@"); i >= 0 {
		return k[:i]
	}
	return k
}

// dataIndex matches `X.d[idx]` on canvas.Path's data field.
func dataIndex(info *types.Info, n ast.Node) (*ast.IndexExpr, string, bool) {
	ie, ok := n.(*ast.IndexExpr)
	if !ok {
		return nil, "", false
	}
	if !core.IsPathDataSel(info, ie.X) {
		return nil, "", false
	}
	se := core.Unparen(ie.X).(*ast.SelectorExpr)
	return ie, pathVarKey(info, se.X), true
}

// cmdLenArg matches a call of canvas.cmdLen and returns its argument.
func cmdLenArg(info *types.Info, e ast.Expr) (ast.Expr, bool) {
	call, ok := core.Unparen(e).(*ast.CallExpr)
	if !ok || len(call.Args) != 1 {
		return nil, false
	}
	f := core.CalleeOf(info, call)
	if f == nil || f.Name() != "cmdLen" || f.Pkg() == nil || f.Pkg().Path() != core.Module {
		return nil, false
	}
	return call.Args[0], true
}

type e2Func struct {
	fd       *ast.FuncDecl
	cmdOwner map[types.Object]map[string]bool // cmd variable -> path keys it was read from
	cmdIndex map[types.Object]types.Object    // cmd variable -> cursor identifier object (when `cmd := A.d[i]` or `cmd := A.d[i-1]`)
	cmdOff   map[types.Object]int             // 0 for `A.d[i]` (first value of the record), -1 for `A.d[i-1]` (last value, reverse decoders)
	cursors  map[types.Object]map[string]bool // cursor -> owning path keys
}

func e2Scan(p *packages.Package, fd *ast.FuncDecl) *e2Func {
	info := p.TypesInfo
	f := &e2Func{fd: fd, cmdOwner: map[types.Object]map[string]bool{}, cmdIndex: map[types.Object]types.Object{}, cmdOff: map[types.Object]int{}, cursors: map[types.Object]map[string]bool{}}
	ast.Inspect(fd.Body, func(n ast.Node) bool {
		as, ok := n.(*ast.AssignStmt)
		if !ok || len(as.Lhs) != len(as.Rhs) {
			return true
		}
		for i, l := range as.Lhs {
			id, ok := l.(*ast.Ident)
			if !ok {
				continue
			}
			if ie, key, ok := dataIndex(info, core.Unparen(as.Rhs[i])); ok && (as.Tok == token.DEFINE || as.Tok == token.ASSIGN) {
				o := core.ObjOf(info, id)
				if f.cmdOwner[o] == nil {
					f.cmdOwner[o] = map[string]bool{}
				}
				f.cmdOwner[o][key] = true
				if cid, ok := core.Unparen(ie.Index).(*ast.Ident); ok {
					f.cmdIndex[o] = core.ObjOf(info, cid)
					f.cmdOff[o] = 0
				} else if _, k, ok := linForm(info, ie.Index); ok && k == -1 {
					if cid, ok := core.Unparen(stripConst(ie.Index)).(*ast.Ident); ok {
						f.cmdIndex[o] = core.ObjOf(info, cid)
						f.cmdOff[o] = -1
					}
				}
			}
		}
		return true
	})
	ast.Inspect(fd.Body, func(n ast.Node) bool {
		as, ok := n.(*ast.AssignStmt)
		if !ok || len(as.Lhs) != 1 || len(as.Rhs) != 1 || (as.Tok != token.ADD_ASSIGN && as.Tok != token.SUB_ASSIGN) {
			return true
		}
		id, ok := as.Lhs[0].(*ast.Ident)
		if !ok {
			return true
		}
		arg, ok := cmdLenArg(info, as.Rhs[0])
		if !ok {
			return true
		}
		owners := map[string]bool{}
		switch a := core.Unparen(arg).(type) {
		case *ast.Ident:
			for k := range f.cmdOwner[core.ObjOf(info, a)] {
				owners[k] = true
			}
		default:
			if _, key, ok := dataIndex(info, a); ok {
				owners[key] = true
			}
		}
		if len(owners) > 0 {
			o := core.ObjOf(info, id)
			if f.cursors[o] == nil {
				f.cursors[o] = map[string]bool{}
			}
			for k := range owners {
				f.cursors[o][k] = true
			}
		}
		return true
	})
	return f
}

// e2Exceptions: reviewed sites where a cursor of one path legitimately indexes another.
var e2Exceptions = map[string]string{
	"canvas.Path.Same": "qr = q.Reverse() has the same data length and record boundaries mirrored; Same is a documented-incomplete test helper outside C09/C10",
}

// E2CursorDomain: a command cursor of path A may only index A.d.
func E2CursorDomain(c *core.Ctx, r *core.Report, onlyFuncs map[string]bool) {
	r.Rule("E2.cursor-domain", "a command cursor advanced by ±cmdLen(A.d[…]) (or by the cmd read from A.d) may only index A.d; indexing B.d with it reads B at A's record boundaries")
	p := c.MustPkg("")
	info := p.TypesInfo
	for _, fd := range core.AllFuncDecls(p) {
		name := "canvas." + core.FuncName(fd)
		if onlyFuncs != nil && !onlyFuncs[core.FuncName(fd)] {
			continue
		}
		f := e2Scan(p, fd)
		if len(f.cursors) == 0 {
			continue
		}
		r.Func(name)
		r.Count("E2.cursors", len(f.cursors))
		type siteAgg struct {
			n   int
			pos token.Pos
			bad []string
		}
		agg := map[string]*siteAgg{}
		ast.Inspect(fd.Body, func(n ast.Node) bool {
			ie, key, ok := dataIndex(info, n)
			if !ok {
				return true
			}
			ast.Inspect(ie.Index, func(m ast.Node) bool {
				// do not look inside nested data indexes (cmdLen(q.d[j]))
				if _, _, nested := dataIndex(info, m); nested {
					return false
				}
				id, ok := m.(*ast.Ident)
				if !ok {
					return true
				}
				owners, isCursor := f.cursors[core.ObjOf(info, id)]
				if !isCursor {
					return true
				}
				r.Count("E2.cursor-sites", 1)
				ck := fmt.Sprintf("%s|cursor %s of %s -> %s.d", name, id.Name, ownersStr(owners), pathVarName(key))
				a := agg[ck]
				if a == nil {
					a = &siteAgg{pos: ie.Pos()}
					agg[ck] = a
				}
				a.n++
				if !owners[key] {
					a.bad = append(a.bad, fmt.Sprintf("%s: %s", c.Pos(ie.Pos()), types.ExprString(ie)))
				}
				return true
			})
			return true
		})
		keys := make([]string, 0, len(agg))
		for k := range agg {
			keys = append(keys, k)
		}
		sort.Strings(keys)
		for _, k := range keys {
			a := agg[k]
			if len(a.bad) == 0 {
				r.OK("E2.cursor-domain", k, c.Pos(a.pos), fmt.Sprintf("%d sites", a.n))
				continue
			}
			if why, ok := e2Exceptions[name]; ok {
				r.OK("E2.cursor-domain", k, c.Pos(a.pos), "reviewed exception: "+why)
				r.Note("E2.cursor-domain exception %s: %s", k, why)
				continue
			}
			r.Fail("E2.cursor-domain", k, c.Pos(a.pos), fmt.Sprintf("%d index expressions read one path's data with the command cursor of another path; for paths with different record boundaries (e.g. several sub-paths) this decodes coordinates from the wrong records", len(a.bad)), a.bad...)
		}
	}
	if onlyFuncs == nil {
		r.Floor("E2.cursors", 30)
		r.Floor("E2.cursor-sites", 400)
	}
}

func ownersStr(m map[string]bool) string {
	var ks []string
	for k := range m {
		ks = append(ks, pathVarName(k)+".d")
	}
	sort.Strings(ks)
	return strings.Join(ks, "/")
}

// cmdConstValue returns the float value of a command constant.
func cmdConstValue(p *packages.Package, name string) (float64, bool) {
	o := p.Types.Scope().Lookup(name)
	cst, ok := o.(*types.Const)
	if !ok {
		return 0, false
	}
	v, _ := constant.Float64Val(cst.Val())
	return v, true
}

// E2CmdLenTable: cmdLens agrees with the format and with the bit trick in cmdLen.
func E2CmdLenTable(c *core.Ctx, r *core.Report) map[string]int {
	r.Rule("E2.cmdlen", "cmdLen(C) evaluated from its own mask/shift expression and the cmdLens table equals the record length of the format for each of the six command constants (4,4,6,8,8,4)")
	p := c.MustPkg("")
	info := p.TypesInfo
	fd := core.MustFuncDecl(p, "cmdLen")
	r.Func("canvas.cmdLen")
	// table
	var table []int64
	for _, f := range p.Syntax {
		for _, d := range f.Decls {
			gd, ok := d.(*ast.GenDecl)
			if !ok {
				continue
			}
			for _, s := range gd.Specs {
				vs, ok := s.(*ast.ValueSpec)
				if !ok || len(vs.Names) != 1 || vs.Names[0].Name != "cmdLens" || len(vs.Values) != 1 {
					continue
				}
				if cl, ok := vs.Values[0].(*ast.CompositeLit); ok {
					for _, e := range cl.Elts {
						if v, ok := core.ConstInt(info, e); ok {
							table = append(table, v)
						}
					}
				}
			}
		}
	}
	if len(table) == 0 {
		panic(core.Infra("cmdLens table not found"))
	}
	// body: n := <expr over math.Float64bits(cmd)>; return cmdLens[n]
	var nExpr ast.Expr
	var nObj types.Object
	ast.Inspect(fd.Body, func(n ast.Node) bool {
		if as, ok := n.(*ast.AssignStmt); ok && len(as.Lhs) == 1 && len(as.Rhs) == 1 {
			if id, ok := as.Lhs[0].(*ast.Ident); ok {
				nObj, nExpr = core.ObjOf(info, id), as.Rhs[0]
			}
		}
		return true
	})
	retOK := false
	ast.Inspect(fd.Body, func(n ast.Node) bool {
		if ret, ok := n.(*ast.ReturnStmt); ok && len(ret.Results) == 1 {
			if ie, ok := core.Unparen(ret.Results[0]).(*ast.IndexExpr); ok {
				if id, ok := core.Unparen(ie.Index).(*ast.Ident); ok && core.ObjOf(info, id) == nObj {
					if tid, ok := core.Unparen(ie.X).(*ast.Ident); ok && tid.Name == "cmdLens" {
						retOK = true
					}
				}
			}
		}
		return true
	})
	out := map[string]int{}
	if nExpr == nil || !retOK {
		r.Fail("E2.cmdlen", "canvas.cmdLen|shape", c.Pos(fd.Pos()), "cmdLen is not `n := f(math.Float64bits(cmd)); return cmdLens[n]`; cannot evaluate it")
		return recordLen
	}
	var eval func(e ast.Expr, bits uint64) (uint64, bool)
	eval = func(e ast.Expr, bits uint64) (uint64, bool) {
		e = core.Unparen(e)
		if cv := core.ConstVal(info, e); cv != nil {
			u, ok := constant.Uint64Val(constant.ToInt(cv))
			return u, ok
		}
		switch x := e.(type) {
		case *ast.CallExpr:
			if name, _ := core.MathFunc(info, x); name == "Float64bits" {
				return bits, true
			}
			// conversion
			if tv, ok := info.Types[x.Fun]; ok && tv.IsType() && len(x.Args) == 1 {
				v, ok := eval(x.Args[0], bits)
				if !ok {
					return 0, false
				}
				if b, ok := tv.Type.Underlying().(*types.Basic); ok {
					switch b.Kind() {
					case types.Uint8:
						return uint64(uint8(v)), true
					case types.Uint16:
						return uint64(uint16(v)), true
					case types.Uint32:
						return uint64(uint32(v)), true
					case types.Uint64, types.Uint, types.Int, types.Int64:
						return v, true
					}
				}
			}
		case *ast.BinaryExpr:
			a, ok1 := eval(x.X, bits)
			b, ok2 := eval(x.Y, bits)
			if !ok1 || !ok2 {
				return 0, false
			}
			// result type decides wrap-around
			wrap := func(v uint64) uint64 {
				if bt, ok := info.TypeOf(x).Underlying().(*types.Basic); ok {
					switch bt.Kind() {
					case types.Uint8:
						return uint64(uint8(v))
					case types.Uint16:
						return uint64(uint16(v))
					case types.Uint32:
						return uint64(uint32(v))
					}
				}
				return v
			}
			switch x.Op {
			case token.AND:
				return wrap(a & b), true
			case token.SHR:
				return wrap(a >> b), true
			case token.SHL:
				return wrap(a << b), true
			case token.ADD:
				return wrap(a + b), true
			case token.SUB:
				return wrap(a - b), true
			case token.OR:
				return wrap(a | b), true
			}
		}
		return 0, false
	}
	names := []string{"MoveToCmd", "LineToCmd", "QuadToCmd", "CubeToCmd", "ArcToCmd", "CloseCmd"}
	for _, name := range names {
		v, ok := cmdConstValue(p, name)
		key := "canvas.cmdLen|" + name
		if !ok {
			r.Fail("E2.cmdlen", key, "", "command constant not found")
			continue
		}
		n, ok := eval(nExpr, math.Float64bits(v))
		r.Count("E2.cmdlen-evals", 1)
		if !ok || int(n) >= len(table) {
			r.Fail("E2.cmdlen", key, c.Pos(fd.Pos()), fmt.Sprintf("index expression cannot be evaluated or is out of the table's range for %s=%v", name, v))
			continue
		}
		out[name] = int(table[n])
		if int(table[n]) != recordLen[name] {
			r.Fail("E2.cmdlen", key, c.Pos(fd.Pos()), fmt.Sprintf("cmdLen(%s) = cmdLens[%d] = %d, the record has %d values", name, n, table[n], recordLen[name]))
		} else {
			r.OK("E2.cmdlen", key, c.Pos(fd.Pos()), fmt.Sprintf("cmdLens[%d]=%d", n, table[n]))
		}
	}
	r.Floor("E2.cmdlen-evals", 6)
	return recordLen
}

// E2RecordConstruction: every record appended or written as a literal is well-formed.
func E2RecordConstruction(c *core.Ctx, r *core.Report) {
	r.Rule("E2.record", "every append(X.d, Cmd, …, Cmd') / []float64{Cmd, …, Cmd'} that starts with a command constant has Cmd' == Cmd and exactly cmdLens[Cmd] values")
	r.Rule("E2.retag", "an in-place store of a command constant into X.d is paired, in the same block, with a store of the same constant at the other end of the record")
	p := c.MustPkg("")
	info := p.TypesInfo
	checkElems := func(elems []ast.Expr, pos token.Pos, fn string, ordinal *map[string]int) {
		if len(elems) == 0 {
			return
		}
		first := core.ConstName(info, elems[0])
		if _, ok := recordLen[first]; !ok {
			return
		}
		(*ordinal)[first]++
		key := fmt.Sprintf("%s|%s record #%d", fn, first, (*ordinal)[first])
		r.Count("E2.records", 1)
		// the record may be followed by further records in the same call; check consecutive records
		i := 0
		for i < len(elems) {
			cn := core.ConstName(info, elems[i])
			L, ok := recordLen[cn]
			if !ok {
				r.Fail("E2.record", key, c.Pos(pos), fmt.Sprintf("value %d (`%s`) should start a record but is not a command constant", i, types.ExprString(elems[i])))
				return
			}
			if i+L > len(elems) {
				r.Fail("E2.record", key, c.Pos(pos), fmt.Sprintf("%s record has %d values, needs %d", cn, len(elems)-i, L))
				return
			}
			if last := core.ConstName(info, elems[i+L-1]); last != cn {
				r.Fail("E2.record", key, c.Pos(pos), fmt.Sprintf("%s record ends with `%s`; the backward decoder reads the command from the last value", cn, types.ExprString(elems[i+L-1])))
				return
			}
			for j := i + 1; j < i+L-1; j++ {
				if _, isCmd := recordLen[core.ConstName(info, elems[j])]; isCmd {
					r.Fail("E2.record", key, c.Pos(pos), fmt.Sprintf("%s record has the command constant `%s` in payload position %d (record too short?)", cn, types.ExprString(elems[j]), j-i))
					return
				}
			}
			i += L
		}
		r.OK("E2.record", key, c.Pos(pos), "")
	}
	for _, fd := range core.AllFuncDecls(p) {
		fn := "canvas." + core.FuncName(fd)
		ord := map[string]int{}
		ast.Inspect(fd.Body, func(n ast.Node) bool {
			switch x := n.(type) {
			case *ast.CallExpr:
				if id, ok := x.Fun.(*ast.Ident); ok && id.Name == "append" && len(x.Args) >= 2 && !x.Ellipsis.IsValid() {
					if _, isB := info.Uses[id].(*types.Builtin); isB {
						if sl, ok := info.TypeOf(x.Args[0]).Underlying().(*types.Slice); ok {
							if b, ok := sl.Elem().Underlying().(*types.Basic); ok && b.Kind() == types.Float64 {
								checkElems(x.Args[1:], x.Pos(), fn, &ord)
							}
						}
					}
				}
			case *ast.CompositeLit:
				if sl, ok := info.TypeOf(x).Underlying().(*types.Slice); ok {
					if b, ok := sl.Elem().Underlying().(*types.Basic); ok && b.Kind() == types.Float64 {
						checkElems(x.Elts, x.Pos(), fn, &ord)
					}
				}
			}
			return true
		})
		// retag pairs
		ast.Inspect(fd.Body, func(n ast.Node) bool {
			bl, ok := n.(*ast.BlockStmt)
			if !ok {
				return true
			}
			type st struct {
				key, cn string
				idx     ast.Expr
				pos     token.Pos
			}
			var stores []st
			for _, s := range bl.List {
				as, ok := s.(*ast.AssignStmt)
				if !ok || as.Tok != token.ASSIGN || len(as.Lhs) != 1 || len(as.Rhs) != 1 {
					continue
				}
				ie, key, ok := dataIndex(info, core.Unparen(as.Lhs[0]))
				if !ok {
					continue
				}
				cn := core.ConstName(info, as.Rhs[0])
				if _, isCmd := recordLen[cn]; !isCmd {
					continue
				}
				stores = append(stores, st{key, cn, ie.Index, as.Pos()})
			}
			if len(stores) == 0 {
				return true
			}
			ord["retag"]++
			key := fmt.Sprintf("%s|retag #%d", fn, ord["retag"])
			r.Count("E2.retags", 1)
			if len(stores) != 2 || stores[0].key != stores[1].key || stores[0].cn != stores[1].cn {
				r.Fail("E2.retag", key, c.Pos(stores[0].pos), fmt.Sprintf("%d command stores in this block; a record must be retagged at both ends with the same constant", len(stores)))
				return true
			}
			d, ok := indexDistance(info, stores[0].idx, stores[1].idx)
			L := recordLen[stores[0].cn]
			if !ok {
				r.Fail("E2.retag", key, c.Pos(stores[0].pos), fmt.Sprintf("cannot relate the two indices `%s` and `%s`", types.ExprString(stores[0].idx), types.ExprString(stores[1].idx)))
			} else if d != L-1 && d != -(L-1) {
				r.Fail("E2.retag", key, c.Pos(stores[0].pos), fmt.Sprintf("the two %s stores are %d apart, the record's ends are %d apart", stores[0].cn, d, L-1))
			} else {
				r.OK("E2.retag", key, c.Pos(stores[0].pos), "")
			}
			return true
		})
	}
	r.Floor("E2.records", 28)
	r.Floor("E2.retags", 4)
}

// linForm decomposes an index into base-string + constant (cmdLen(Const) folded by the format's table).
func linForm(info *types.Info, e ast.Expr) (string, int, bool) {
	e = core.Unparen(e)
	if v, ok := core.ConstInt(info, e); ok {
		return "", int(v), true
	}
	if arg, ok := cmdLenArg(info, e); ok {
		if L, ok := recordLen[core.ConstName(info, arg)]; ok {
			return "", L, true
		}
		return "", 0, false
	}
	if be, ok := e.(*ast.BinaryExpr); ok && (be.Op == token.ADD || be.Op == token.SUB) {
		b1, k1, ok1 := linForm(info, be.X)
		b2, k2, ok2 := linForm(info, be.Y)
		if !ok1 || !ok2 {
			return "", 0, false
		}
		if be.Op == token.SUB {
			if b2 != "" {
				return "", 0, false
			}
			return b1, k1 - k2, true
		}
		if b1 != "" && b2 != "" {
			return "", 0, false
		}
		return b1 + b2, k1 + k2, true
	}
	return types.ExprString(e), 0, true
}

func indexDistance(info *types.Info, a, b ast.Expr) (int, bool) {
	ba, ka, ok1 := linForm(info, a)
	bb, kb, ok2 := linForm(info, b)
	if !ok1 || !ok2 || ba != bb {
		return 0, false
	}
	return ka - kb, true
}

// decoderSite is one read/write A.d[i+k] inside a context where the command decoded at A.d[i] is known.
type decoderSite struct {
	ie      *ast.IndexExpr
	path    string   // path variable key
	base    string   // cursor name
	k       int      // offset from the first value of the record (valid when !mixed)
	set     []string // commands possible here
	raw     int      // offset from the cursor as written
	m       int      // the cursor stands m record lengths after the record's first value (0: at its start, 1: just past its end)
	mixed   bool     // m == 1 and the commands of the set differ in length: k depends on the command
	unknown bool     // the cursor was moved in a way the walker does not follow between the read of cmd and this site
}

// decoderSites walks a function and reports every index A.d[i±k] made with the cursor i of a
// `cmd := A.d[i]` (forward) or `cmd := A.d[i-1]` (reverse) inside `case C…` / `if cmd == C` contexts
// (with if/else refinement). It follows `i += cmdLen(cmd)` / `i -= cmdLen(cmd)` statements that lie
// between the read of cmd and the site in the same statement list, so that offsets are known
// relative to the record: k = raw + m*len(C).
func decoderSites(p *packages.Package, fd *ast.FuncDecl, onCase func(), visit func(decoderSite)) {
	info := p.TypesInfo
	f := e2Scan(p, fd)
	if len(f.cmdIndex) == 0 {
		return
	}
	type ctx struct {
		cmdObj types.Object
		set    []string
	}
	// adv: per cmd variable, how many record lengths the cursor moved since cmd was read (99 = unknown)
	adv := map[types.Object]int{}
	var walk func(n ast.Node, cx []ctx)
	checkSites := func(n ast.Node, cx []ctx) {
		ast.Inspect(n, func(m ast.Node) bool {
			ie, key, ok := dataIndex(info, m)
			if !ok {
				return true
			}
			base, k, ok := linForm(info, ie.Index)
			if !ok || base == "" {
				return true
			}
			for _, x := range cx {
				cur := f.cmdIndex[x.cmdObj]
				if cur == nil || cur.Name() != base || !f.cmdOwner[x.cmdObj][key] {
					continue
				}
				id, isId := core.Unparen(stripConst(ie.Index)).(*ast.Ident)
				if !isId || core.ObjOf(info, id) != cur {
					continue
				}
				site := decoderSite{ie: ie, path: key, base: base, set: x.set, raw: k}
				a := adv[x.cmdObj]
				if a == 99 {
					site.unknown = true
					visit(site)
					continue
				}
				site.m = a
				if f.cmdOff[x.cmdObj] == -1 {
					site.m++
				}
				switch site.m {
				case 0:
					site.k = k
				case 1:
					L := -1
					for _, cn := range x.set {
						if L == -1 {
							L = recordLen[cn]
						} else if L != recordLen[cn] {
							site.mixed = true
						}
					}
					site.k = k + L
				default:
					site.unknown = true
				}
				visit(site)
			}
			return true
		})
	}
	var condSet func(e ast.Expr) (types.Object, []string, bool)
	condSet = func(e ast.Expr) (types.Object, []string, bool) {
		e = core.Unparen(e)
		be, ok := e.(*ast.BinaryExpr)
		if !ok {
			return nil, nil, false
		}
		if be.Op == token.EQL {
			id, _ := core.Unparen(be.X).(*ast.Ident)
			cn := core.ConstName(info, be.Y)
			if id == nil {
				id, _ = core.Unparen(be.Y).(*ast.Ident)
				cn = core.ConstName(info, be.X)
			}
			if id != nil {
				if _, ok := recordLen[cn]; ok {
					if o := core.ObjOf(info, id); f.cmdIndex[o] != nil {
						return o, []string{cn}, true
					}
				}
			}
			return nil, nil, false
		}
		if be.Op == token.LOR {
			o1, s1, ok1 := condSet(be.X)
			o2, s2, ok2 := condSet(be.Y)
			if ok1 && ok2 && o1 == o2 {
				return o1, append(s1, s2...), true
			}
		}
		return nil, nil, false
	}
	assigns := func(n ast.Node, cur types.Object) bool {
		found := false
		ast.Inspect(n, func(m ast.Node) bool {
			switch x := m.(type) {
			case *ast.AssignStmt:
				for _, l := range x.Lhs {
					if id, ok := l.(*ast.Ident); ok && core.ObjOf(info, id) == cur {
						found = true
					}
				}
			case *ast.IncDecStmt:
				if id, ok := x.X.(*ast.Ident); ok && core.ObjOf(info, id) == cur {
					found = true
				}
			}
			return !found
		})
		return found
	}
	walk = func(n ast.Node, cx []ctx) {
		switch x := n.(type) {
		case nil:
			return
		case *ast.SwitchStmt:
			if id, ok := core.Unparen(x.Tag).(*ast.Ident); ok && x.Tag != nil {
				if o := core.ObjOf(info, id); f.cmdIndex[o] != nil {
					for _, s := range x.Body.List {
						cc := s.(*ast.CaseClause)
						set := core.CaseConsts(info, cc)
						valid := len(set) > 0
						for _, cn := range set {
							if _, ok := recordLen[cn]; !ok {
								valid = false
							}
						}
						if !valid || assigns(&ast.BlockStmt{List: cc.Body}, f.cmdIndex[o]) {
							for _, b := range cc.Body {
								walk(b, cx)
							}
							continue
						}
						onCase()
						ncx := append(append([]ctx{}, cx...), ctx{o, set})
						for _, b := range cc.Body {
							walk(b, ncx)
						}
					}
					return
				}
			}
			for _, s := range x.Body.List {
				for _, b := range s.(*ast.CaseClause).Body {
					walk(b, cx)
				}
			}
		case *ast.IfStmt:
			walk(x.Init, cx)
			if o, set, ok := condSet(x.Cond); ok && !assigns(x, f.cmdIndex[o]) {
				onCase()
				checkSites(x.Cond, cx)
				enclosing := []string{"MoveToCmd", "LineToCmd", "QuadToCmd", "CubeToCmd", "ArcToCmd", "CloseCmd"}
				var outer []ctx
				for _, e := range cx {
					if e.cmdObj == o {
						enclosing = e.set
					} else {
						outer = append(outer, e)
					}
				}
				in := map[string]bool{}
				for _, s := range set {
					in[s] = true
				}
				var thenSet, elseSet []string
				for _, s := range enclosing {
					if in[s] {
						thenSet = append(thenSet, s)
					} else {
						elseSet = append(elseSet, s)
					}
				}
				before := copyAdv(adv)
				if len(thenSet) > 0 {
					walk(x.Body, append(append([]ctx{}, outer...), ctx{o, thenSet}))
				}
				afterThen := copyAdv(adv)
				setAdv(adv, before)
				if x.Else != nil && len(elseSet) > 0 {
					walk(x.Else, append(append([]ctx{}, outer...), ctx{o, elseSet}))
				}
				mergeAdv(adv, afterThen)
				return
			}
			checkSites(x.Cond, cx)
			before := copyAdv(adv)
			walk(x.Body, cx)
			afterThen := copyAdv(adv)
			setAdv(adv, before)
			walk(x.Else, cx)
			mergeAdv(adv, afterThen)
		case *ast.BlockStmt:
			saved := map[types.Object]int{}
			for o, a := range adv {
				saved[o] = a
			}
			for _, s := range x.List {
				walk(s, cx)
				// cursor movements made by this statement, for the statements that follow it
				for o, cur := range f.cmdIndex {
					if as, ok := s.(*ast.AssignStmt); ok {
						// (re-)reading cmd fixes the relation again
						for _, l := range as.Lhs {
							if id, ok := l.(*ast.Ident); ok && core.ObjOf(info, id) == o {
								adv[o] = 0
							}
						}
						if len(as.Lhs) == 1 && (as.Tok == token.ADD_ASSIGN || as.Tok == token.SUB_ASSIGN) {
							if id, ok := as.Lhs[0].(*ast.Ident); ok && core.ObjOf(info, id) == cur {
								if arg, ok := cmdLenArg(info, as.Rhs[0]); ok {
									if aid, ok := core.Unparen(arg).(*ast.Ident); ok && core.ObjOf(info, aid) == o && adv[o] != 99 {
										if as.Tok == token.ADD_ASSIGN {
											adv[o]++
										} else {
											adv[o]--
										}
										continue
									}
								}
								adv[o] = 99
							}
						}
						continue
					}
					if assigns(s, cur) {
						adv[o] = 99 // moved inside a nested statement: not followed
					}
				}
			}
			// leaving the block: if it moved the cursor, the statements after it do not know where it stands
			for o, a := range adv {
				if b, had := saved[o]; (had && a != b) || (!had && a != 0) {
					adv[o] = 99
				}
			}
		case *ast.ForStmt:
			walk(x.Init, cx)
			if x.Cond != nil {
				checkSites(x.Cond, cx)
			}
			walk(x.Body, cx)
			walk(x.Post, cx)
		case *ast.RangeStmt:
			walk(x.Body, cx)
		case *ast.LabeledStmt:
			walk(x.Stmt, cx)
		case *ast.CaseClause:
			for _, b := range x.Body {
				walk(b, cx)
			}
		default:
			if len(cx) > 0 {
				checkSites(n, cx)
			}
		}
	}
	walk(fd.Body, nil)
}

func copyAdv(a map[types.Object]int) map[types.Object]int {
	out := map[types.Object]int{}
	for k, v := range a {
		out[k] = v
	}
	return out
}

func setAdv(dst, src map[types.Object]int) {
	for k := range dst {
		delete(dst, k)
	}
	for k, v := range src {
		dst[k] = v
	}
}

// mergeAdv joins two branch states: where they differ the cursor position is unknown.
func mergeAdv(dst, other map[types.Object]int) {
	for k, v := range other {
		if dv, ok := dst[k]; !ok && v != 0 || ok && dv != v {
			dst[k] = 99
		}
	}
	for k, dv := range dst {
		if v, ok := other[k]; !ok && dv != 0 || ok && dv != v {
			dst[k] = 99
		}
	}
}

// E2RecordLayout: payload offsets stay inside the record of the command being decoded.
func E2RecordLayout(c *core.Ctx, r *core.Report) {
	r.Rule("E2.layout", "inside `case C` / `if cmd == C` of a decoder whose cmd was read at A.d[i] (forward) or A.d[i-1] (reverse), an access A.d[i±k] lies inside the record of C for every C of that case (if/else chains on cmd refine the set): with the cursor at the record's start 0 <= k <= cmdLens[C]-1, after `i += cmdLen(cmd)` (or before `i -= cmdLen(cmd)` in a reverse decoder) -cmdLens[C] <= k <= -1; the previous record's end point (start-3..start-1) and the next record's tag are the only accesses allowed outside")
	p := c.MustPkg("")
	for _, fd := range core.AllFuncDecls(p) {
		fn := "canvas." + core.FuncName(fd)
		decoderSites(p, fd, func() { r.Count("E2.layout-cases", 1) }, func(s decoderSite) {
			r.Count("E2.layout-sites", 1)
			idx := fmt.Sprintf("%s.d[%s+%d]", pathVarName(s.path), s.base, s.raw)
			if s.raw < 0 {
				idx = fmt.Sprintf("%s.d[%s-%d]", pathVarName(s.path), s.base, -s.raw)
			}
			skey := fmt.Sprintf("%s|{%s}|%s", fn, strings.Join(s.set, ","), idx)
			if s.unknown {
				r.Fail("E2.layout", skey, c.Pos(s.ie.Pos()), "the cursor is moved between the read of the command and this access in a way the rule does not follow (not by a plain `i += cmdLen(cmd)` in the same statement list); the offset cannot be related to the record")
				return
			}
			if s.m == 1 {
				r.Count("E2.layout-post-advance-sites", 1)
			}
			// offset relative to the first value of the record, for every command possible here
			for _, cn := range s.set {
				L := recordLen[cn]
				rel := s.raw + s.m*L
				switch {
				case 0 <= rel && rel <= L-1:
				case s.m == 0 && -3 <= rel && rel <= -1:
					// the end point / closing tag of the previous record (every record ends with x, y, cmd)
				case s.m == 1 && rel == L:
					// the tag of the next record
				default:
					where := "at the start of"
					if s.m == 1 {
						where = "just past the end of"
					}
					r.Fail("E2.layout", skey, c.Pos(s.ie.Pos()), fmt.Sprintf("with the cursor %s a %s record (%d values) the access %s lies at position %d of the record: outside it (and not the previous end point or the next tag)", where, cn, L, idx, rel))
					return
				}
			}
			r.OK("E2.layout", skey, c.Pos(s.ie.Pos()), "")
		})
	}
	r.Floor("E2.layout-cases", 60)
	r.Floor("E2.layout-sites", 400)
	r.Floor("E2.layout-post-advance-sites", 30)
}

// stripConst removes `± const` / `± cmdLen(Const)` terms to expose the base expression.
func stripConst(e ast.Expr) ast.Expr {
	e = core.Unparen(e)
	if be, ok := e.(*ast.BinaryExpr); ok && (be.Op == token.ADD || be.Op == token.SUB) {
		if _, ok := core.Unparen(be.Y).(*ast.BasicLit); ok {
			return stripConst(be.X)
		}
		if _, ok := core.Unparen(be.Y).(*ast.CallExpr); ok {
			return stripConst(be.X)
		}
		if _, ok := core.Unparen(be.X).(*ast.BasicLit); ok && be.Op == token.ADD {
			return stripConst(be.Y)
		}
	}
	return e
}

// E2PenTracking: printers that carry the pen position across records update it in every case.
func E2PenTracking(c *core.Ctx, r *core.Report, funcs []string) {
	r.Rule("E2.pen", "a decoder loop that carries the pen position (a pair of float variables declared before the loop and assigned from the end point A.d[i+L-3], A.d[i+L-2] in some case) assigns it from the end point of the record in *every* case, for every command kind of that case: relative/shorthand output (H, V, dropped zero-length lines) is computed against this position")
	p := c.MustPkg("")
	info := p.TypesInfo
	total := 0
	for _, fname := range funcs {
		fd := core.MustFuncDecl(p, fname)
		r.Func("canvas." + fname)
		// collect pen assignments per context
		type penAssign struct {
			x, y types.Object
			k    int
			set  []string
		}
		var assigns []penAssign
		// map IndexExpr -> (k, set) from decoder facts
		type fact struct {
			k   int
			set []string
		}
		facts := map[*ast.IndexExpr]fact{}
		decoderSites(p, fd, func() {}, func(s decoderSite) {
			if !s.unknown && !s.mixed {
				facts[s.ie] = fact{s.k, s.set}
			}
		})
		ast.Inspect(fd.Body, func(n ast.Node) bool {
			as, ok := n.(*ast.AssignStmt)
			if !ok || as.Tok != token.ASSIGN || len(as.Lhs) != 2 || len(as.Rhs) != 2 {
				return true
			}
			xi, okx := as.Lhs[0].(*ast.Ident)
			yi, oky := as.Lhs[1].(*ast.Ident)
			ix, okix := core.Unparen(as.Rhs[0]).(*ast.IndexExpr)
			iy, okiy := core.Unparen(as.Rhs[1]).(*ast.IndexExpr)
			if !okx || !oky || !okix || !okiy {
				return true
			}
			fx, ok1 := facts[ix]
			fy, ok2 := facts[iy]
			if !ok1 || !ok2 || fy.k != fx.k+1 {
				return true
			}
			assigns = append(assigns, penAssign{core.ObjOf(info, xi), core.ObjOf(info, yi), fx.k, fx.set})
			return true
		})
		if len(assigns) == 0 {
			r.Fail("E2.pen", "canvas."+fname+"|pen variables", c.Pos(fd.Pos()), "no pen position (x, y = A.d[i+k], A.d[i+k+1]) is tracked in this printer")
			continue
		}
		px, py := assigns[0].x, assigns[0].y
		// required: for every command kind, an assignment with k = L-3 in a context containing that kind
		for _, cmd := range []string{"MoveToCmd", "LineToCmd", "QuadToCmd", "CubeToCmd", "ArcToCmd", "CloseCmd"} {
			// is the command handled by the function's switch at all?
			handled := false
			for _, cc := range cmdSwitchClauses(p, fd) {
				for _, k := range core.CaseConsts(info, cc) {
					if k == cmd {
						handled = true
						// a case that panics for this command needs no pen update
						for _, s := range cc.Body {
							if es, ok := s.(*ast.ExprStmt); ok {
								if call, ok := es.X.(*ast.CallExpr); ok {
									if id, ok := call.Fun.(*ast.Ident); ok && id.Name == "panic" {
										handled = false
									}
								}
							}
						}
					}
				}
			}
			if !handled {
				continue
			}
			total++
			key := fmt.Sprintf("canvas.%s|pen after %s", fname, cmd)
			want := recordLen[cmd] - 3
			ok := false
			for _, a := range assigns {
				if a.x != px || a.y != py || a.k != want {
					continue
				}
				for _, s := range a.set {
					if s == cmd {
						ok = true
					}
				}
			}
			if ok {
				r.OK("E2.pen", key, c.Pos(fd.Pos()), fmt.Sprintf("x, y = d[i+%d], d[i+%d]", want, want+1))
			} else {
				r.Fail("E2.pen", key, c.Pos(fd.Pos()), fmt.Sprintf("the pen position is not updated to the end point of a %s record (d[i+%d], d[i+%d]): the command that follows is minified/emitted relative to a stale position", cmd, want, want+1))
			}
		}
	}
	r.Count("E2.pen-cases", total)
	r.Floor("E2.pen-cases", 12)
}

// E2CloseRewrite: a scan that rewrites a Close record with a fixed point stays inside one sub-path.
func E2CloseRewrite(c *core.Ctx, r *core.Report) {
	r.Rule("E2.close-rewrite", "a Close record carries the start point of its own sub-path. A loop that walks the commands and stores a loop-invariant point into the coordinates of a Close record (A.d[i+1], A.d[i+2] under cmd == CloseCmd) repairs the close of one particular sub-path, so it must leave the loop when it meets a MoveTo (a `cmd == MoveToCmd` branch ending in break or return); otherwise the Close of a later, unrelated sub-path is redirected to that point and no longer returns to its own start")
	p := c.MustPkg("")
	info := p.TypesInfo
	n := 0
	for _, fd := range core.AllFuncDecls(p) {
		if fd.Body == nil {
			continue
		}
		fname := "canvas." + core.FuncName(fd)
		ord := 0
		ast.Inspect(fd.Body, func(m ast.Node) bool {
			loop, ok := m.(*ast.ForStmt)
			if !ok {
				return true
			}
			// variables assigned in the loop
			assigned := map[types.Object]bool{}
			ast.Inspect(loop, func(k ast.Node) bool {
				if as, ok := k.(*ast.AssignStmt); ok {
					for _, l := range as.Lhs {
						if id, ok := l.(*ast.Ident); ok {
							assigned[core.ObjOf(info, id)] = true
						}
					}
				}
				return true
			})
			isCmdEq := func(e ast.Expr, name string) bool {
				be, ok := core.Unparen(e).(*ast.BinaryExpr)
				if !ok || be.Op != token.EQL {
					return false
				}
				return core.ConstName(info, be.Y) == name || core.ConstName(info, be.X) == name
			}
			var stores []*ast.AssignStmt
			moveExit := false
			var walk func(n ast.Node, inClose bool)
			walk = func(nd ast.Node, inClose bool) {
				switch x := nd.(type) {
				case nil:
				case *ast.BlockStmt:
					for _, s := range x.List {
						walk(s, inClose)
					}
				case *ast.IfStmt:
					if isCmdEq(x.Cond, "MoveToCmd") && len(x.Body.List) > 0 {
						switch last := x.Body.List[len(x.Body.List)-1].(type) {
						case *ast.BranchStmt:
							if last.Tok == token.BREAK {
								moveExit = true
							}
						case *ast.ReturnStmt:
							moveExit = true
						}
					}
					walk(x.Body, inClose || isCmdEq(x.Cond, "CloseCmd"))
					if x.Else != nil {
						walk(x.Else, inClose)
					}
				case *ast.AssignStmt:
					if !inClose || x.Tok != token.ASSIGN {
						return
					}
					for i, l := range x.Lhs {
						ie, _, ok := dataIndex(info, l)
						if !ok || i >= len(x.Rhs) {
							continue
						}
						if _, k, ok := linForm(info, ie.Index); ok && (k == 1 || k == 2) {
							inv := true
							ast.Inspect(x.Rhs[i], func(q ast.Node) bool {
								if id, ok := q.(*ast.Ident); ok && assigned[core.ObjOf(info, id)] {
									inv = false
								}
								return true
							})
							if inv {
								stores = append(stores, x)
							}
						}
					}
				}
			}
			walk(loop.Body, false)
			if len(stores) == 0 {
				return true
			}
			n++
			ord++
			key := fmt.Sprintf("%s|close repair loop #%d stays inside the sub-path", fname, ord)
			if moveExit {
				r.OK("E2.close-rewrite", key, c.Pos(loop.Pos()), "leaves the loop at MoveTo")
			} else {
				r.Fail("E2.close-rewrite", key, c.Pos(stores[0].Pos()), fmt.Sprintf("`%s` writes a point fixed before the loop into a Close record, but the loop does not stop at the next MoveTo: the first Close of any later sub-path is redirected, and that sub-path no longer closes at its own start", c.Src(stores[0])))
			}
			return true
		})
	}
	r.Count("E2.close-repair-loops", n)
	r.Floor("E2.close-repair-loops", 1)
}

// E2CarriedShadow: the variable that carries the pen position to the next command is not shadowed inside the loop.
func E2CarriedShadow(c *core.Ctx, r *core.Report) {
	r.Rule("E2.carried-shadow", "in a loop over the commands of a path, a variable declared before the loop that the loop body assigns (`end = …` in the cases) and whose value is read at the top level of the loop body (`start = end` at the tail) carries state from one command to the next. No short variable declaration nested inside the loop body may declare a new variable of the same name: the cases would then fill the shadow, and the carried variable keeps the value of an earlier command (the start point of an arc after a Bézier is then the Bézier's start)")
	p := c.MustPkg("")
	info := p.TypesInfo
	n := 0
	for _, fd := range core.AllFuncDecls(p) {
		if fd.Body == nil || strings.HasSuffix(c.Fset.Position(fd.Pos()).Filename, "_test.go") {
			continue
		}
		f := e2Scan(p, fd)
		if len(f.cmdOwner) == 0 {
			continue
		}
		fname := "canvas." + core.FuncName(fd)
		ord := 0
		ast.Inspect(fd.Body, func(m ast.Node) bool {
			loop, ok := m.(*ast.ForStmt)
			if !ok {
				return true
			}
			// carried: outer variables read at the top level of the loop body on the RHS of an assignment
			carried := map[string]types.Object{}
			for _, st := range loop.Body.List {
				as, ok := st.(*ast.AssignStmt)
				if !ok || as.Tok != token.ASSIGN {
					continue
				}
				for _, rh := range as.Rhs {
					if id, ok := core.Unparen(rh).(*ast.Ident); ok {
						if o := core.ObjOf(info, id); o != nil && o.Pos() < loop.Pos() && o.Pos() > fd.Pos() {
							if _, isVar := o.(*types.Var); isVar {
								carried[id.Name] = o
							}
						}
					}
				}
			}
			if len(carried) == 0 {
				return true
			}
			ord++
			n++
			key := fmt.Sprintf("%s|command loop #%d|carried variables not shadowed", fname, ord)
			bad := ""
			var badPos token.Pos
			ast.Inspect(loop.Body, func(k ast.Node) bool {
				as, ok := k.(*ast.AssignStmt)
				if !ok || as.Tok != token.DEFINE {
					return true
				}
				for _, l := range as.Lhs {
					id, ok := l.(*ast.Ident)
					if !ok {
						continue
					}
					if outer, isCarried := carried[id.Name]; isCarried {
						if def := info.Defs[id]; def != nil && def != outer && bad == "" {
							bad = id.Name
							badPos = as.Pos()
						}
					}
				}
				return true
			})
			if bad == "" {
				r.OK("E2.carried-shadow", key, c.Pos(loop.Pos()), "")
			} else {
				r.Fail("E2.carried-shadow", key, c.Pos(badPos), fmt.Sprintf("`%s :=` inside the loop declares a new variable that shadows the `%s` the loop carries to the next command: the tail of the loop copies the stale outer value", bad, bad))
			}
			return true
		})
	}
	r.Count("E2.carried-loops", n)
	r.Floor("E2.carried-loops", 6)
}

// E2MoveReplayed: a decoder that rebuilds a path through the builder API starts a sub-path where the input does.
func E2MoveReplayed(c *core.Ctx, r *core.Report) {
	r.Rule("E2.move-replayed", "a loop that decodes a path and rebuilds it on an output path with the builder API (its command switch has a MoveToCmd case and its LineToCmd case calls Q.LineTo) handles MoveToCmd by starting a sub-path on the same output: the MoveToCmd case calls Q.MoveTo (or appends a MoveTo record / starts a fresh Q). Without it the pen is not lifted: the first segment of every later sub-path is drawn from where the previous sub-path ended")
	p := c.MustPkg("")
	info := p.TypesInfo
	n := 0
	for _, fd := range core.AllFuncDecls(p) {
		if fd.Body == nil || strings.HasSuffix(c.Fset.Position(fd.Pos()).Filename, "_test.go") {
			continue
		}
		fname := "canvas." + core.FuncName(fd)
		ord := 0
		for _, sw := range cmdSwitches(p, fd) {
			var lineCase, moveCase *ast.CaseClause
			for _, cs := range sw.Body.List {
				cc := cs.(*ast.CaseClause)
				for _, k := range core.CaseConsts(info, cc) {
					if k == "LineToCmd" {
						lineCase = cc
					}
					if k == "MoveToCmd" {
						moveCase = cc
					}
				}
			}
			if lineCase == nil || moveCase == nil {
				continue // single-segment builders and per-sub-path loops (Path.offset) have no MoveTo case
			}
			// outputs: locals Q with Q.LineTo(...) in the LineTo case
			outs := map[types.Object]bool{}
			ast.Inspect(&ast.BlockStmt{List: lineCase.Body}, func(m ast.Node) bool {
				if call, ok := m.(*ast.CallExpr); ok {
					if se, ok := call.Fun.(*ast.SelectorExpr); ok && se.Sel.Name == "LineTo" {
						if id, ok := core.Unparen(se.X).(*ast.Ident); ok {
							if o := core.ObjOf(info, id); o != nil && isNamed(o.Type(), "tdewolff/canvas", "Path") {
								outs[o] = true
							}
						}
					}
				}
				return true
			})
			for q := range outs {
				n++
				ord++
				key := fmt.Sprintf("%s|rebuilding loop #%d|MoveTo starts a sub-path on the output", fname, ord)
				if moveCase == nil {
					// a switch without a MoveTo case: acceptable only if MoveTo is handled before the switch (not the case anywhere today)
					r.Fail("E2.move-replayed", key, c.Pos(sw.Pos()), fmt.Sprintf("the command switch rebuilds the path on `%s` but has no MoveToCmd case", q.Name()))
					continue
				}
				handled := false
				ast.Inspect(&ast.BlockStmt{List: moveCase.Body}, func(m ast.Node) bool {
					switch x := m.(type) {
					case *ast.CallExpr:
						if se, ok := x.Fun.(*ast.SelectorExpr); ok && se.Sel.Name == "MoveTo" {
							if id, ok := core.Unparen(se.X).(*ast.Ident); ok && core.ObjOf(info, id) == q {
								handled = true
							}
						}
					case *ast.AssignStmt:
						for _, l := range x.Lhs {
							if id, ok := l.(*ast.Ident); ok && core.ObjOf(info, id) == q {
								handled = true // a fresh output path is started
							}
							if sel, ok := l.(*ast.SelectorExpr); ok {
								if id, ok := core.Unparen(sel.X).(*ast.Ident); ok && core.ObjOf(info, id) == q && sel.Sel.Name == "d" {
									handled = true // a record is appended by hand (checked by E2.record)
								}
							}
						}
					}
					return true
				})
				if handled {
					r.OK("E2.move-replayed", key, c.Pos(moveCase.Pos()), "")
				} else {
					r.Fail("E2.move-replayed", key, c.Pos(moveCase.Pos()), fmt.Sprintf("the MoveToCmd case does not start a sub-path on `%s`, the path the other cases draw on: the pen is not lifted between the sub-paths of the input", q.Name()))
				}
			}
		}
	}
	r.Count("E2.rebuilding-loops", n)
	r.Floor("E2.rebuilding-loops", 2)
}

// cmdSwitches lists the switch statements of fd whose cases are path commands.
func cmdSwitches(p *packages.Package, fd *ast.FuncDecl) []*ast.SwitchStmt {
	var out []*ast.SwitchStmt
	ast.Inspect(fd.Body, func(n ast.Node) bool {
		sw, ok := n.(*ast.SwitchStmt)
		if !ok || sw.Tag == nil {
			return true
		}
		for _, cs := range sw.Body.List {
			for _, k := range core.CaseConsts(p.TypesInfo, cs.(*ast.CaseClause)) {
				if _, isCmd := recordLen[k]; isCmd {
					out = append(out, sw)
					return true
				}
			}
		}
		return true
	})
	return out
}

// E2AccumulatorAdvance: the running arc length of a command loop is advanced by every segment.
func E2AccumulatorAdvance(c *core.Ctx, r *core.Report) {
	r.Rule("E2.accumulator-advance", "A loop over path commands that keeps a running position (a float local, declared outside the loop, advanced with `+=` in the command switch and compared with the entries of a sorted cut list `ts[j]`) advances it in every segment case on every path through the case, because the cuts on all later segments are located relative to it. The only paths excused are those taken under the exact exhaustion test of the cut list (`j == len(ts)`, or the else of `j < len(ts)`), after which the position is never read again. A shortcut such as `j == len(ts) || nothing-to-cut-here` that copies the segment without adding its length displaces every later cut by that length")
	p := c.MustPkg("")
	info := p.TypesInfo
	n := 0
	for _, fd := range core.AllFuncDecls(p) {
		if fd.Body == nil || strings.HasSuffix(c.Fset.Position(fd.Pos()).Filename, "_test.go") {
			continue
		}
		sws := cmdSwitches(p, fd)
		if len(sws) == 0 {
			continue
		}
		fname := "canvas." + core.FuncName(fd)
		for _, sw := range sws {
			// accumulators: float locals declared outside the switch, `+=`-assigned inside it
			accs := map[types.Object]bool{}
			ast.Inspect(sw.Body, func(m ast.Node) bool {
				if as, ok := m.(*ast.AssignStmt); ok && as.Tok == token.ADD_ASSIGN && len(as.Lhs) == 1 {
					if id, ok := as.Lhs[0].(*ast.Ident); ok {
						o := core.ObjOf(info, id)
						if v, ok := o.(*types.Var); ok && !v.IsField() && (o.Pos() < sw.Pos() || o.Pos() > sw.End()) {
							if b, ok := v.Type().Underlying().(*types.Basic); ok && b.Info()&types.IsFloat != 0 {
								accs[o] = true
							}
						}
					}
				}
				return true
			})
			for acc := range accs {
				// the cut list: a comparison in the switch between acc (or acc+x) and S[j]
				var cutIdx, cutList types.Object
				ast.Inspect(sw.Body, func(m ast.Node) bool {
					be, ok := m.(*ast.BinaryExpr)
					if !ok || (be.Op != token.LSS && be.Op != token.LEQ && be.Op != token.GTR && be.Op != token.GEQ) {
						return true
					}
					for i, s := range []ast.Expr{be.X, be.Y} {
						o := []ast.Expr{be.Y, be.X}[i]
						mentions := false
						ast.Inspect(s, func(k ast.Node) bool {
							if id, ok := k.(*ast.Ident); ok && core.ObjOf(info, id) == acc {
								mentions = true
							}
							return true
						})
						ie, ok := core.Unparen(o).(*ast.IndexExpr)
						if !mentions || !ok {
							continue
						}
						li, ok1 := core.Unparen(ie.X).(*ast.Ident)
						ji, ok2 := core.Unparen(ie.Index).(*ast.Ident)
						if ok1 && ok2 {
							cutList, cutIdx = core.ObjOf(info, li), core.ObjOf(info, ji)
						}
					}
					return true
				})
				if cutList == nil {
					continue
				}
				// exhaustion tests
				isLen := func(e ast.Expr) bool {
					call, ok := core.Unparen(e).(*ast.CallExpr)
					if !ok || len(call.Args) != 1 {
						return false
					}
					f, ok := call.Fun.(*ast.Ident)
					if !ok || f.Name != "len" {
						return false
					}
					a, ok := core.Unparen(call.Args[0]).(*ast.Ident)
					return ok && core.ObjOf(info, a) == cutList
				}
				isIdx := func(e ast.Expr) bool {
					a, ok := core.Unparen(e).(*ast.Ident)
					return ok && core.ObjOf(info, a) == cutIdx
				}
				// 1: cond true means exhausted; -1: cond false means exhausted; 0: neither
				exhaust := func(cond ast.Expr) int {
					be, ok := core.Unparen(cond).(*ast.BinaryExpr)
					if !ok {
						return 0
					}
					x, y, op := be.X, be.Y, be.Op
					if isLen(x) && isIdx(y) {
						x, y = y, x
						switch op {
						case token.LSS:
							op = token.GTR
						case token.GTR:
							op = token.LSS
						case token.LEQ:
							op = token.GEQ
						case token.GEQ:
							op = token.LEQ
						}
					}
					if !isIdx(x) || !isLen(y) {
						return 0
					}
					switch op {
					case token.EQL, token.GEQ:
						return 1
					case token.LSS, token.NEQ:
						return -1
					}
					return 0
				}
				advances := func(st ast.Stmt) bool {
					as, ok := st.(*ast.AssignStmt)
					if !ok || as.Tok != token.ADD_ASSIGN || len(as.Lhs) != 1 {
						return false
					}
					id, ok := as.Lhs[0].(*ast.Ident)
					return ok && core.ObjOf(info, id) == acc
				}
				// must-advance over all paths of a case body (continuation-passing, so that an early
				// continue/break ends a path); returns the first unexcused path that does not advance
				must := func(stmts []ast.Stmt) (bool, ast.Node) {
					var bad ast.Node
					failed := false
					var walk func(stmts []ast.Stmt, done bool, last ast.Node, k func(done bool, last ast.Node))
					walk = func(stmts []ast.Stmt, done bool, last ast.Node, k func(bool, ast.Node)) {
						if failed {
							return
						}
						if len(stmts) == 0 {
							k(done, last)
							return
						}
						st, rest := stmts[0], stmts[1:]
						next := func(d bool, l ast.Node) { walk(rest, d, l, k) }
						switch x := st.(type) {
						case *ast.BranchStmt:
							if !done {
								failed, bad = true, last
								if bad == nil {
									bad = x
								}
							}
							return
						case *ast.ReturnStmt:
							return
						case *ast.BlockStmt:
							walk(x.List, done, last, next)
							return
						case *ast.IfStmt:
							ex := exhaust(x.Cond)
							walk(x.Body.List, done || ex == 1, x, next)
							switch e := x.Else.(type) {
							case nil:
								next(done || ex == -1, x)
							case *ast.BlockStmt:
								walk(e.List, done || ex == -1, x, next)
							case *ast.IfStmt:
								if ex == -1 {
									next(true, x)
								} else {
									walk([]ast.Stmt{e}, done, x, next)
								}
							}
							return
						}
						walk(rest, done || advances(st), last, k)
					}
					walk(stmts, false, nil, func(done bool, last ast.Node) {
						if !done && !failed {
							failed, bad = true, last
						}
					})
					return !failed, bad
				}
				for _, cs := range sw.Body.List {
					cc := cs.(*ast.CaseClause)
					consts := core.CaseConsts(info, cc)
					seg := false
					for _, k := range consts {
						if k != "MoveToCmd" {
							if _, isCmd := recordLen[k]; isCmd {
								seg = true
							}
						}
					}
					if !seg {
						continue
					}
					n++
					key := fmt.Sprintf("%s|%s|running position advanced on every path", fname, core.CaseLabel(info, cc))
					ok, bad := must(cc.Body)
					if ok {
						r.OK("E2.accumulator-advance", key, c.Pos(cc.Pos()), "")
						continue
					}
					where := cc.Pos()
					what := "the case body"
					if is, isIf := bad.(*ast.IfStmt); isIf {
						where = is.Pos()
						what = "the branch under `" + c.Src(is.Cond) + "`"
					} else if bad != nil {
						where = bad.Pos()
					}
					r.Fail("E2.accumulator-advance", key, c.Pos(where), fmt.Sprintf("%s can finish the segment without adding its length to `%s` while cuts of `%s` remain: every later cut is placed too early by that length", what, acc.Name(), cutList.Name()))
				}
			}
		}
	}
	r.Count("E2.accumulator-cases", n)
	r.Floor("E2.accumulator-cases", 4)
}

// E2RecordPreserved: Reverse emits a record for every segment it reads.
func E2RecordPreserved(c *core.Ctx, r *core.Report) {
	r.Rule("E2.record-preserved", "Path.Reverse rebuilds the path record by record. For each of the drawing commands (LineTo, QuadTo, CubeTo, ArcTo) every path through one iteration of its loop — through any `if` before the command switch, the matching case, and up to the end of the body or a `continue` — appends a record to the output. Conditions on the command are evaluated for that command; a test that two points are equal is false for lines and arcs (a built path holds no zero-length line or arc) and may go either way for Béziers; anything else may go either way. Skipping a segment whose end equals its start drops closed Bézier loops, which have length, area and winding: Reverse is then no involution and Length/Bounds change")
	p := c.MustPkg("")
	info := p.TypesInfo
	fd := core.MustFuncDecl(p, "Path.Reverse")
	r.Func("canvas.Path.Reverse")
	sws := cmdSwitches(p, fd)
	if len(sws) != 1 {
		r.Fail("E2.record-preserved", "canvas.Path.Reverse|command switch", c.Pos(fd.Pos()), fmt.Sprintf("expected one command switch, found %d", len(sws)))
		return
	}
	sw := sws[0]
	// the loop whose body contains the switch
	var loop *ast.ForStmt
	ast.Inspect(fd.Body, func(m ast.Node) bool {
		if f, ok := m.(*ast.ForStmt); ok && f.Body.Pos() <= sw.Pos() && sw.End() <= f.Body.End() {
			loop = f
		}
		return true
	})
	if loop == nil {
		r.Fail("E2.record-preserved", "canvas.Path.Reverse|command loop", c.Pos(fd.Pos()), "the loop around the command switch was not found")
		return
	}
	// the command variable: the switch tag
	tag, _ := core.Unparen(sw.Tag).(*ast.Ident)
	var cmdObj types.Object
	if tag != nil {
		cmdObj = core.ObjOf(info, tag)
	}
	// the output: the returned path
	var out types.Object
	ast.Inspect(fd.Body, func(m ast.Node) bool {
		if rs, ok := m.(*ast.ReturnStmt); ok && len(rs.Results) == 1 {
			if id, ok := core.Unparen(rs.Results[0]).(*ast.Ident); ok {
				if o := core.ObjOf(info, id); o != nil && o != recvObj(info, fd) {
					out = o
				}
			}
		}
		return true
	})
	if cmdObj == nil || out == nil {
		r.Fail("E2.record-preserved", "canvas.Path.Reverse|command variable and output path", c.Pos(fd.Pos()), "not identified")
		return
	}
	emits := func(st ast.Stmt) bool {
		found := false
		ast.Inspect(st, func(k ast.Node) bool {
			switch x := k.(type) {
			case *ast.FuncLit:
				return false
			case *ast.AssignStmt:
				for i, l := range x.Lhs {
					if id := core.RootIdent(l); id != nil && core.ObjOf(info, id) == out && i < len(x.Rhs) {
						if call, ok := core.Unparen(x.Rhs[i]).(*ast.CallExpr); ok {
							if f, ok := call.Fun.(*ast.Ident); ok && f.Name == "append" {
								found = true
							}
						}
					}
				}
			case *ast.CallExpr:
				if se, ok := x.Fun.(*ast.SelectorExpr); ok {
					if id, ok := core.Unparen(se.X).(*ast.Ident); ok && core.ObjOf(info, id) == out {
						switch se.Sel.Name {
						case "LineTo", "QuadTo", "CubeTo", "ArcTo", "Close":
							found = true
						}
					}
				}
			}
			return true
		})
		return found
	}
	n := 0
	for _, K := range []string{"LineToCmd", "QuadToCmd", "CubeToCmd", "ArcToCmd"} {
		K := K
		env := opEnv(info, cmdObj, K, func(e ast.Expr) tri {
			// a built path holds no zero-length line or arc (LineTo/ArcTo drop them), so a test that
			// two points are equal is false for those commands; Béziers may return to their start
			if K == "LineToCmd" || K == "ArcToCmd" {
				if call, ok := e.(*ast.CallExpr); ok {
					if se, ok := call.Fun.(*ast.SelectorExpr); ok && se.Sel.Name == "Equals" && len(call.Args) == 1 {
						return tFalse
					}
				}
			}
			return tUnknown
		})
		// continuation-passing walk over the paths of one iteration; bad collects the first path
		// that ends (end of the body, continue, break) without having emitted
		bad := ""
		var walk func(stmts []ast.Stmt, emitted bool, conds []string, k func(emitted bool, conds []string))
		walk = func(stmts []ast.Stmt, emitted bool, conds []string, k func(bool, []string)) {
			if bad != "" {
				return
			}
			if len(stmts) == 0 {
				k(emitted, conds)
				return
			}
			st, rest := stmts[0], stmts[1:]
			next := func(em bool, cs []string) { walk(rest, em, cs, k) }
			switch x := st.(type) {
			case *ast.BranchStmt:
				if !emitted {
					bad = strings.Join(append(append([]string{}, conds...), x.Tok.String()), " && ")
				}
				return
			case *ast.ReturnStmt:
				return
			case *ast.BlockStmt:
				walk(x.List, emitted, conds, next)
				return
			case *ast.IfStmt:
				v := evalBool(info, x.Cond, env)
				if v != tFalse {
					walk(x.Body.List, emitted, append(append([]string{}, conds...), c.Src(x.Cond)), next)
				}
				if v != tTrue {
					cs := append(append([]string{}, conds...), "!("+c.Src(x.Cond)+")")
					switch e := x.Else.(type) {
					case nil:
						next(emitted, cs)
					case *ast.BlockStmt:
						walk(e.List, emitted, cs, next)
					case *ast.IfStmt:
						walk([]ast.Stmt{e}, emitted, cs, next)
					}
				}
				return
			case *ast.SwitchStmt:
				if x == sw {
					var body []ast.Stmt
					matched := false
					for _, cs := range x.Body.List {
						cc := cs.(*ast.CaseClause)
						for _, kc := range core.CaseConsts(info, cc) {
							if kc == K {
								body, matched = cc.Body, true
							}
						}
					}
					if !matched {
						for _, cs := range x.Body.List {
							if cc := cs.(*ast.CaseClause); cc.List == nil {
								body = cc.Body
							}
						}
					}
					walk(body, emitted, append(append([]string{}, conds...), "case "+K), next)
					return
				}
			}
			walk(rest, emitted || emits(st), conds, k)
		}
		walk(loop.Body.List, false, nil, func(em bool, cs []string) {
			if !em && bad == "" {
				bad = strings.Join(append(append([]string{}, cs...), "(end of the loop body)"), " && ")
			}
		})
		n++
		key := fmt.Sprintf("canvas.Path.Reverse|%s|a record is emitted on every path", K)
		if bad != "" {
			r.Fail("E2.record-preserved", key, c.Pos(loop.Pos()), "for "+K+" the iteration can end on the path `"+bad+"` without appending a record to the reversed path: that segment (e.g. a Bézier that returns to its start point) is dropped")
		} else {
			r.OK("E2.record-preserved", key, c.Pos(loop.Pos()), "")
		}
	}
	r.Count("E2.reverse-commands", n)
	r.Floor("E2.reverse-commands", 4)
}

// E2PenReread: replace re-reads the pen position from the data after it rewrote the path.
func E2PenReread(c *core.Ctx, r *core.Report) {
	r.Rule("E2.pen-reread", "Path.replace (the driver of Flatten, ReplaceArcs and XMonotone) rewrites the path while it walks it: it truncates the data, joins the replacement and joins the rest back, and Join/LineTo may merge the first remaining line into the previous one, so the only reliable source for the start point of the next command is the data just before the cursor. Every path through one iteration therefore ends with the assignment `start = Point{p.d[i-3], p.d[i-2]}` (receiver's data, the loop's cursor), after the last statement that changes the path or the cursor, and no `continue` skips it. A start point remembered from before the rest was joined back makes the next curve flatten from a point that is no longer on the path")
	p := c.MustPkg("")
	info := p.TypesInfo
	fd := core.MustFuncDecl(p, "Path.replace")
	r.Func("canvas.Path.replace")
	recv := recvObj(info, fd)
	var loop *ast.ForStmt
	for _, st := range fd.Body.List {
		if f, ok := st.(*ast.ForStmt); ok {
			loop = f
		}
	}
	key := "canvas.Path.replace|every iteration ends by re-reading the pen from the data before the cursor"
	if loop == nil || recv == nil {
		r.Fail("E2.pen-reread", key, c.Pos(fd.Pos()), "the command loop was not found")
		return
	}
	// cursor: the variable of the loop's init statement
	var cursor types.Object
	if as, ok := loop.Init.(*ast.AssignStmt); ok && len(as.Lhs) == 1 {
		if id, ok := as.Lhs[0].(*ast.Ident); ok {
			cursor = core.ObjOf(info, id)
		}
	}
	isReread := func(st ast.Stmt) bool {
		as, ok := st.(*ast.AssignStmt)
		if !ok || as.Tok != token.ASSIGN || len(as.Lhs) != 1 || len(as.Rhs) != 1 {
			return false
		}
		lid, ok := as.Lhs[0].(*ast.Ident)
		if !ok {
			return false
		}
		lo := core.ObjOf(info, lid)
		if lo == nil || (lo.Pos() > loop.Pos() && lo.Pos() < loop.End()) {
			return false
		}
		cl, ok := core.Unparen(as.Rhs[0]).(*ast.CompositeLit)
		if !ok || len(cl.Elts) != 2 {
			return false
		}
		for k, el := range cl.Elts {
			ie, ok := core.Unparen(el).(*ast.IndexExpr)
			if !ok || !core.IsPathDataSel(info, ie.X) {
				return false
			}
			if id := core.RootIdent(ie.X); id == nil || core.ObjOf(info, id) != recv {
				return false
			}
			be, ok := core.Unparen(ie.Index).(*ast.BinaryExpr)
			if !ok || be.Op != token.SUB {
				return false
			}
			id, ok := core.Unparen(be.X).(*ast.Ident)
			if !ok || core.ObjOf(info, id) != cursor {
				return false
			}
			if v, ok := core.ConstInt(info, be.Y); !ok || v != int64(3-k) {
				return false
			}
		}
		return true
	}
	var lastOK func(stmts []ast.Stmt) (bool, token.Pos)
	lastOK = func(stmts []ast.Stmt) (bool, token.Pos) {
		if len(stmts) == 0 {
			return false, token.NoPos
		}
		last := stmts[len(stmts)-1]
		if isReread(last) {
			return true, token.NoPos
		}
		if is, ok := last.(*ast.IfStmt); ok && is.Else != nil {
			ok1, p1 := lastOK(is.Body.List)
			if !ok1 {
				if p1 == token.NoPos {
					p1 = is.Body.Pos()
				}
				return false, p1
			}
			switch e := is.Else.(type) {
			case *ast.BlockStmt:
				ok2, p2 := lastOK(e.List)
				if !ok2 && p2 == token.NoPos {
					p2 = e.Pos()
				}
				return ok2, p2
			case *ast.IfStmt:
				return lastOK([]ast.Stmt{e})
			}
		}
		return false, last.Pos()
	}
	ok, where := lastOK(loop.Body.List)
	hasContinue := token.NoPos
	ast.Inspect(loop.Body, func(m ast.Node) bool {
		if _, isLit := m.(*ast.FuncLit); isLit {
			return false
		}
		if b, isB := m.(*ast.BranchStmt); isB && b.Tok == token.CONTINUE {
			hasContinue = b.Pos()
		}
		return true
	})
	switch {
	case !ok:
		if where == token.NoPos {
			where = loop.Pos()
		}
		r.Fail("E2.pen-reread", key, c.Pos(where), "an iteration of replace's loop can end here without `start = Point{p.d[i-3], p.d[i-2]}` as its last statement: the start point of the next command is then not taken from the rewritten data (Join may have merged the next line into the replacement's last line)")
	case hasContinue != token.NoPos:
		r.Fail("E2.pen-reread", key, c.Pos(hasContinue), "a `continue` skips the re-read of the pen position")
	default:
		r.OK("E2.pen-reread", key, c.Pos(loop.Pos()), "")
	}
	r.Count("E2.pen-reread-loops", 1)
	r.Floor("E2.pen-reread-loops", 1)
}

// E2SerialiseEveryCommand: the textual writers emit something for every command of the path.
func E2SerialiseEveryCommand(c *core.Ctx, r *core.Report) {
	r.Rule("E2.serialise-every-command", "Path.String, ToSVG, ToPS and ToPDF turn the command stream into text one record at a time. Every record changes what the text describes — a MoveTo starts a new sub-path even when the pen already is at that point (it decides where a later `z` returns to and whether two pieces are one contour) — so every path through the MoveTo and Close cases of the writers' command switch writes to the output (a drawing command of zero length may be left out: the geometry is the same) (a call of a fmt.Fprint* function or of a Write* method); leaving a case through `break` or `continue` before anything was written drops the record. `M0 0L10 0L10 10M10 10L20 10L20 0z` written without its second M parses back as one contour closed to (0,0)")
	p := c.MustPkg("")
	info := p.TypesInfo
	emits := func(st ast.Stmt) bool {
		found := false
		ast.Inspect(st, func(m ast.Node) bool {
			call, ok := m.(*ast.CallExpr)
			if !ok {
				return true
			}
			if f := core.CalleeOf(info, call); f != nil {
				if f.Pkg() != nil && f.Pkg().Path() == "fmt" && strings.HasPrefix(f.Name(), "Fprint") {
					found = true
				}
				if strings.HasPrefix(f.Name(), "Write") {
					found = true
				}
			}
			return true
		})
		return found
	}
	n := 0
	for _, name := range []string{"Path.String", "Path.ToSVG", "Path.ToPS", "Path.ToPDF"} {
		fd := core.MustFuncDecl(p, name)
		r.Func("canvas." + name)
		for _, cc := range cmdSwitchClauses(p, fd) {
			if len(cc.List) == 0 {
				continue
			}
			// the records that change the structure of the path: a segment of zero length may be
			// left out (the geometry is the same), a MoveTo or Close never
			if lbl := core.CaseLabel(info, cc); !strings.Contains(lbl, "MoveToCmd") && !strings.Contains(lbl, "CloseCmd") {
				continue
			}
			n++
			key := "canvas." + name + "|" + core.CaseLabel(info, cc) + "|every path writes"
			// a MoveTo to the point a preceding Close returned to may be left out (`zM0 0L5 5` is
			// `zL5 5` in SVG): a skip under a condition that tests the previous command for CloseCmd
			afterClose := func(is *ast.IfStmt) bool {
				found := false
				ast.Inspect(is.Cond, func(m ast.Node) bool {
					if id, ok := m.(*ast.Ident); ok && id.Name == "CloseCmd" {
						found = true
					}
					return true
				})
				return found
			}
			ok, bad := cpsMustHitExcuse(cc.Body, emits, true, afterClose)
			if ok {
				r.OK("E2.serialise-every-command", key, c.Pos(cc.Pos()), "")
			} else {
				pos := cc.Pos()
				if bad != nil {
					pos = bad.Pos()
				}
				r.Fail("E2.serialise-every-command", key, c.Pos(pos), "a path through this case leaves it without writing anything: the record is dropped from the text, and what follows is attached to the previous sub-path")
			}
		}
	}
	r.Count("E2.serialiser-cases", n)
	r.Floor("E2.serialiser-cases", 7)
}

// E2BackwardStepKnownKind: stepping back over a record with a fixed length presumes its kind is known.
func E2BackwardStepKnownKind(c *core.Ctx, r *core.Report) {
	r.Rule("E2.backward-step-known-kind", "path data is a sequence of records of different lengths, each closed by its command value; the record in front of position i is stepped over with `i - cmdLen(p.d[i-1])`. An index obtained as `i - cmdLen(K)` with a constant command K presumes that record to be a K; when the code afterwards tests the command value at that very index (`p.d[j] == …`), it states that the kind is not known there — the two beliefs contradict each other unless a test `p.d[i-1] == K` encloses the step. With an arc (eight values) in front, four steps back land on its flags value, which equals LineToCmd for a small counter-clockwise arc, and the record is misread as a line (expected count zero on the present tree; the mutant of the thorough tier is the positive example)")
	p := c.MustPkg("")
	info := p.TypesInfo
	steps, tested := 0, 0
	for _, fd := range core.AllFuncDecls(p) {
		if fd.Body == nil {
			continue
		}
		// j := base - cmdLen(K)
		type step struct {
			obj  types.Object
			base ast.Expr
			k    ast.Expr
			at   *ast.AssignStmt
		}
		var found []step
		var stack []ast.Node
		guards := map[*ast.AssignStmt][]ast.Expr{}
		ast.Inspect(fd.Body, func(n ast.Node) bool {
			if n == nil {
				stack = stack[:len(stack)-1]
				return true
			}
			stack = append(stack, n)
			as, ok := n.(*ast.AssignStmt)
			if !ok || len(as.Lhs) != 1 || len(as.Rhs) != 1 {
				return true
			}
			id, ok := as.Lhs[0].(*ast.Ident)
			if !ok {
				return true
			}
			var base ast.Expr
			var cl *ast.CallExpr
			switch as.Tok {
			case token.DEFINE, token.ASSIGN:
				be, ok := core.Unparen(as.Rhs[0]).(*ast.BinaryExpr)
				if !ok || be.Op != token.SUB {
					return true
				}
				base = be.X
				cl, _ = core.Unparen(be.Y).(*ast.CallExpr)
			case token.SUB_ASSIGN:
				base = as.Lhs[0]
				cl, _ = core.Unparen(as.Rhs[0]).(*ast.CallExpr)
			default:
				return true
			}
			if cl == nil || len(cl.Args) != 1 {
				return true
			}
			if f := core.CalleeOf(info, cl); f == nil || f.Name() != "cmdLen" {
				return true
			}
			if tv, ok := info.Types[cl.Args[0]]; !ok || tv.Value == nil {
				return true
			}
			steps++
			found = append(found, step{core.ObjOf(info, id), base, cl.Args[0], as})
			for _, g := range stack {
				if is, ok := g.(*ast.IfStmt); ok {
					guards[as] = append(guards[as], is.Cond)
				}
			}
			return true
		})
		for _, st := range found {
			// is the command value at the stepped index tested?
			var test ast.Node
			ast.Inspect(fd.Body, func(n ast.Node) bool {
				chk := func(e ast.Expr) bool {
					ie, ok := core.Unparen(e).(*ast.IndexExpr)
					if !ok || !core.IsPathDataSel(info, ie.X) {
						return false
					}
					id, ok := core.Unparen(ie.Index).(*ast.Ident)
					return ok && core.ObjOf(info, id) == st.obj
				}
				switch x := n.(type) {
				case *ast.BinaryExpr:
					if (x.Op == token.EQL || x.Op == token.NEQ) && x.Pos() > st.at.Pos() && (chk(x.X) || chk(x.Y)) && test == nil {
						test = x
					}
				case *ast.SwitchStmt:
					if x.Tag != nil && x.Pos() > st.at.Pos() && chk(x.Tag) && test == nil {
						test = x
					}
				}
				return true
			})
			if test == nil {
				continue
			}
			tested++
			key := fmt.Sprintf("canvas.%s|%s stepped back by cmdLen(%s) and tested", core.FuncName(fd), st.obj.Name(), c.Src(st.k))
			// an enclosing test that the record in front of base is a K
			want := c.Src(st.base) + " - 1"
			guarded := false
			for _, g := range guards[st.at] {
				ast.Inspect(g, func(n ast.Node) bool {
					be, ok := n.(*ast.BinaryExpr)
					if !ok || be.Op != token.EQL {
						return true
					}
					for _, pair := range [][2]ast.Expr{{be.X, be.Y}, {be.Y, be.X}} {
						ie, ok := core.Unparen(pair[0]).(*ast.IndexExpr)
						if ok && core.IsPathDataSel(info, ie.X) && c.Src(ie.Index) == want && c.Src(pair[1]) == c.Src(st.k) {
							guarded = true
						}
					}
					return true
				})
			}
			if guarded {
				r.OK("E2.backward-step-known-kind", key, c.Pos(st.at.Pos()), "the step is enclosed by a test of the record's command value")
			} else {
				r.Fail("E2.backward-step-known-kind", key, c.Pos(st.at.Pos()), fmt.Sprintf("`%s` presumes the record in front of `%s` to be a %s, yet `%s` tests what is found there: for a longer record (an arc has eight values) the index lands inside it, and the flags value of a small counter-clockwise arc equals LineToCmd", c.Src(st.at), c.Src(st.base), c.Src(st.k), c.Src(test)))
			}
		}
	}
	r.Count("E2.constant-backward-steps", steps)
	r.Floor("E2.constant-backward-steps", 3)
	r.OK("E2.backward-step-known-kind", "canvas|constant backward steps", c.Pos(p.Syntax[0].Pos()), fmt.Sprintf("%d backward steps by a constant command length, %d of them followed by a test of the command value at the new index", steps, tested))
}
